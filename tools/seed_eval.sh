#!/bin/sh
# tools/seed_eval.sh <seed-name> <worktree> <PROP> : keep an independently authored breaking change.
#   copies <worktree>/SEED/{patch.diff,demo.py,notes.txt} to seeded/<seed-name>/, then in a scratch copy of /repo (outside /repo
#   and /verif): runs the demo WITHOUT the change (must exit 0), applies the patch, runs the repository test suite (must pass),
#   runs the demo WITH the change (must exit non-zero), runs every quick check against the patched copy, writes meta.json.
name=$1; wt=$2; prop=$3
dst=/verif/seeded/$name
mkdir -p "$dst"
cp "$wt/SEED/patch.diff" "$wt/SEED/demo.py" "$dst/" || exit 2
[ -f "$wt/SEED/notes.txt" ] && cp "$wt/SEED/notes.txt" "$dst/"
scratch=$(mktemp -d /dev/shm/praatio-seed-XXXXXX)
trap 'rm -rf "$scratch"' EXIT
rsync -a --exclude .git --exclude __pycache__ /repo/ "$scratch/"
cd "$scratch" || exit 2
mkdir -p "$scratch/SEED" && cp "$dst/demo.py" "$scratch/SEED/demo.py"   # demos locate the tree as the parent of SEED/
PYTHONPATH="$scratch" /venv/bin/python "$scratch/SEED/demo.py" >/dev/null 2>&1; demo_without=$?
if ! patch -p1 -s < "$dst/patch.diff"; then echo "PATCH-FAILED"; exit 3; fi
tests=$(/venv/bin/python -m pytest -q -p no:cacheprovider --timeout=900 2>&1 | tail -1)
PYTHONPATH="$scratch" /venv/bin/python "$scratch/SEED/demo.py" >/dev/null 2>&1; demo_with=$?
echo "tests: $tests | demo without change: exit $demo_without | with change: exit $demo_with"
detected=""; missed=""
for p in C01 C02 C03 C04 C05 C06 C07 C08 C09 C10 C11 C12 C13 C14 C15 C16 C17 C18 C19 C20; do
  out=$(cd /verif && PRAATIO_SRC="$scratch" VERIF_EVIDENCE_DIR="$scratch/.evidence" ./check $p quick 2>/dev/null); rc=$?
  if [ $rc = 1 ] && echo "$out" | grep -q "^VIOLATION property=$p"; then
    detected="$detected $p"
    echo "  DETECTED $p: $(echo "$out" | grep -A2 '^VIOLATION' | sed -n 2,3p | tr '\n' ' ' | cut -c1-260)"
  else
    missed="$missed $p"
  fi
done
echo "detected by:$detected"
/venv/bin/python - "$dst" "$prop" "$tests" "$demo_without" "$demo_with" "$detected" <<'PY'
import json, sys, os
dst, prop, tests, dwo, dw, det = sys.argv[1:7]
notes = open(os.path.join(dst, 'notes.txt')).read() if os.path.exists(os.path.join(dst, 'notes.txt')) else ''
json.dump({"breaks_property": prop, "author": "independent sub-agent given only the property text and a scratch worktree",
           "needs_to_manifest": notes, "verified": {"repository_tests_with_change": tests, "demo_exit_without_change": int(dwo),
           "demo_exit_with_change": int(dw)}, "commands": ["tools/seed_eval.sh (scratch copy of /repo under /dev/shm, patch -p1, pytest, demo.py, ./check <all> quick with PRAATIO_SRC)"],
           "quick_checks_that_detect_it": det.split(), "target_check_detects_it": prop in det.split()}, open(os.path.join(dst, 'meta.json'), 'w'), indent=1)
PY
