#!/bin/sh
# tools/seed_eval_some.sh <name>... : (re-)evaluate the named kept seeds against all quick checks
cd "$(dirname "$0")/.." || exit 2
for name in "$@"; do
  d=seeded/$name; prop=$(echo ${name%%-*} | tr -d b)
  tmp=$(mktemp -d /dev/shm/seedsrc-XXXXXX); mkdir -p $tmp/SEED; cp $d/patch.diff $d/demo.py $tmp/SEED/; [ -f $d/notes.txt ] && cp $d/notes.txt $tmp/SEED/
  echo "=== $name"
  tools/seed_eval.sh $name $tmp $prop 2>&1 | cut -c1-330
  rm -rf $tmp
done
/venv/bin/python tools/seed_table.py
