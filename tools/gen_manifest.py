#!/usr/bin/env python3
"""Regenerates /verif/MANIFEST.json from the table below (run after adding a harness)."""
import json
import os

ROOT = os.path.dirname(os.path.dirname(os.path.abspath(__file__)))

BASELINE = ("cd /repo && /venv/bin/python -m pytest -ra -q -p no:cacheprovider --timeout=900 "
            "--continue-on-collection-errors")

# id -> (design section, technique, level text, level note)
T = {
    "C01": ("4/C01", "small-scope exhaustive enumeration of textgrids (labels over a 7-symbol alphabet, adversarial "
            "numbers, all small structures) x formats x flags, each round-tripped through the real writer and reader",
            "Every textgrid in the declared finite alphabet is saved and re-opened through the real code in all 16 "
            "format/flag configurations and compared field by field (bit-exact times modulo the stated near-integer "
            "exception) plus the save-open-save fixed point; no case in the space is skipped.",
            "Holds for the enumerated alphabet only (label length bound, the NUM set); keyword-bearing labels that the "
            "content-sniffing readers cannot handle are recorded known findings."),
    "C02": ("4/C02", "exhaustive enumeration of textgrids x formats x flags x overrides; every written text decoded by an "
            "independent spec-based tokenizing reader and cross-compared",
            "All written files in the declared space are decoded by a reader that shares no code with praatIO; sizes, "
            "quoting, field order, partition property and agreement of the four formats are checked on every one.",
            "The independent codec (mc/models/praatfmt.py) is written from Praat's published format description; Praat "
            "itself is not available."),
    "C03": ("4/C03", "exhaustive enumeration of tier data x layouts x encodings x newlines x flags rendered by an "
            "independent writer and opened with the real reader from real files",
            "Every file variant in the declared product is opened with openTextgrid and compared with the data the "
            "independent writer encoded; deviations (encoding, newline, layout) are explored default-first, then "
            "singly, then in pairs.",
            "Independent writer is mine; number notations and label alphabet as declared."),
    "C04": ("4/C04", "exhaustive enumeration of segment sequences (ordinary/gap/sliver) x thresholds x overrides x formats, "
            "declarative oracle on the independently decoded file",
            "All tiers of up to 5 segments mixing slivers around the threshold are saved in every configuration and the "
            "decoded file is checked against the declarative absorption rules, in exact rationals.",
            "Sliver lengths from the declared set; lengths within 4 ulp of the threshold are indifferent."),
    "C05": ("4/C05", "explicit-state BFS over the real tier operations (broad menu to a depth bound; reduced menu to the "
            "reachability fixed point) with the well-formedness invariant evaluated in every state; exhaustive constructor inputs",
            "Every reachable tier within the declared menu and caps is visited and the invariant checked; the deep regime "
            "closes, so histories of every length over that menu are covered.",
            "States are merged by observable fields (name, span, entries); operations are functions of those fields."),
    "C06": ("4/C06", "exhaustive enumeration of all order types of <=4 intervals against all windows x modes x rebase vs an "
            "exact-rational model",
            "Every tier/window pair on the grid (all order types of boundaries vs edges, degenerate windows included) is "
            "cropped by the real code in all 6 configurations and compared with the model: bit-exact on the dyadic grid, "
            "structural + 1e-9 on decimals.",
            "Bounded to <=4 intervals and the declared grids; crop is a per-entry case analysis so 4 entries reach every branch combination."),
    "C07": ("4/C07", "exhaustive enumeration of tiers x in-span regions x collision modes x shrink vs an exact-rational model",
            "All tiers x regions on dyadic (bit-exact) and decimal (structural, no rounding failure) grids.",
            "Bounded grids; equal- and distinct-label variants."),
    "C08": ("4/C08", "exhaustive enumeration of tiers x insertion points x durations x modes, plus the composed inverse",
            "All tiers x (s, d, mode) on both grids, with the insertSpace;eraseRegion composition compared to the original label function.",
            "Bounded grids."),
    "C09": ("4/C09", "exhaustive enumeration of tiers x offsets x reporting modes; all pairs for append; all name-set pairs for appendTextgrid",
            "Every tier/offset/mode and every ordered pair of operands is executed and compared with the shift/clip/append model, including printed warnings.",
            "Bounded grids and offsets."),
    "C10": ("4/C10", "exhaustive enumeration of all ordered pairs of tiers on 6 unit cells vs cell-wise set definitions",
            "All ordered pairs (A, B) of tiers on 6 cells run through union/difference/intersection/mergeLabels and compared with definitions on the cell decomposition.",
            "6 cells, 1-2 labels."),
    "C11": ("4/C11", "explicit-state BFS over insertEntry/deleteEntry histories compared in lock step with a list model",
            "Every history to the depth bound from every seed tier, all entries on the grid x modes x reporting modes; model compared after every transition.",
            "Depth bound 2 (quick) / 3 (thorough); label length cap."),
    "C12": ("4/C12", "explicit-state BFS over Textgrid mutators to the reachability fixed point vs an ordered-list model; exhaustive tier-wise edit comparison",
            "All reachable textgrids with <=4 tiers from 4 names x 5 slots are visited, every mutator transition compared with the list model; tier-wise edits compared per tier.",
            "Universe bounded to 4 names / 5 slots / 4 tiers."),
    "C13": ("4/C13", "exhaustive single-failure fault enumeration and snapshot comparison over BFS-reachable receivers",
            "For every reachable receiver and every operation/argument (including every failing argument choice) the receiver and arguments are snapshotted before and after; failing saves onto an existing file compare bytes.",
            "Receivers from the C05/C12 explorations at depth <=2."),
    "C14": ("4/C14", "exhaustive enumeration of tiers x reference tiers x maxDifference; all tier pairs x filters for morph",
            "Every timestamp's move/no-move decision is compared with the nearest-reference rule incl. the inclusive threshold and ties.",
            "Quarter grid; three maxDifference values."),
    "C15": ("4/C15", "exhaustive enumeration of query arguments over small tiers/series/interval lists vs direct definitions",
            "find/getNonEntries/timestamps/getValuesIn*/helpers/equality/validate on every input of the declared spaces.",
            "Small alphabets as declared."),
    "C16": ("4/C16", "explicit-state BFS over Wav edit histories vs a list-of-samples model with exact-rational time->index",
            "All edit histories to the depth bound from a 6-sample recording for each (width, rate), every observable compared after every transition.",
            "Depth bound; recording length cap."),
    "C17": ("4/C17", "exhaustive enumeration of interval lists x keep/delete x replacement; splitAudioOnTier configurations on real files",
            "All lists of <=3 disjoint intervals on and off the sample grid; written wavs parsed by an independent RIFF reader.",
            "12-sample recordings."),
    "C18": ("4/C18", "exhaustive enumeration of all sample sequences over a 3-value alphabet x targets x steps under a watchdog",
            "Every wave over {-2,0,1}^<=7 x every target x step; termination by watchdog, result judged as genuine crossing.",
            "3-value alphabet, length bound."),
    "C19": ("4/C19", "exhaustive enumeration of modification functions x addressed tiers on reference and synthetic KlattGrids; all point lists over NUM",
            "Every (tier, function) and every pair on distinct tiers: open-modify-save-open compared digit for digit.",
            "NUM value set; synthetic grids of 1-3 formants."),
    "C20": ("4/C20", "exhaustive enumeration of all series over a 5-value alphabet x windows x padding vs textbook definitions",
            "Every series up to the length bound x every window/padding through the real helpers and compared with numeric definitions.",
            "Length bound 5-6."),
}


def main():
    built = sorted(f[:-3].upper() for f in os.listdir(os.path.join(ROOT, "mc", "props"))
                   if f.startswith("c") and f[1:3].isdigit() and f.endswith(".py"))
    checks = []
    for pid in built:
        sec, tech, text, note = T[pid]
        checks.append({
            "property_id": pid,
            "quick_cmd": f"./check {pid} quick",
            "thorough_cmd": f"./check {pid} thorough",
            "evidence_file": f"/verif/evidence/{pid}.json",
            "replay_cmd_template": f"./check {pid} --replay {{path}}",
            "engine": "mc",
            "level_claimed": {"category": "model_checking", "text": text, "design_ref": f"DESIGN.md section {sec}"},
            "level_note": note,
            "technique": tech,
        })
    na = [{"property_id": pid, "reason": "harness not built yet in this session (planned, see DESIGN.md section 4); not claimed until its check exists"}
          for pid in sorted(T) if pid not in built]
    manifest = {
        "version": 1,
        "setup_cmd": "cd /verif && /venv/bin/python -c \"import sys; sys.path.insert(0,'/verif'); import mc.engine, mc.run\" && test -x ./check",
        "hooks": {
            "guard": "PRAATIO_VERIF",
            "enable": "no hooks: every property is observable through the public API; checks import praatio from /repo's working tree (PRAATIO_SRC overrides for mutant runs)",
            "baseline_off_cmd": BASELINE,
            "source_commits": [],
            "add_only": True,
        },
        "engines": [{
            "name": "mc",
            "path": "/verif/mc",
            "serves_properties": built,
            "kind_free_text": "hand-written Python explicit-state explorer: input-space enumerator + level-synchronous BFS over the real "
                              "praatio objects with canonical-state de-duplication, reference models compared on every transition, "
                              "sharded over a fork()ed process pool; plus a stateless two-thread schedule explorer (every one-preemption "
                              "interleaving at line granularity under sys.settrace with a semaphore baton) and whole-check re-runs in child "
                              "processes for other environments (python -O, a process with a past, locale / default encoding); per-case CPU "
                              "watchdog so that non-termination is an outcome, not a hang",
        }],
        "checks": checks,
        "not_applicable": na,
        "notes": "All checks: exit 0 = held on everything explored; exit 1 + 'VIOLATION property=<id> replay=<path>'. "
                 "known_findings.json lists recorded genuine defects (KNOWN-FINDING lines) and fixed ones. "
                 "VERIF_SEED only rotates shard order and sample selection; the explored space is fixed per tier.",
    }
    with open(os.path.join(ROOT, "MANIFEST.json"), "w") as fd:
        json.dump(manifest, fd, indent=1)
        fd.write("\n")
    print("claimed:", built)


if __name__ == "__main__":
    main()
