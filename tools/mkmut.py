#!/usr/bin/env python3
"""tools/mkmut.py <name> <file-relative-to-repo> <old> <new> : writes mutants/<name>.patch replacing the first occurrence"""
import sys, subprocess, tempfile, os, shutil
name, rel, old, new = sys.argv[1:5]
src = open('/repo/' + rel).read()
assert src.count(old) >= 1, (rel, old)
d = tempfile.mkdtemp(dir='/dev/shm')
os.makedirs(os.path.join(d, 'a', os.path.dirname(rel))); os.makedirs(os.path.join(d, 'b', os.path.dirname(rel)))
open(os.path.join(d, 'a', rel), 'w').write(src)
open(os.path.join(d, 'b', rel), 'w').write(src.replace(old, new, 1))
out = subprocess.run(['diff', '-u', 'a/' + rel, 'b/' + rel], cwd=d, capture_output=True, text=True).stdout
open('/verif/mutants/%s.patch' % name, 'w').write(out)
shutil.rmtree(d)
print(name, 'ok' if out else 'EMPTY')
