#!/bin/sh
# tools/benign_eval.sh <name> [<worktree>]  : a BEHAVIOUR-PRESERVING refactoring of /repo (written by an independent sub-agent that was given
# only one property's text) must leave every check silent.  If a worktree is given, its SEED/{patch.diff,notes.txt,equiv.py} are first copied
# to benign/<name>/ and the worktree is removed.  The patch is applied to a scratch copy of /repo (outside /repo and /verif), the repository's
# tests are run there, then ALL quick checks anchored in a touched file (plus the target's) are run against the copy; every one must exit 0.
# Writes benign/<name>/meta.json.  Prints SILENT / ALARM lines.
cd "$(dirname "$0")/.." || exit 2
name=$1; wt=$2
d=benign/$name
if [ -n "$wt" ]; then
  mkdir -p $d
  for f in patch.diff notes.txt equiv.py; do [ -f "$wt/SEED/$f" ] && cp "$wt/SEED/$f" $d/; done
  git -C /repo worktree remove --force "$wt" 2>/dev/null; rm -rf "$wt"
fi
prop=$(echo $name | cut -c1-3)
related() {
  out=""
  if grep -q "^+++ .*utilities/textgrid_io.py\|^+++ .*praatio/textgrid.py" "$1"; then out="$out C01 C02 C03 C04 C13"; fi
  if grep -q "^+++ .*utilities/my_math.py" "$1"; then out="$out C01 C02 C04 C20 C14"; fi
  if grep -q "^+++ .*utilities/constants.py" "$1"; then out="$out C05 C07 C11 C15"; fi
  if grep -q "^+++ .*data_classes/interval_tier.py\|^+++ .*data_classes/point_tier.py\|^+++ .*data_classes/textgrid_tier.py\|^+++ .*utilities/utils.py" "$1"; then
    out="$out C05 C06 C07 C08 C09 C10 C11 C12 C13 C14 C15 C17 C18"; fi
  if grep -q "^+++ .*data_classes/textgrid.py" "$1"; then out="$out C01 C02 C03 C04 C06 C07 C08 C09 C10 C12 C13 C15 C17 C18"; fi
  if grep -q "^+++ .*praatio/audio.py" "$1"; then out="$out C16 C17 C18"; fi
  if grep -q "^+++ .*praatio_scripts.py" "$1"; then out="$out C14 C17 C18"; fi
  if grep -q "^+++ .*klattgrid.py\|^+++ .*data_points.py\|^+++ .*data_point.py" "$1"; then out="$out C19"; fi
  if grep -q "^+++ .*pitch_and_intensity.py" "$1"; then out="$out C20"; fi
  echo $out
}
props=$(for p in $prop $(related $d/patch.diff); do echo $p; done | sort -u | tr '\n' ' ')
scratch=$(mktemp -d /dev/shm/praatio-benign-XXXXXX)
trap 'rm -rf "$scratch"' EXIT
rsync -a --exclude .git --exclude __pycache__ /repo/ "$scratch/"
if ! (cd $scratch && patch -p1 -s < /verif/$d/patch.diff); then echo "=== $name PATCH-FAILED"; exit 3; fi
lines=$(grep -c "^[-+][^-+]" $d/patch.diff)
tests=$(cd $scratch && PYTHONPATH="$scratch" /venv/bin/python -m pytest -q -p no:cacheprovider --timeout=900 2>&1 | tail -1)
alarms=""
for p in $props; do
  out=$(PRAATIO_SRC="$scratch" VERIF_EVIDENCE_DIR="$scratch/.evidence" VERIF_REPLAY_DIR="$scratch/.replays" ./check $p quick 2>/dev/null); rc=$?
  if [ $rc != 0 ]; then
    alarms="$alarms $p"
    echo "ALARM  $name $p (rc=$rc): $(echo "$out" | grep -A2 '^VIOLATION' | head -3 | tail -2 | cut -c1-400 | tr '\n' ' ')"
  fi
done
[ -z "$alarms" ] && echo "SILENT $name ($lines changed lines; tests: $tests; ran: $props)"
/venv/bin/python - "$d" "$prop" "$tests" "$props" "$alarms" "$lines" <<'PY'
import json, sys, os
d, prop, tests, props, alarms, lines = sys.argv[1:7]
notes = open(os.path.join(d, "notes.txt")).read() if os.path.exists(os.path.join(d, "notes.txt")) else ""
f = os.path.join(d, "meta.json")
old = json.load(open(f)) if os.path.exists(f) else {}
m = {"kind": "behaviour-preserving refactoring (every check must stay silent)", "written_for_property": prop,
     "author": "independent sub-agent given only the property text and a scratch worktree of /repo", "changed_lines": int(lines),
     "what_was_restructured": notes, "repository_tests_with_change": tests, "quick_checks_run": props.split(),
     "quick_checks_that_alarmed": alarms.split(),
     "commands": ["tools/benign_eval.sh <name> (scratch copy of /repo under /dev/shm; patch -p1; pytest; ./check <prop> quick with PRAATIO_SRC=<scratch>)"]}
for k in ("verdict", "history"):
    if k in old:
        m[k] = old[k]
json.dump(m, open(f, "w"), indent=1, ensure_ascii=False)
PY
