#!/bin/sh
# tools/seed_demo.sh <seed-dir> : re-verify tests + demonstration of a kept seed in a scratch copy and update meta.json
dst=$1
scratch=$(mktemp -d /dev/shm/praatio-seed-XXXXXX)
trap 'rm -rf "$scratch"' EXIT
rsync -a --exclude .git --exclude __pycache__ /repo/ "$scratch/"
cd "$scratch" || exit 2
mkdir -p "$scratch/SEED" && cp "$dst/demo.py" "$scratch/SEED/demo.py"   # demos locate the tree as the parent of SEED/
PYTHONPATH="$scratch" /venv/bin/python "$scratch/SEED/demo.py" >/dev/null 2>&1; a=$?
patch -p1 -s < "$dst/patch.diff" || { echo PATCH-FAILED; exit 3; }
t=$(PYTHONPATH="$scratch" /venv/bin/python -m pytest -q -p no:cacheprovider --timeout=900 2>&1 | tail -1)
PYTHONPATH="$scratch" /venv/bin/python "$scratch/SEED/demo.py" >/dev/null 2>&1; b=$?
echo "$(basename $dst): tests: $t | demo without change: exit $a | with change: exit $b"
/venv/bin/python - "$dst" "$t" "$a" "$b" <<'PY'
import json, sys, os
dst, t, a, b = sys.argv[1:5]
f = os.path.join(dst, 'meta.json')
m = json.load(open(f)) if os.path.exists(f) else {}
m.setdefault('verified', {}).update({"repository_tests_with_change": t, "demo_exit_without_change": int(a), "demo_exit_with_change": int(b)})
json.dump(m, open(f, 'w'), indent=1)
PY
