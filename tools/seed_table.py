#!/usr/bin/env python3
"""Regenerates seeded/RESULTS.md from seeded/*/meta.json"""
import glob, json, os
ROOT = os.path.dirname(os.path.dirname(os.path.abspath(__file__)))
rows = []
for f in sorted(glob.glob(os.path.join(ROOT, "seeded", "*", "meta.json"))):
    m = json.load(open(f))
    name = os.path.basename(os.path.dirname(f))
    v = m.get("verified", {})
    rows.append((name, m.get("breaks_property"), v.get("repository_tests_with_change", ""), v.get("demo_exit_without_change"),
                 v.get("demo_exit_with_change"), " ".join(m.get("quick_checks_that_detect_it", [])) or "-",
                 (m.get("history", "") + (" NOT A VIOLATION (by design not reported): " + m["not_a_violation"] if m.get("not_a_violation") else "")).strip()))
with open(os.path.join(ROOT, "seeded", "RESULTS.md"), "w") as fd:
    fd.write("# Independently authored breaking changes (sub-agents given only the property text and a scratch worktree)\n\n")
    fd.write("Each row was re-verified in a scratch copy of /repo: the repository's tests pass with the change, the demonstration exits 0 "
             "without it and non-zero with it; then the quick check of the target property was run against the changed copy (`tools/seed_targets.sh`, the final regression pass; rows that list further checks were also evaluated against every property anchored in a touched file by `tools/seed_matrix.sh` or `tools/seed_eval.sh` earlier).\n\n")
    fd.write("| seed | breaks | repository tests with the change | demo exit without / with | quick checks that report it | notes |\n|---|---|---|---|---|---|\n")
    for r in rows:
        fd.write(f"| {r[0]} | {r[1]} | {r[2]} | {r[3]} / {r[4]} | {r[5]} | {r[6]} |\n")
print(len(rows), "seeds")
