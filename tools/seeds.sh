#!/bin/sh
# tools/seeds.sh [seeds...] : run every quick check from a fresh process for several VERIF_SEED values; every run must exit 0
# without a VIOLATION line and the run digests must be identical across seeds (the seed only rotates shard order / samples).
cd "$(dirname "$0")/.." || exit 2
seeds=${*:-"0 1 7 12345"}
bad=0
for p in C01 C02 C03 C04 C05 C06 C07 C08 C09 C10 C11 C12 C13 C14 C15 C16 C17 C18 C19 C20; do
  digs=""
  for s in $seeds; do
    out=$(VERIF_SEED=$s VERIF_EVIDENCE_DIR=/dev/shm/praatio-seeds-ev ./check $p quick 2>/dev/null); rc=$?
    d=$(echo "$out" | sed -n 's/.*digest=\([0-9a-f]*\).*/\1/p' | tail -1)
    if [ $rc != 0 ] || echo "$out" | grep -q "^VIOLATION"; then echo "ALARM $p seed=$s rc=$rc"; bad=1; fi
    digs="$digs $d"
  done
  n=$(echo $digs | tr ' ' '\n' | sort -u | wc -l)
  echo "$p digests:$digs $( [ $n = 1 ] && echo same || echo DIFFERENT )"
  [ $n = 1 ] || bad=1
done
rm -rf /dev/shm/praatio-seeds-ev
exit $bad
