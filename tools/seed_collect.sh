#!/bin/sh
# tools/seed_collect.sh <seed-name> <worktree> <PROP>... : copy <worktree>/SEED/{patch.diff,demo.py,notes.txt} to seeded/<seed-name>/,
# remove the scratch worktree, re-verify tests + demonstration in a scratch copy (seed_demo.sh) and run the named quick checks
# against the change (mutant.sh).  The full check-by-seed matrix is written later by seed_eval_all.sh.
n=$1; wt=$2; shift 2
cd /verif || exit 2
mkdir -p seeded/$n && cp $wt/SEED/patch.diff $wt/SEED/demo.py $wt/SEED/notes.txt seeded/$n/ || exit 2
git -C /repo worktree remove --force $wt
tools/seed_demo.sh $PWD/seeded/$n
tools/mutant.sh $PWD/seeded/$n/patch.diff "$@"
