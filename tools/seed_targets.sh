#!/bin/sh
# tools/seed_targets.sh [name-prefix...] : the final regression pass over the seeded corpus.  For every kept seed (default: all): scratch copy of
# /repo (outside /repo and /verif), apply the patch, run the repository's tests and the author's demo (exit 0 without / non-zero with the
# change), then the quick check of the TARGET property against the changed copy (VERIF_FAIL_FAST: the run stops at the first part that reports).
# Updates seeded/<name>/meta.json (keeps what an earlier cross-property matrix run recorded) and regenerates seeded/RESULTS.md.
cd "$(dirname "$0")/.." || exit 2
for d in seeded/C*/; do
  name=$(basename $d); prop=$(echo $name | cut -c1-3)
  if [ $# -gt 0 ]; then ok=0; for pre in "$@"; do case $name in $pre*) ok=1;; esac; done; [ $ok = 1 ] || continue; fi
  [ -f $d/patch.diff ] || continue
  scratch=$(mktemp -d /dev/shm/praatio-seedt-XXXXXX)
  rsync -a --exclude .git --exclude __pycache__ /repo/ "$scratch/"
  dwo=-; dw=-
  if [ -f $d/demo.py ]; then
    mkdir -p "$scratch/SEED" && cp $d/demo.py "$scratch/SEED/demo.py"
    (cd $scratch && PYTHONPATH="$scratch" timeout 600 /venv/bin/python "$scratch/SEED/demo.py" >/dev/null 2>&1); dwo=$?
  fi
  if ! (cd $scratch && patch -p1 -s < /verif/$d/patch.diff); then echo "=== $name PATCH-FAILED"; rm -rf $scratch; continue; fi
  tests=$(cd $scratch && PYTHONPATH="$scratch" /venv/bin/python -m pytest -q -p no:cacheprovider --timeout=900 2>&1 | tail -1)
  if [ -f $d/demo.py ]; then
    (cd $scratch && PYTHONPATH="$scratch" timeout 600 /venv/bin/python "$scratch/SEED/demo.py" >/dev/null 2>&1); dw=$?
  fi
  out=$(VERIF_FAIL_FAST=1 PRAATIO_SRC="$scratch" VERIF_EVIDENCE_DIR="$scratch/.evidence" VERIF_REPLAY_DIR="$scratch/.replays" ./check $prop quick 2>/dev/null); rc=$?
  det=no; first=""
  if [ $rc = 1 ] && echo "$out" | grep -q "^VIOLATION property=$prop"; then det=yes; first=$(echo "$out" | grep -A1 '^VIOLATION' | head -2 | tail -1 | cut -c1-200); fi
  echo "=== $name tests: $tests | demo $dwo/$dw | target $prop detected: $det $first"
  /venv/bin/python - "$d" "$prop" "$tests" "$dwo" "$dw" "$det" "$first" <<'PY'
import json, sys, os
d, prop, tests, dwo, dw, det, first = sys.argv[1:8]
f = os.path.join(d, "meta.json")
m = json.load(open(f)) if os.path.exists(f) else {}
notes = open(os.path.join(d, "notes.txt")).read() if os.path.exists(os.path.join(d, "notes.txt")) else m.get("needs_to_manifest", "")
m.setdefault("breaks_property", prop)
m.setdefault("author", "independent sub-agent given only the property text and a scratch worktree of /repo")
m["needs_to_manifest"] = notes
m["verified"] = {"repository_tests_with_change": tests, "demo_exit_without_change": None if dwo == "-" else int(dwo), "demo_exit_with_change": None if dw == "-" else int(dw)}
cmds = m.get("commands", [])
c = "tools/seed_targets.sh (scratch copy of /repo under /dev/shm; patch -p1; pytest; SEED/demo.py with PYTHONPATH=<scratch>; VERIF_FAIL_FAST=1 ./check <target> quick with PRAATIO_SRC=<scratch>)"
if c not in cmds:
    cmds.append(c)
m["commands"] = cmds
m["target_check_detects_it"] = det == "yes"
m["target_check_first_report"] = first.strip()
dets = set(m.get("quick_checks_that_detect_it", []))
ran = set(m.get("quick_checks_run", [])) | {prop}
if det == "yes":
    dets.add(prop)
else:
    dets.discard(prop)
m["quick_checks_run"] = sorted(ran)
m["quick_checks_that_detect_it"] = sorted(dets)
json.dump(m, open(f, "w"), indent=1, ensure_ascii=False)
PY
  rm -rf $scratch
done
/venv/bin/python tools/seed_table.py
