#!/bin/sh
# tools/seed_matrix.sh [name-prefix...] : for every kept seed (default: all) re-verify it in a scratch copy of /repo (tests pass with the
# change; demo exits 0 without / non-zero with it) and run the quick checks of the TARGET property and of every property anchored in a
# file the patch touches against the changed copy.  Writes seeded/<name>/meta.json and, at the end, seeded/RESULTS.md.
cd "$(dirname "$0")/.." || exit 2
related() {  # $1 = patch file -> list of properties whose anchors include a touched file
  out=""
  if grep -q "^+++ .*utilities/textgrid_io.py\|^+++ .*praatio/textgrid.py" "$1"; then out="$out C01 C02 C03 C04 C13"; fi
  if grep -q "^+++ .*utilities/my_math.py" "$1"; then out="$out C01 C02 C04 C20 C14"; fi
  if grep -q "^+++ .*utilities/constants.py" "$1"; then out="$out C05 C07 C11 C15"; fi
  if grep -q "^+++ .*data_classes/interval_tier.py\|^+++ .*data_classes/point_tier.py\|^+++ .*data_classes/textgrid_tier.py\|^+++ .*utilities/utils.py" "$1"; then
    out="$out C05 C06 C07 C08 C09 C10 C11 C13 C14 C15"; fi
  if grep -q "^+++ .*data_classes/textgrid.py" "$1"; then out="$out C01 C04 C06 C07 C08 C09 C10 C12 C13"; fi
  if grep -q "^+++ .*praatio/audio.py" "$1"; then out="$out C16 C17 C18"; fi
  if grep -q "^+++ .*praatio_scripts.py" "$1"; then out="$out C17 C18"; fi
  if grep -q "^+++ .*klattgrid.py\|^+++ .*data_points.py\|^+++ .*data_point.py" "$1"; then out="$out C19"; fi
  if grep -q "^+++ .*pitch_and_intensity.py" "$1"; then out="$out C20"; fi
  echo $out
}
for d in seeded/C*/; do
  name=$(basename $d); prop=${name%%-*}; prop=$(echo $prop | cut -c1-3)
  if [ $# -gt 0 ]; then ok=0; for pre in "$@"; do case $name in $pre*) ok=1;; esac; done; [ $ok = 1 ] || continue; fi
  props=$(for p in $prop $(related $d/patch.diff); do echo $p; done | sort -u | tr '\n' ' ')
  scratch=$(mktemp -d /dev/shm/praatio-seed-XXXXXX)
  rsync -a --exclude .git --exclude __pycache__ /repo/ "$scratch/"
  mkdir -p "$scratch/SEED" && cp $d/demo.py "$scratch/SEED/demo.py"
  (cd $scratch && PYTHONPATH="$scratch" /venv/bin/python "$scratch/SEED/demo.py" >/dev/null 2>&1); dwo=$?
  if ! (cd $scratch && patch -p1 -s < /verif/$d/patch.diff); then echo "=== $name PATCH-FAILED"; rm -rf $scratch; continue; fi
  tests=$(cd $scratch && PYTHONPATH="$scratch" /venv/bin/python -m pytest -q -p no:cacheprovider --timeout=900 2>&1 | tail -1)
  (cd $scratch && PYTHONPATH="$scratch" /venv/bin/python "$scratch/SEED/demo.py" >/dev/null 2>&1); dw=$?
  det=""
  for p in $props; do
    out=$(PRAATIO_SRC="$scratch" VERIF_EVIDENCE_DIR="$scratch/.evidence" ./check $p quick 2>/dev/null); rc=$?
    if [ $rc = 1 ] && echo "$out" | grep -q "^VIOLATION property=$p"; then det="$det $p"; fi
  done
  echo "=== $name tests: $tests | demo $dwo/$dw | ran: $props| detected by:$det"
  /venv/bin/python - "$d" "$prop" "$tests" "$dwo" "$dw" "$det" "$props" <<'PY'
import json, sys, os
d, prop, tests, dwo, dw, det, props = sys.argv[1:8]
f = os.path.join(d, "meta.json")
old = json.load(open(f)) if os.path.exists(f) else {}
notes = open(os.path.join(d, "notes.txt")).read() if os.path.exists(os.path.join(d, "notes.txt")) else old.get("needs_to_manifest", "")
m = {"breaks_property": prop, "author": "independent sub-agent given only the property text and a scratch worktree of /repo",
     "needs_to_manifest": notes,
     "verified": {"repository_tests_with_change": tests, "demo_exit_without_change": int(dwo), "demo_exit_with_change": int(dw)},
     "commands": ["tools/seed_matrix.sh (scratch copy of /repo under /dev/shm; patch -p1; pytest; SEED/demo.py with PYTHONPATH=<scratch>; ./check <prop> quick with PRAATIO_SRC=<scratch>)"],
     "quick_checks_run": props.split(), "quick_checks_that_detect_it": det.split(), "target_check_detects_it": prop in det.split()}
if "history" in old:
    m["history"] = old["history"]
if "not_a_violation" in old:
    m["not_a_violation"] = old["not_a_violation"]
json.dump(m, open(f, "w"), indent=1, ensure_ascii=False)
PY
  rm -rf $scratch
done
/venv/bin/python tools/seed_table.py
