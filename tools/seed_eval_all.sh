#!/bin/sh
# tools/seed_eval_all.sh : re-evaluate every kept seed (seeded/<name>/patch.diff + demo.py) against all quick checks
cd "$(dirname "$0")/.." || exit 2
for d in seeded/C*/; do
  name=$(basename $d); prop=${name%%-*}
  tmp=$(mktemp -d /dev/shm/seedsrc-XXXXXX); mkdir -p $tmp/SEED; cp $d/patch.diff $d/demo.py $tmp/SEED/; [ -f $d/notes.txt ] && cp $d/notes.txt $tmp/SEED/
  echo "=== $name"
  tools/seed_eval.sh $name $tmp $prop 2>&1 | cut -c1-330
  rm -rf $tmp
done
/venv/bin/python tools/seed_table.py
