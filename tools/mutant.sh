#!/bin/sh
# tools/mutant.sh <patch-file> [--tests] <PROP>...   : apply the patch to a scratch copy of /repo (outside
# /repo and /verif), optionally run the repository's test suite there, run the named quick checks against
# the copy via PRAATIO_SRC, then delete the copy.  Prints one line per check: DETECTED / MISSED.
patch=$1; shift
runtests=0
if [ "$1" = "--tests" ]; then runtests=1; shift; fi
base=${TMPDIR:-/dev/shm}
scratch=$(mktemp -d "$base/praatio-mutant-XXXXXX")
trap 'rm -rf "$scratch"' EXIT
rsync -a --exclude .git --exclude __pycache__ /repo/ "$scratch/"
if ! (cd "$scratch" && patch -p1 -s < "$patch"); then echo "PATCH-FAILED $patch"; exit 3; fi
if [ $runtests = 1 ]; then
  (cd "$scratch" && PYTHONPATH="$scratch" /venv/bin/python -m pytest -q -p no:cacheprovider -x --timeout=900 2>&1 | tail -1)
fi
tier=${MUTANT_TIER:-quick}
for prop in "$@"; do
  out=$(cd "${VERIF_ROOT:-/verif}" && VERIF_FAIL_FAST=1 PRAATIO_SRC="$scratch" VERIF_EVIDENCE_DIR="$scratch/.evidence" ./check "$prop" $tier 2>/dev/null)
  rc=$?
  if [ $rc = 1 ] && echo "$out" | grep -q "^VIOLATION property=$prop"; then
     echo "DETECTED $prop $(basename $patch): $(echo "$out" | grep -A1 '^VIOLATION' | head -2 | tail -1 | cut -c1-160)"
  else
     echo "MISSED   $prop $(basename $patch) (rc=$rc)"
  fi
done
