"""Bounded-exhaustive exploration engine for the praatIO checks.

Two kinds of explored spaces ("parts"):

* InputPart - a finite input space given by a generator of literal-only case tuples in a
  canonical simplest-first order.  Every case is executed once on the real code by
  ``check(case)`` and judged by an independent oracle.
* BfsPart   - explicit-state breadth-first search.  A state is a literal-only canonical
  tuple of the observable fields of a real object (from which the object is rebuilt),
  a transition calls the real method with one argument tuple from a finite menu,
  states are de-duplicated by their canonical form and the oracle / reference model is
  evaluated on every transition.

Nothing is sampled.  ``VERIF_SEED`` only rotates the shard order and picks which cases
are written out as samples.  Work is sharded over a fork()ed process pool; praatio is
imported exactly once, from ``$PRAATIO_SRC`` (default /repo), before the fork.
"""
import ast
import collections
import contextlib
import hashlib
import io
import itertools
import multiprocessing
import os
import sys
import time
import traceback

SRC = os.environ.get("PRAATIO_SRC", "/repo")
NPROC = int(os.environ.get("VERIF_NPROC", "0")) or (os.cpu_count() or 4)
TRACK_CAP = 1500000  # cap for distinct-key tracking sets (memory); reported when hit
MAX_VIOLS_PER_WORKER = 40


def load_praatio():
    """Import praatio freshly from the tree under test and prove where it came from."""
    src = os.path.realpath(SRC)
    for m in [m for m in sys.modules if m == "praatio" or m.startswith("praatio.")]:
        del sys.modules[m]
    sys.path[:] = [p for p in sys.path if os.path.realpath(p or ".") != src]
    sys.path.insert(0, src)
    sys.dont_write_bytecode = True
    # every praatio module is imported while sys.stdout / sys.stderr are temporary streams that are CLOSED afterwards (a start-up log buffer, a
    # `with redirect_stdout(...)` around a lazy import): a library that binds "the output stream" at import time (a default argument
    # `stream=sys.stdout`, a module-level `_out = sys.stdout`) holds a dead stream from then on
    import io
    import pkgutil
    import importlib
    real_out, real_err = sys.stdout, sys.stderr
    tmp_out, tmp_err = io.StringIO(), io.StringIO()
    sys.stdout, sys.stderr = tmp_out, tmp_err
    try:
        import praatio  # noqa
        for m in pkgutil.walk_packages(praatio.__path__, "praatio."):
            try:
                importlib.import_module(m.name)
            except Exception:      # praatio.tgio / praatio.praatio_io exist only to tell users of 4.x that they were renamed: importing them raises
                pass
    finally:
        sys.stdout, sys.stderr = real_out, real_err
        tmp_out.close()
        tmp_err.close()

    where = os.path.realpath(praatio.__file__)
    if not where.startswith(src + os.sep):
        raise SystemExit(f"praatio imported from {where}, not from {src}")
    return src


_SIMPLE = (str, bytes, int, float, bool, type(None), tuple, list, dict, set, frozenset)


def library_state():
    """What the library keeps OUTSIDE the objects it is handed, as far as it is meant to be constant: the option constants (class attributes of
    plain value types in praatio.utilities.constants and every other praatio class), module-level names bound to plain values, and the default
    values in the signatures of praatio's functions and methods.  A call that changes any of this changes what later calls on other objects do.
    (Memo caches are deliberately not covered: functools caches live in closures, and a module-level dict used as a cache is the business of the
    history / repeated-read parts.)"""
    import inspect
    out = {}
    for mname, mod in sorted(sys.modules.items()):
        if not (mname == "praatio" or mname.startswith("praatio.")) or mod is None:
            continue
        for k, v in sorted(vars(mod).items()):
            if k.startswith("__"):
                continue
            if isinstance(v, _SIMPLE) and not isinstance(v, dict):
                out[f"{mname}.{k}"] = repr(v)[:300]
            elif inspect.isclass(v) and getattr(v, "__module__", "") == mname:
                for ck, cv in sorted(vars(v).items()):
                    if not ck.startswith("__") and isinstance(cv, _SIMPLE):
                        out[f"{mname}.{v.__name__}.{ck}"] = repr(cv)[:300]
                    elif inspect.isfunction(cv):
                        out[f"{mname}.{v.__name__}.{ck}()"] = repr((cv.__defaults__, cv.__kwdefaults__))[:300]
            elif inspect.isfunction(v) and getattr(v, "__module__", "") == mname:
                out[f"{mname}.{k}()"] = repr((v.__defaults__, v.__kwdefaults__))[:300]
    return out


_LIBSTATE0 = None


def _libstate_viol():
    """compare with the state recorded before the workers were forked; returns a Viol or None"""
    if _LIBSTATE0 is None:
        return None
    now = library_state()
    diff = [(k, _LIBSTATE0.get(k), now.get(k)) for k in sorted(set(now) | set(_LIBSTATE0)) if _LIBSTATE0.get(k) != now.get(k)]
    if not diff:
        return None
    k, a, b = diff[0]
    return Viol("library-level-state-changed", f"after the cases of this shard, {k} is {b} (it was {a} when the library was imported): a call changed state "
                                               f"that later calls on other objects read ({len(diff)} name(s) differ)")


def h64(obj) -> int:
    return int.from_bytes(
        hashlib.blake2b(repr(obj).encode("utf-8", "surrogatepass"), digest_size=8).digest(), "big"
    )


class Viol(dict):
    """A violation: kind (short class), msg (human text), sig (known-finding signature)."""

    def __init__(self, kind, msg="", sig=None, **extra):
        super().__init__(kind=kind, msg=str(msg)[:2000], sig=sig, **extra)


class InputPart:
    kind = "inputs"

    def __init__(self, name, gen, check, rule, bounds=None, chunk=32, snippet=None, exhaustive=True):
        self.name = name
        self.gen = gen  # () -> iterator of literal-only cases
        self.check = check  # case -> (ntransitions, outcome, nontrivial_key|None, [Viol])
        self.rule = rule
        self.bounds = bounds or {}
        self.chunk = chunk
        self.snippet = snippet  # case -> python source replaying it with plain praatio calls
        self.exhaustive = exhaustive


class BfsPart:
    kind = "bfs"

    def __init__(self, name, seeds, ops, step, rule, bounds=None, max_depth=None, prune=None,
                 snippet=None, state_cap=None):
        self.name = name
        self.seeds = seeds  # () -> list of canonical states
        self.ops = ops  # state -> iterable of literal-only ops
        self.step = step  # (state, op) -> (succ_state|None, ntransitions, outcome, nontrivial, [Viol])
        self.rule = rule
        self.bounds = bounds or {}
        self.max_depth = max_depth  # None = run to the reachability fixed point
        self.prune = prune  # state -> True if beyond the declared caps (counted, not expanded)
        self.snippet = snippet
        self.state_cap = state_cap  # safety cap on number of states; hitting it => not exhaustive

    def check(self, case):
        state, op = case
        succ, n, outcome, nontriv, viols = self.step(state, op)
        return n, outcome, nontriv, viols


_PARTS = []


def _quiet():
    # praatio prints warnings; harnesses that observe them redirect stdout locally
    sys.stdout = open(os.devnull, "w")


class CaseTimeout(BaseException):
    """raised inside a worker when ONE case has used more CPU time than CASE_CPU_LIMIT (derives from BaseException so that the
    harnesses' own `except Exception` around library calls lets it through)"""


CASE_CPU_LIMIT = float(os.environ.get("VERIF_CASE_CPU_LIMIT", "60"))
# coarser exploration for the second run under another interpreter mode (mc/props/optimised.py): every INPUT_STRIDE-th case beyond the first
# INPUT_DENSE ones of each input space, BFS parts to depth BFS_DEPTH_CAP; such a run never claims exhaustiveness
INPUT_STRIDE = int(os.environ.get("VERIF_INPUT_STRIDE", "1"))
INPUT_DENSE = int(os.environ.get("VERIF_INPUT_DENSE", "400"))
BFS_DEPTH_CAP = int(os.environ.get("VERIF_BFS_DEPTH_CAP", "0"))


# every case is run while the calling thread is HANDLING an exception (inside an `except` block, as in `try: open(cache) / except
# FileNotFoundError: <library calls>`): sys.exc_info() is non-empty on entry to every library call.  Set in the process-with-a-past child.
IN_HANDLER = bool(os.environ.get("VERIF_IN_HANDLER"))


def open_descriptors():
    """the file descriptors this process holds (None where /proc is not available)"""
    try:
        return sorted(int(x) for x in os.listdir("/proc/self/fd"))
    except (OSError, ValueError):
        return None


def _on_cpu_limit(signum, frame):
    raise CaseTimeout()


def _guarded(f, *a):
    """run f under a CPU-time watchdog: a library call that never returns (a loop whose exit condition a change has broken) must
    show up as a violation of that case, not as a check that never finishes.  CPU time (ITIMER_VIRTUAL), not wall time: a loaded
    machine must not turn slow cases into alarms; 60 s of CPU for one case is three orders of magnitude above the slowest case."""
    import signal
    try:
        old = signal.signal(signal.SIGVTALRM, _on_cpu_limit)
    except ValueError:      # not in the main thread of this process: run unguarded
        return f(*a)
    signal.setitimer(signal.ITIMER_VIRTUAL, CASE_CPU_LIMIT)
    try:
        if IN_HANDLER:
            try:
                raise LookupError("the caller of the library is busy handling this exception")
            except LookupError:
                return f(*a)
        return f(*a)
    finally:
        signal.setitimer(signal.ITIMER_VIRTUAL, 0)
        signal.signal(signal.SIGVTALRM, old)


def _safe_check(part, case):
    try:
        return _guarded(part.check, case)
    except CaseTimeout:
        return 1, "non-termination", None, [
            Viol("non-termination", f"this case did not finish within {CASE_CPU_LIMIT:g} s of CPU time (every case of this part takes "
                                    f"milliseconds to seconds): a call into the library does not return", None)
        ]
    except Exception as e:  # the oracle met something it cannot even interpret
        tb = traceback.format_exc(limit=6)
        return 1, "harness-exception", None, [
            Viol("harness-exception:" + type(e).__name__, tb, None)
        ]


class _Acc:
    def __init__(self):
        self.evals = 0
        self.trans = 0
        self.outcomes = collections.Counter()
        self.nontriv = set()
        self.nontriv_capped = False
        self.viols = []
        self.nviol = 0
        self.digest = 0
        self.samples = []
        self.nondet = []
        self.sigs = set()
        self.nunsigned = 0
        self.aborted = False

    def add(self, idx, case, res, seed):
        n, outcome, nontriv, viols = res
        self.evals += 1
        self.trans += n
        self.outcomes[outcome if isinstance(outcome, str) else repr(outcome)] += 1
        if nontriv is not None and not self.nontriv_capped:
            self.nontriv.add(h64(nontriv))
            if len(self.nontriv) > TRACK_CAP:
                self.nontriv_capped = True
        self.digest = (self.digest + h64((case, outcome, [v["kind"] for v in viols]))) & (2**64 - 1)
        if viols:
            self.nviol += len(viols)
            for v in viols:
                if v.get("sig") is not None:
                    # signed violations (candidates for known findings) are kept once per signature
                    key = repr(sorted(v["sig"].items()))
                    if key not in self.sigs:
                        self.sigs.add(key)
                        self.viols.append((idx, repr(case), dict(v)))
                    else:
                        self.nviol -= 1
                elif self.nunsigned < MAX_VIOLS_PER_WORKER:
                    self.nunsigned += 1
                    self.viols.append((idx, repr(case), dict(v)))
        if len(self.samples) < 3 and (idx == 0 or h64((idx, seed)) % 997 == 0):
            self.samples.append((idx, repr(case)[:600], str(outcome)[:200]))

    def pack(self):
        return dict(evals=self.evals, trans=self.trans, outcomes=self.outcomes, nontriv=self.nontriv,
                    nontriv_capped=self.nontriv_capped, viols=self.viols, nviol=self.nviol,
                    digest=self.digest, samples=self.samples, nondet=self.nondet, aborted=self.aborted)


def _work_inputs(args):
    pi, shard, nshards, seed = args
    part = _PARTS[pi]
    acc = _Acc()
    ch = part.chunk
    redo = []
    import gc
    gc.collect()
    fds0 = open_descriptors()
    for idx, case in enumerate(part.gen()):
        if ((idx // ch) + seed) % nshards != shard:
            continue
        if INPUT_STRIDE > 1 and idx >= INPUT_DENSE and idx % INPUT_STRIDE:
            continue
        res = _safe_check(part, case)
        acc.add(idx, case, res, seed)
        if len(redo) < 40:
            redo.append((idx, case, res))
        if res[1] == "non-termination":
            # one case of this shard ran into the CPU watchdog: the run is a failed run; do not wait for the same loop again and again
            acc.aborted = True
            break
        if acc.nunsigned >= MAX_VIOLS_PER_WORKER:
            # this shard has already reported the maximum number of violations it may carry: the run is a failed run whatever
            # the remaining cases say, so stop here (a tree in which e.g. every lookup hangs until the watchdog fires would
            # otherwise take hours); the part is then reported as NOT exhaustive
            acc.aborted = True
            break
    lv = _libstate_viol()
    if lv is not None:
        acc.add(10**12 + shard, ("library-state-after-shard", shard), (1, "!", None, [lv]), seed)
    gc.collect()
    fds1 = open_descriptors()
    if fds0 is not None and fds1 is not None and len(fds1) > len(fds0) and not acc.aborted:
        extra = [fd for fd in fds1 if fd not in fds0]
        what = []
        for fd in extra[:3]:
            try:
                what.append(os.readlink(f"/proc/self/fd/{fd}"))
            except OSError:
                what.append("?")
        acc.add(10**12 + 10**6 + shard, ("descriptors-after-shard", shard),
                (1, "!", None, [Viol("file-descriptors-left-open", f"after the cases of this shard (and a garbage collection) the process holds {len(fds1)} file "
                                                                   f"descriptors, {len(fds0)} before: {len(extra)} left open by calls that have returned, e.g. {what} "
                                                                   f"- a long-running caller runs out of descriptors and every later read or write fails")]), seed)
    # determinism self-test: the same case must give the same observation twice
    for idx, case, res in (redo[:3] if acc.aborted else redo):
        if res[1] == "non-termination":
            continue
        res2 = _safe_check(part, case)
        if (res[1], [v["kind"] for v in res[3]]) != (res2[1], [v["kind"] for v in res2[3]]):
            acc.nondet.append((idx, repr(case)[:300]))
    return pi, acc.pack()


def _work_bfs(args):
    pi, states, seed, base, depth = args
    part = _PARTS[pi]
    acc = _Acc()
    succs = []  # (succ_state, parent_index, op)
    for k, st in enumerate(states):
        for op in part.ops(st):
            case = (st, op)
            try:
                succ, n, outcome, nontriv, viols = _guarded(part.step, st, op)
            except CaseTimeout:
                succ, n, outcome, nontriv = None, 1, "non-termination", None
                viols = [Viol("non-termination", f"this transition did not finish within {CASE_CPU_LIMIT:g} s of CPU time: a call into the library does not return")]
            except Exception as e:
                succ, n, outcome, nontriv = None, 1, "harness-exception", None
                viols = [Viol("harness-exception:" + type(e).__name__, traceback.format_exc(limit=6))]
            acc.add(depth * 10**9 + base + k, case, (n, outcome, nontriv, viols), seed)
            if outcome == "non-termination":
                acc.aborted = True
                break
            if succ is not None and not viols:
                succs.append((succ, base + k, op))
        if acc.aborted:
            break
    # de-duplicate locally to cut transfer volume
    local = {}
    for succ, k, op in succs:
        if succ not in local:
            local[succ] = (k, op)
    return pi, acc.pack(), [(s, k, op) for s, (k, op) in local.items()]


def _merge(total, part):
    total["evals"] += part["evals"]
    total["trans"] += part["trans"]
    total["outcomes"].update(part["outcomes"])
    if not total["nontriv_capped"]:
        total["nontriv"] |= part["nontriv"]
        if part["nontriv_capped"] or len(total["nontriv"]) > TRACK_CAP:
            total["nontriv_capped"] = True
    total["viols"].extend(part["viols"])
    total["nviol"] += part["nviol"]
    total["digest"] = (total["digest"] + part["digest"]) & (2**64 - 1)
    total["samples"].extend(part["samples"])
    total["nondet"].extend(part["nondet"])
    if part.get("aborted"):
        total["aborted"] = True


def _empty_total():
    return dict(evals=0, trans=0, outcomes=collections.Counter(), nontriv=set(), nontriv_capped=False,
                viols=[], nviol=0, digest=0, samples=[], nondet=[], states=0, pruned=0,
                depth_completed=None, exhaustive=True, notes=[])


def run_parts(parts, seed=0, serial=False, log=None):
    """Explore every part completely; returns {part.name: totals}."""
    global _PARTS
    _PARTS = list(parts)
    log = log or (lambda *a: None)
    results = {}
    global _LIBSTATE0
    _LIBSTATE0 = library_state()
    pool = None
    if not serial and NPROC > 1:
        ctx = multiprocessing.get_context("fork")
        pool = ctx.Pool(NPROC, initializer=_quiet)
    try:
        for pi, part in enumerate(_PARTS):
            t0 = time.time()
            tot = _empty_total()
            if part.kind == "inputs":
                nshards = NPROC if pool else 1
                jobs = [(pi, s, nshards, seed) for s in range(nshards)]
                it = pool.imap_unordered(_work_inputs, jobs) if pool else map(_work_inputs, jobs)
                for _, packed in it:
                    _merge(tot, packed)
                tot["states"] = tot["evals"]
                tot["exhaustive"] = bool(part.exhaustive) and not tot.get("aborted") and INPUT_STRIDE <= 1
                if tot.get("aborted"):
                    tot["notes"].append("at least one shard stopped after reporting %d violations; its remaining cases were not evaluated" % MAX_VIOLS_PER_WORKER)
            else:
                _run_bfs(pi, part, tot, pool, seed, log)
            tot["wall_s"] = time.time() - t0
            results[part.name] = tot
            if os.environ.get("VERIF_FAIL_FAST") and any(v.get("sig") is None for _, _, v in tot["viols"]):
                # detection runs (tools/mutant.sh, seed evaluation): the verdict is already "violation"; the remaining parts are skipped and the
                # evidence of such a run says so (registered commands never set this variable)
                log(f"  VERIF_FAIL_FAST: stopping after part {part.name}")
                for rest in _PARTS[pi + 1:]:
                    r = _empty_total()
                    r["exhaustive"] = False
                    r["notes"].append("skipped: VERIF_FAIL_FAST and an earlier part already reported a violation")
                    r["wall_s"] = 0.0
                    results[rest.name] = r
                break
            log(f"  part {part.name}: cases={tot['evals']} states={tot['states']} "
                f"transitions={tot['trans']} outcomes={len(tot['outcomes'])} "
                f"violations={tot['nviol']} {tot['wall_s']:.1f}s")
    finally:
        if pool:
            pool.close()
            pool.join()
    return results


def _run_bfs(pi, part, tot, pool, seed, log):
    seeds = list(part.seeds())
    seen = {}
    for s in seeds:
        if s not in seen:
            seen[s] = (None, None)  # parent state, op
    frontier = list(seen)
    depth = 0
    tot["depth_completed"] = 0
    while frontier:
        if BFS_DEPTH_CAP and depth >= BFS_DEPTH_CAP:
            tot["exhaustive"] = False
            tot["notes"].append(f"stopped at VERIF_BFS_DEPTH_CAP={BFS_DEPTH_CAP}")
            break
        if part.max_depth is not None and depth >= part.max_depth:
            tot["notes"].append(f"stopped at declared depth bound {part.max_depth} with "
                                f"{len(frontier)} unexpanded frontier states")
            break
        expand = []
        for st in frontier:
            if part.prune and part.prune(st):
                tot["pruned"] += 1
            else:
                expand.append(st)
        nchunks = max(1, min(len(expand), NPROC * 4)) if pool else 1
        size = (len(expand) + nchunks - 1) // nchunks if expand else 1
        jobs = []
        for c in range(0, len(expand), size):
            jobs.append((pi, expand[c:c + size], seed, c, depth))
        it = pool.imap_unordered(_work_bfs, jobs) if pool else map(_work_bfs, jobs)
        nxt = []
        allsucc = []
        for _, packed, succs in it:
            _merge(tot, packed)
            allsucc.extend(succs)
        # deterministic merge irrespective of worker completion order
        allsucc.sort(key=lambda x: (repr(x[0]), x[1]))
        for succ, idx, op in allsucc:
            if succ not in seen:
                seen[succ] = (expand[idx], op)
                nxt.append(succ)
        depth += 1
        tot["depth_completed"] = depth
        log(f"    bfs {part.name}: depth {depth} states={len(seen)} new={len(nxt)} "
            f"transitions={tot['trans']} pruned={tot['pruned']}")
        frontier = nxt
        if tot.get("aborted"):
            tot["exhaustive"] = False
            tot["notes"].append(f"a transition ran into the CPU watchdog at depth {depth}; the exploration of this part stops here")
            break
        if part.state_cap and len(seen) > part.state_cap:
            tot["exhaustive"] = False
            tot["notes"].append(f"state cap {part.state_cap} hit at depth {depth}; "
                                f"{len(frontier)} frontier states not expanded")
            break
    else:
        tot["notes"].append(f"reachability fixed point reached at depth {depth}")
    tot["states"] = len(seen)
    # attach the operation history that reaches the state of each reported violation
    for i, (idx, case_repr, v) in enumerate(tot["viols"][:60]):
        try:
            st = parse_case(case_repr)[0]
            hist = []
            cur = st
            while cur in seen and seen[cur][0] is not None:
                par, op = seen[cur]
                hist.append(op)
                cur = par
            v["history"] = [repr(o) for o in reversed(hist)]
            v["seed_state"] = repr(cur)
        except Exception:
            pass


def parse_case(text):
    """a case from its repr (replay files).  Cases are literals, plus exact numbers (Fraction / Decimal) and infinities in a few parts"""
    try:
        return ast.literal_eval(text)
    except (ValueError, SyntaxError):
        from decimal import Decimal
        from fractions import Fraction
        return eval(text, {"__builtins__": {}}, {"Fraction": Fraction, "Decimal": Decimal, "inf": float("inf"), "nan": float("nan")})


@contextlib.contextmanager
def captured():
    buf = io.StringIO()
    with contextlib.redirect_stdout(buf):
        yield buf
