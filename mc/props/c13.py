"""C13 - copy-returning operations never mutate; failed mutations change nothing.

Receivers are the states reachable by BFS over the C05 tier menu and the C12 textgrid-mutator menu (so 'all
receivers reachable by histories' up to the bound).  On EVERY transition the receiver and every argument are
snapshotted before and after - on the success path and on the exception path; the returned object is then mutated
through its own mutators and the source must still be unchanged (catches shared entry lists).  Mutators are driven
with every failing argument choice (collision in error mode, name clash, span change under reportingMode='error',
absent entry / name, invalid option strings): the single-failure deviation at every position of every explored
history.  save: failing overrides / formats / modes / invalid textgrids onto a pre-existing destination file.
"""
import os

from mc import domains as D
from mc.engine import BfsPart, InputPart, Viol
from mc.props import tierops, c12, live
from mc.props.common import IT, PT, Textgrid, PE, call, canon, mk, snap_tg, scratch_dir, constants, wellformed

Interval = constants.Interval
Point = constants.Point

EXTRA = (
    ("q", "validate", "silence"), ("q", "validate", "warning"), ("q", "validate", "error"),
    ("q", "find"), ("q", "timestamps"), ("q", "nonentries"), ("q", "values"), ("q", "eq"), ("q", "iter"),
    ("bad", "crop-mode"), ("bad", "erase-mode"), ("bad", "space-mode"), ("bad", "shift-mode"),
    ("bad", "insert-mode"), ("bad", "insert-report"), ("bad", "insert-degenerate"), ("bad", "delete-absent"),
    ("bad", "crop-degenerate"), ("bad", "append-type"), ("bad", "shift-error-mode"), ("bad", "insert-error-collide"),
)


def _extra(t, op, others):
    isI = t.tierType == constants.INTERVAL_TIER
    k = op[1]
    if op[0] == "q":
        if k == "validate":
            return t.validate(op[2])
        if k == "find":
            return (t.find("a"), t.find("a", substrMatchFlag=True), t.find("a|n", usingRE=True))
        if k == "timestamps":
            ts = t.timestamps
            ts.append(-99.0)  # the returned list must be the caller's own
            return ts
        if k == "nonentries":
            return t.getNonEntries() if isI else None
        if k == "values":
            data = [(0.0, 1), (0.5, 2), (1.0, 3), (2.0, 4)]
            return t.getValuesInIntervals(data) if isI else t.getValuesAtPoints(data, True)
        if k == "eq":
            return (t == others[0], t == t.new(), len(t))
        if k == "iter":
            return [e for e in t]
    if k == "crop-mode":
        return t.crop(0.0, 1.0, "bogus", False)
    if k == "crop-degenerate":
        return t.crop(1.0, 1.0, "strict", False)
    if k == "erase-mode":
        return t.eraseRegion(0.5, 1.0, "bogus", True)
    if k == "space-mode":
        return t.insertSpace(0.5, 1.0, "bogus")
    if k == "shift-mode":
        return t.editTimestamps(1.0, "bogus")
    if k == "shift-error-mode":
        return t.editTimestamps(100.0, "error")
    if k == "insert-mode":
        return t.insertEntry(Interval(0.25, 0.75, "n") if isI else Point(0.25, "n"), "bogus", "silence")
    if k == "insert-report":
        return t.insertEntry(Interval(0.25, 0.75, "n") if isI else Point(0.25, "n"), "replace", "bogus")
    if k == "insert-degenerate":
        return t.insertEntry(Interval(2.0, 1.0, "n"), "replace", "silence") if isI else None
    if k == "insert-error-collide":
        if len(t.entries) == 0:
            return None
        e = t.entries[0]
        return t.insertEntry(Interval(e[0], e[1], "n") if isI else Point(e[0], "n"), "error", "silence")
    if k == "delete-absent":
        return t.deleteEntry(Interval(0.123, 0.456, "zz") if isI else Point(0.123, "zz"))
    if k == "append-type":
        other = PT("o", [], 0.0, 1.0) if isI else IT("o", [], 0.0, 1.0)
        return t.appendTier(other)
    raise ValueError(op)


def _mk_tier_step(others_states_by_kind):
    def step(state, op):
        others_states = others_states_by_kind[state[0]]
        t = mk(state)
        others = [mk(s) for s in others_states]
        before = canon(t)
        obefore = [canon(o) for o in others]
        extra = op[0] in ("q", "bad")
        st, r, out = call(_extra if extra else tierops.apply, t, op, others)
        after = canon(t)
        tag = f"{op} on {state}"
        viols = []
        if [canon(o) for o in others] != obefore:
            viols.append(Viol("argument-mutated", f"{tag}: an argument tier changed"))
        mut = (not extra and tierops.is_mutator(op)) or (extra and op[1].startswith(("insert", "delete")))
        if mut:
            if st == "exc" and after != before:
                viols.append(Viol("changed-on-failure", f"{tag} raised {r!r} but the tier changed to {after}"))
            succ = None
            if st == "ok" and not extra and wellformed(t) is None:
                succ = (after[0], "t") + after[2:]
            return succ, 1, op[0] + (":raised" if st == "exc" else ""), (op[:2], st, len(state[4])), viols
        if after != before:
            viols.append(Viol("receiver-mutated", f"{tag} ({st}): receiver changed from {before} to {after}"))
        succ = None
        if st == "ok" and not extra:
            if r is t:
                viols.append(Viol("returns-receiver", f"{tag} returned the receiver itself, not a copy"))
            else:
                # mutate the returned tier through its own mutators; sources must not change
                isI = r.tierType == constants.INTERVAL_TIER
                probe = Interval(-7.0, -6.0, "probe") if isI else Point(-7.0, "probe")
                p1 = call(r.insertEntry, probe, "merge", "silence")
                if len(r.entries) > 1:
                    call(r.deleteEntry, r.entries[-1])
                r.name = "renamed"
                if canon(t) != before:
                    viols.append(Viol("result-aliases-receiver", f"{tag}: mutating the returned tier changed the receiver to {canon(t)}"))
                if [canon(o) for o in others] != obefore:
                    viols.append(Viol("result-aliases-argument", f"{tag}: mutating the returned tier changed an argument"))
            if not viols:
                rr = mk(state)  # successor state from a clean second execution
                st2, r2, _ = call(tierops.apply, rr, op, [mk(s) for s in others_states])
                if st2 == "ok" and wellformed(r2) is None:
                    c = canon(r2)
                    succ = (c[0], "t") + c[2:]
                # the SAME call again on the same receiver (whose first result has been edited meanwhile): a second, independent copy with the
                # content a clean execution gives
                st3, r3, _ = call(tierops.apply, t, op, others)
                if st3 == "ok" and st2 == "ok":
                    if r3 is r:
                        viols.append(Viol("same-object-returned-twice", f"{tag}: calling it again returned the very object of the first call (which the caller had edited)"))
                    elif canon(r3) != canon(r2):
                        viols.append(Viol("second-call-differs", f"{tag}: called again after the first result had been edited: {canon(r3)}; a clean execution gives {canon(r2)}"))
        return succ, 1, op[0] + (":raised" if st == "exc" else ""), (op[:2], st), viols
    return step


def _tier_ops(V, durs, offs, maxdiff):
    def ops(state):
        yield from tierops.menu(state, V, durs, offs, maxdiff)
        yield from EXTRA
    return ops


# ------------------------------------------------------------------ textgrids
TG_EXTRA = []
for _m in ("strict", "lax", "truncated"):
    for _rb in (False, True):
        TG_EXTRA.append(("crop", 0.5, 1.5, _m, _rb))
TG_EXTRA += [("crop", 1.0, 1.0, "strict", False), ("crop", 0.0, 1.0, "bogus", False),
             ("erase", 0.5, 1.5, False), ("erase", 0.5, 1.5, True), ("erase", 1.0, 1.0, True)]
TG_EXTRA += [("space", 1.0, 1.0, m) for m in ("stretch", "split", "no_change", "error", "bogus")]
TG_EXTRA += [("shift", off, m) for off in (-1.0, 1.0, 5.0) for m in ("silence", "warning", "error", "bogus")]
TG_EXTRA += [("appendtg", f) for f in (True, False)]
TG_EXTRA += [("merge", sel, p) for sel in (None, "first2", "absent") for p in (True, False)]
TG_EXTRA += [("new",), ("validate", "silence"), ("validate", "error"), ("validate", "bogus"), ("eq",), ("getTier", "zz")]
TG_EXTRA += [("save", f, b) for f in ("short_textgrid", "long_textgrid", "json", "textgrid_json") for b in (True, False)]
TG_EXTRA += [("badadd", "bogus-mode"), ("badrep", "bogus-mode"), ("badadd", "bad-index-type"), ("badrep", "a-member-under-another-name"), ("badrep", "added-member-again")]
TG_EXTRA = tuple(TG_EXTRA)


def _tg_extra(tg, op, other):
    k = op[0]
    if k == "crop":
        return tg.crop(op[1], op[2], op[3], op[4])
    if k == "erase":
        return tg.eraseRegion(op[1], op[2], op[3])
    if k == "space":
        return tg.insertSpace(op[1], op[2], op[3])
    if k == "shift":
        return tg.editTimestamps(op[1], op[2])
    if k == "appendtg":
        return tg.appendTextgrid(other, op[1])
    if k == "merge":
        sel = None if op[1] is None else (list(tg.tierNames[:2]) if op[1] == "first2" else ["zz"])
        return tg.mergeTiers(sel, op[2])
    if k == "new":
        return tg.new()
    if k == "validate":
        return tg.validate(op[1])
    if k == "eq":
        return (tg == other, tg == tg.new(), len(tg), [t for t in tg])
    if k == "getTier":
        return tg.getTier(op[1])
    if k == "save":
        fn = os.path.join(scratch_dir(), "c13.TextGrid")
        tg.save(fn, op[1], op[2], reportingMode="silence")
        return None
    if k == "badadd":
        if op[1] == "bogus-mode":
            return tg.addTier(c12.slot_tier(0, "c"), None, "bogus")
        return tg.addTier(c12.slot_tier(0, "c"), "x")
    if k == "badrep":
        if not tg.tierNames:
            return None
        if op[1] == "a-member-under-another-name":      # the new tier is an OBJECT the textgrid already holds under another name: refused (name clash), nothing lost
            if len(tg.tierNames) < 2:
                return None
            return tg.replaceTier(tg.tierNames[0], tg.getTier(tg.tierNames[-1]))
        if op[1] == "added-member-again":
            return tg.addTier(tg.getTier(tg.tierNames[-1]))
        return tg.replaceTier(tg.tierNames[0], c12.slot_tier(0, tg.tierNames[0]), "bogus")
    raise ValueError(op)


def _tg_ops(maxtiers, nslots):
    base = c12._ops(maxtiers, nslots)

    def ops(m):
        yield from base(m)
        yield from TG_EXTRA
    return ops


def _tg_step(m, op):
    if op[0] in ("add", "rm", "ren", "rep"):
        return c12._step(m, op)  # includes unchanged-on-failure for every failing argument choice
    tg = c12.build(m)
    other = c12.build(((("a", 0), ("q", 1)), 0.0, 2.0))
    before, obefore = snap_tg(tg), snap_tg(other)
    tier_ids = [id(t) for t in tg.tiers]
    held = list(tg.tiers)
    st, r, out = call(_tg_extra, tg, op, other)
    after = snap_tg(tg)
    tag = f"{op} on textgrid names={before[0]} span=({before[1]},{before[2]})"
    viols = []
    if op[0] in ("badadd", "badrep"):
        if st == "exc" and after != before:
            viols.append(Viol("changed-on-failure", f"{tag} raised {r!r} but the textgrid changed to names={after[0]} span=({after[1]},{after[2]})"))
        elif st == "exc" and (len(tg.tiers) != len(held) or any(a is not b for a, b in zip(tg.tiers, held))):
            viols.append(Viol("tier-objects-exchanged-on-failure", f"{tag} raised {r!r}; the textgrid now holds equal-valued but different tier objects"))
        return None, 1, op[0], (op, st), viols
    if after != before:
        viols.append(Viol("receiver-mutated", f"{tag} ({st}): textgrid changed: {before} -> {after}"))
    if snap_tg(other) != obefore:
        viols.append(Viol("argument-mutated", f"{tag}: the argument textgrid changed"))
    if st == "ok" and op[0] in ("new", "crop", "erase", "space") and not viols:
        if r is tg:
            viols.append(Viol("returns-receiver", f"{tag} returned the receiver"))
        else:
            for t in r.tiers:
                if id(t) in tier_ids:
                    viols.append(Viol("result-shares-tier-object", f"{tag}: returned textgrid holds the receiver's tier object {t.name!r}"))
                    break
                isI = t.tierType == constants.INTERVAL_TIER
                call(t.insertEntry, Interval(-7.0, -6.0, "probe") if isI else Point(-7.0, "probe"), "merge", "silence")
            for nm in list(r.tierNames):
                call(r.removeTier, nm)
            if snap_tg(tg) != before:
                viols.append(Viol("result-aliases-receiver", f"{tag}: mutating the returned textgrid changed the receiver"))
    if st == "ok" and op[0] in ("shift", "appendtg", "merge") and not viols and isinstance(r, Textgrid) and r is not tg:
        # these results may share tier OBJECTS with their sources; textgrid-level mutators on the result must still
        # leave the sources alone (they work on the textgrid, never on a tier object in place)
        for nm in list(r.tierNames):
            call(r.renameTier, nm, nm + "_r")
        for nm in list(r.tierNames)[:1]:
            call(r.removeTier, nm)
        if snap_tg(tg) != before or snap_tg(other) != obefore:
            viols.append(Viol("mutating-the-result-changed-a-source", f"{tag}: renameTier/removeTier on the returned textgrid changed "
                                                                      f"{'the receiver' if snap_tg(tg) != before else 'the argument'}: {snap_tg(tg)[:1]} / {snap_tg(other)[:1]}"))
    return None, 1, op[0] + (":raised" if st == "exc" else ""), (op[0], st, len(m[0])), viols


def _rebuild_tg(snap):
    names, lo, hi, tiers = snap
    tg = Textgrid(lo, hi)
    for c in tiers:
        tg.addTier(mk(c), reportingMode="silence")
    tg.minTimestamp, tg.maxTimestamp = lo, hi
    return tg


def _check_tg_history(case):
    """op1 (a mutator, possibly failing) and a priming query on ONE live textgrid; afterwards the live textgrid and one
    rebuilt from its observable state must answer every copy-returning operation / query identically."""
    m0, op1, prime = case
    tg = c12.build(m0)
    other = c12.build(((("a", 0), ("q", 1)), 0.0, 2.0))
    if prime is not None:
        call(_tg_extra, tg, prime, other)
    call(c12._apply, tg, op1)
    snap = snap_tg(tg)
    try:
        fresh = _rebuild_tg(snap)
    except Exception:
        return 2, "unconstructible", None, []
    viols = []
    n = 2
    for op in TG_EXTRA:
        if op[0] in ("save", "badadd", "badrep"):
            continue
        n += 2
        a = call(_tg_extra, tg, op, other)
        b = call(_tg_extra, fresh, op, c12.build(((("a", 0), ("q", 1)), 0.0, 2.0)))

        def norm(x):
            st, r, out = x
            if st == "exc":
                return ("raised", type(r).__name__)
            if isinstance(r, Textgrid):
                return ("tg", snap_tg(r))
            if hasattr(r, "entries"):
                return ("tier", canon(r))
            return ("val", repr(r) if not isinstance(r, tuple) else repr(r[:3]))
        if norm(a) != norm(b):
            viols.append(Viol("tg-history-dependent", f"after {prime} and {op1} on one live textgrid built from {m0}: {op} gives {norm(a)} but a textgrid "
                                                      f"rebuilt from the same observable state gives {norm(b)}"))
            break
        if snap_tg(tg) != snap:
            viols.append(Viol("receiver-mutated", f"{op} changed the live textgrid"))
            break
    return n, "ok", (op1[0], prime[0] if prime else None, len(m0[0])), viols


def _check_failed_after_growth(case):
    """a tier the caller still holds is edited in place after addTier (it outgrows the textgrid's span; the textgrid is then inconsistent,
    which validate() reports) - a mutator that FAILS afterwards must still leave names, order, tiers and span exactly as they were"""
    m0, gi, op = case
    tg = c12.build(m0)
    t = tg.tiers[gi]
    hi = tg.maxTimestamp
    if t.tierType == constants.INTERVAL_TIER:
        call(t.insertEntry, Interval(hi + 1.0, hi + 2.0, "grown"), "error", "silence")
    else:
        call(t.insertEntry, Point(hi + 1.5, "grown"), "error", "silence")
    before = snap_tg(tg)
    st, r, _ = call(c12._apply, tg, op) if op[0] in ("add", "rm", "ren", "rep") else call(_tg_extra, tg, op, c12.build(((("a", 0),), 0.0, 2.0)))
    after = snap_tg(tg)
    viols = []
    if st == "exc" and after != before:
        viols.append(Viol("changed-on-failure", f"{op} on names={before[0]} span=({before[1]},{before[2]}) after tier {gi} had grown in place to "
                                                f"({t.minTimestamp},{t.maxTimestamp}): raised {r!r} but the textgrid is now names={after[0]} span=({after[1]},{after[2]})"))
    return 1, op[0] + ":" + st, (len(m0[0]), gi, op[0], st), viols


def _failed_after_growth_cases():
    for m0 in (((("a", 0),), 0.0, 2.0), ((("a", 0), ("b", 1)), 0.0, 2.0), ((("b", 1), ("a", 2), ("c", 3)), 0.0, 3.0)):
        names = [nm for nm, _ in m0[0]]
        for gi in range(len(names)):
            for nm in names + ["zz"]:
                for other in names + ["new"]:
                    yield (m0, gi, ("ren", nm, other))
                    for sl in (0, 2, 5):
                        for mode in ("silence", "error"):
                            yield (m0, gi, ("rep", nm, other, sl, mode))
                for sl in (0, 5):
                    yield (m0, gi, ("add", nm, sl, 0, "error"))
            yield (m0, gi, ("badadd", "bogus-mode"))
            yield (m0, gi, ("badrep", "bogus-mode"))
            yield (m0, gi, ("badadd", "bad-index-type"))


# ------------------------------------------------------------------ failing saves onto an existing file
SAVE_TGS = (
    (("I", "a", ((0.0, 1.0, "x"), (1.5, 2.0, "y")), 0.0, 2.0), ("P", "p", ((0.5, "p"),), 0.0, 2.0)),
    (("I", "a", ((0.5, 1.0, 'q"q'),), 0.0, 2.0),),
    (("P", "p", ((0.5, "p"), (2.0, "r")), 0.0, 2.0),),
    (("I", "a", ((0.0, 1e-9, "s"), (1e-9, 2.0, "y")), 0.0, 2.0), ("I", "b", (), 0.0, 2.0)),
)
FORMATS = ("short_textgrid", "long_textgrid", "json", "textgrid_json")
FAILS = (
    ("min-above", dict(minTimestamp=0.75)), ("max-below", dict(maxTimestamp=0.25)), ("both-inside", dict(minTimestamp=0.75, maxTimestamp=0.9)),
    ("bad-format", dict(format="bogus")), ("bad-mode", dict(reportingMode="bogus")),
    ("invalid-tg-error-mode", dict(reportingMode="error", _invalid=True)),
    ("ok", dict()), ("ok-overrides", dict(minTimestamp=-1.0, maxTimestamp=3.0)), ("ok-minlen", dict(minimumIntervalLength=0.5)),
    ("ok-invalid-silence", dict(reportingMode="silence", _invalid=True)),
    # the environment refuses the write: the process has no file descriptor left when save() opens the destination (EMFILE)
    ("no-descriptor-left", dict(_nofds=True)),
)


def _check_save(case):
    ti, fmt, blanks, fi = case
    name, kw = FAILS[fi]
    kw = dict(kw)
    tg = Textgrid(0.0, 2.0)
    for kind, nm, entries, lo, hi in SAVE_TGS[ti]:
        tg.addTier((IT if kind == "I" else PT)(nm, list(entries), lo, hi))
    if kw.pop("_invalid", False):
        tg.addTier(IT("wide", [(0.0, 3.0, "w")], 0.0, 3.0), reportingMode="silence")
        tg.maxTimestamp = 2.0  # a tier that disagrees with the textgrid span: validate() is False
    fn = os.path.join(scratch_dir(), "c13-dest.TextGrid")
    original = b"ORIGINAL CONTENT \xe2\x9c\x93\n"
    with open(fn, "wb") as fd:
        fd.write(original)
    before = snap_tg(tg)
    args = dict(format=fmt, includeBlankSpaces=blanks)
    nofds = kw.pop("_nofds", False)
    args.update(kw)
    if nofds:
        import resource
        soft, hard = resource.getrlimit(resource.RLIMIT_NOFILE)
        resource.setrlimit(resource.RLIMIT_NOFILE, (min(256, soft), hard))
        held = []
        try:
            try:
                while True:
                    held.append(os.open(os.devnull, os.O_RDONLY))
            except OSError:
                pass
            st, r, out = call(tg.save, fn, **args)
        finally:
            for fd_ in held:
                os.close(fd_)
            resource.setrlimit(resource.RLIMIT_NOFILE, (soft, hard))
    else:
        st, r, out = call(tg.save, fn, **args)
    if os.path.exists(fn):
        with open(fn, "rb") as fd:
            now = fd.read()
    else:
        now = b"<the file no longer exists>"
    viols = []
    tag = f"save(format={args['format']!r}, includeBlankSpaces={blanks}, {kw}) [{name}] on {SAVE_TGS[ti]}"
    if snap_tg(tg) != before:
        viols.append(Viol("save-mutated-textgrid", f"{tag} ({st}) changed the textgrid: {before} -> {snap_tg(tg)}"))
    expect_fail = not name.startswith("ok")
    if name in ("min-above", "max-below", "both-inside") and not blanks:
        expect_fail = None  # without blank filling the override only sets the header; either outcome is allowed here (C04)
    if name in ("min-above", "max-below", "both-inside") and all(k[0] == "P" for k in SAVE_TGS[ti]):
        expect_fail = None  # point tiers are not range-checked by blank filling
    if name == "ok-invalid-silence":
        expect_fail = None  # an inconsistent textgrid may or may not be writable; only atomicity is checked
    if st == "exc":
        if now != original:
            viols.append(Viol("failed-save-touched-file", f"{tag} raised {r!r} but the destination file changed to {now[:60]!r}"))
        if expect_fail is False:
            viols.append(Viol("save-raised:" + type(r).__name__, f"{tag} raised {r!r}"))
    else:
        if expect_fail is True:
            viols.append(Viol("failing-save-succeeded", f"{tag} did not raise"))
        if now == original:
            viols.append(Viol("save-wrote-nothing", f"{tag} returned but the file is unchanged"))
    return 1, name + ":" + st, (ti, fmt, blanks, name), viols


ARG_CALLS = ("getValuesAtPoints-exact", "getValuesAtPoints-fuzzy", "getValuesInIntervals", "mergeTiers-name-list", "IntervalTier-entry-list",
             "PointTier-entry-list", "new-entry-list", "insertEntry-entry-as-list")


def _check_plain_arguments(case):
    """the caller-owned arguments that are NOT tiers - lists of data rows, of names, of entries - are read, never rewritten: after the call the
    list holds the same objects in the same order ("leaves the receiver and every argument observably unchanged")"""
    which, order = case
    rows = [(3.5, 30), (1.0, 10), (4.0, 40), (2.0, 20), (0.5, 5), (3.0, 33)]
    if order == "sorted":
        rows = sorted(rows)
    pt = PT("p", [(1.0, "a"), (2.0, "b"), (3.25, "c")], 0.0, 5.0)
    it = IT("t", [(0.0, 1.5, "a"), (2.0, 3.0, "b")], 0.0, 5.0)
    if which.startswith("getValuesAtPoints"):
        arg = list(rows)
        f = lambda: pt.getValuesAtPoints(arg, which.endswith("fuzzy"))
    elif which == "getValuesInIntervals":
        arg = list(rows)
        f = lambda: it.getValuesInIntervals(arg)
    elif which == "mergeTiers-name-list":
        tg = Textgrid(0.0, 5.0)
        for nm in ("z", "b", "a"):
            tg.addTier(it.new(nm))
        arg = ["z", "a"] if order == "sorted" else ["a", "z"]
        f = lambda: tg.mergeTiers(arg, True)
    elif which == "IntervalTier-entry-list":
        arg = [(2.0, 3.0, " b "), (0.0, 1.5, "a")] if order != "sorted" else [(0.0, 1.5, "a"), (2.0, 3.0, " b ")]
        f = lambda: IT("n", arg, 0.0, 5.0)
    elif which == "PointTier-entry-list":
        arg = [(2.0, " b "), (1, "a")] if order != "sorted" else [(1, "a"), (2.0, " b ")]
        f = lambda: PT("n", arg, 0.0, 5.0)
    elif which == "new-entry-list":
        arg = [(2.0, 3.0, "b"), (0.0, 1.5, "a")] if order != "sorted" else [(0.0, 1.5, "a"), (2.0, 3.0, "b")]
        f = lambda: it.new(entries=arg)
    else:
        arg = [3.5, 4.0, " n "]
        f = lambda: it.insertEntry(arg, "error", "silence")
    before = list(arg)
    st, r, _ = call(f)
    if st == "exc":
        return 1, "X", None, [Viol("call-raised:" + type(r).__name__, f"{which} ({order}): {r!r}")]
    if len(arg) != len(before) or any(x is not y for x, y in zip(arg, before)):
        return 1, "!", None, [Viol("argument-rewritten", f"{which}: the list handed in was {before}, after the call it is {arg}")]
    return 1, "ok", (which, order), []


def parts(tier):
    quick = tier == "quick"
    depth = 2 if quick else 3
    V = (0.0, 0.5, 1.0, 2.0, 3.0)
    seeds = [("I", "t", 0.0, 3.0, ((0.0, 1.0, "a"), (1.0, 2.0, "b"))), ("I", "t", 0.0, 3.0, ((0.5, 2.0, "a"),)),
             ("I", "t", 0.0, 3.0, ()), ("P", "t", 0.0, 3.0, ((0.0, "a"), (2.0, "b"))), ("P", "t", 0.0, 3.0, ())]
    prune = lambda s: s[3] > 8 or any(len(e[-1]) > 9 for e in s[4])
    ps = [
        BfsPart("tier-operations", lambda: seeds, _tier_ops(V, (0.5, 1.0), (-1.0, -0.5, 0.5, 2.0), 0.5),
                _mk_tier_step({"I": tierops.OTHERS_I, "P": tierops.OTHERS_P}),
                rule="BFS over the C05 menu from 5 seed tiers; on every transition snapshot(receiver, arguments) before/after on "
                     "success and exception paths, identity and aliasing probe of the returned tier, plus %d query / invalid-option / "
                     "failing-mutator calls per state; non-trivial = distinct (operation, outcome)" % len(EXTRA),
                bounds={"depth": depth, "span_cap": 8}, max_depth=depth, prune=prune,
                snippet=lambda c: tierops.snippet(c[0], c[1], tierops.OTHERS_I if c[0][0] == "I" else tierops.OTHERS_P)
                if c[1][0] not in ("q", "bad") else None),
        BfsPart("textgrid-operations", lambda: [((), None, None)], _tg_ops(3, 5), _tg_step,
                rule="BFS over the C12 mutator menu (every failing argument choice: name clash, absent name, span change under "
                     "'error') to the fixed point with <=3 tiers, plus %d copy-returning / query / save / invalid-option calls in "
                     "every reachable textgrid, snapshot before/after" % len(TG_EXTRA),
                bounds={"max_tiers": 3, "depth": "fixed point" if not quick else 4}, max_depth=None if not quick else 4),
    ]

    # the size axis: the whole menu (and the query / invalid-option / failing-mutator calls) once from long tiers
    size_seeds = [("I", "t", 0.0, e[-1][1] + 1.0, e) for n, layout, e in D.size_family(quick)] + \
                 [("P", "t", 0.0, n + 1.0, D.long_points(n)) for n in (D.SIZES_QUICK if quick else D.SIZES_THOROUGH)]

    def size_ops(state):
        e = state[4]
        cuts = D.size_cuts(e)
        k = len(cuts)
        Vs = tuple(sorted(set(c for c in (cuts[1], cuts[2], cuts[3], cuts[k // 2], cuts[k // 2 + 1], cuts[k // 2 + 2], cuts[-3], cuts[-2], cuts[-1]) if c >= 0)))
        yield from tierops.menu(state, Vs, (0.5,), (-1.0, 0.5), 0.5)
        yield from EXTRA

    ps.append(BfsPart("tier-operations-size-sweep", lambda: size_seeds, size_ops, _mk_tier_step({"I": tierops.OTHERS_I, "P": tierops.OTHERS_P}),
                      rule="one step of the same menu from interval tiers (gapped, contiguous) and point tiers of %s entries, arguments at / in / between "
                           "the entries at the start, the middle and the end (an inserted entry may collide with dozens of entries at once): copies do not "
                           "mutate, failed mutations change nothing" % (list(D.SIZES_QUICK if quick else D.SIZES_THOROUGH),),
                      bounds={"depth": 1}, max_depth=1))

    ps.append(InputPart("failed-mutators-after-in-place-growth", _failed_after_growth_cases, _check_failed_after_growth,
                        rule="3 textgrids x each tier grown in place beyond the textgrid's span (insertEntry on the tier object) x every renameTier / replaceTier "
                             "(name clashes, absent names, span changes under 'error') / addTier / invalid-option call: a call that raises leaves names, order, "
                             "tiers and span as they were", bounds={}))

    def tiny_ops(m):
        for nm in c12.NAMES:
            yield ("rm", nm)
        for a in c12.NAMES:
            for b in c12.NAMES:
                yield ("ren", a, b)
        for a in c12.NAMES[:2]:
            for sl in c12.TINY + (0,):
                for mode in ("silence", "error"):
                    yield ("rep", a, a, sl, mode)
        yield from TG_EXTRA

    tiny_seeds = [((("a", 12),), 0.1, 1.3), ((("b", 7), ("a", 12)), 0.1, 1.3), ((("a", 13),), D.BIG[0], D.BIG[-1]), ((("a", 13), ("b", 9)), D.BIG[0], D.BIG[-1])]
    ps.append(BfsPart("textgrid-operations-tiny-intervals", lambda: tiny_seeds, tiny_ops, _tg_step,
                      rule="every mutator (removeTier, renameTier over all name pairs, replaceTier) and the %d copy / query / save / invalid-option calls on "
                           "textgrids that hold a tier with a legitimate interval of tiny RELATIVE duration (0.3 .. 0.1+0.2; 7.8 ms at 2**40), assembled "
                           "with insertEntry: a call either succeeds like the list model or fails leaving everything as it was" % len(TG_EXTRA),
                      bounds={"depth": 1}, max_depth=1))

    hseeds = [("I", "t", 0.0, 4.0, D.labelled(x)) for x in D.interval_sets(D.unit_grid(5), 2)] + \
             [("P", "t", 0.0, 4.0, D.labelled_points(x)) for x in D.point_sets(D.unit_grid(5), 2)]
    hothers = {"I": tierops.OTHERS_I, "P": tierops.OTHERS_P}
    hvals = (0.0, 0.5, 1.0, 2.0, 3.0, 4.5)
    ps.append(InputPart(
        "tier-history-independence", lambda: live.tier_history_cases(hseeds, hothers, hvals),
        lambda c: live.check_tier_history(c, hothers, hvals),
        rule="every (query/copy operation, in-place mutation) sequence on ONE live tier, for all tiers of <=2 entries: afterwards the "
             "live tier and a fresh tier rebuilt from its observable fields must agree under a battery of ~20 observations as "
             "receiver and as argument (a query that leaves stale hidden state has changed the receiver)",
        bounds={"seed_tiers": len(hseeds)}, chunk=16))

    tg_seeds = (((), None, None), ((("a", 0),), 0.0, 2.0), ((("b", 1), ("a", 2)), 0.0, 3.0), ((("a", 0), ("b", 3), ("d", 4)), 0.0, 2.0))
    primes = (None, ("crop", 0.5, 1.5, "truncated", False), ("validate", "silence"), ("merge", None, True), ("new",), ("eq",))
    ps.append(InputPart(
        "textgrid-history-independence",
        lambda: ((m0, op1, pr) for m0 in tg_seeds for op1 in c12._ops(4, 5)(m0) for pr in (primes if op1[0] != "add" or op1[3] is None else primes[:2])),
        _check_tg_history,
        rule="(priming query, mutator) sequences on ONE live textgrid from 4 seed textgrids; afterwards every copy-returning operation and "
             "query must give the same result as on a textgrid rebuilt from the observable state", bounds={}, chunk=8))

    def gen_save():
        for ti in range(len(SAVE_TGS)):
            for fmt in FORMATS:
                for blanks in (True, False):
                    for fi in range(len(FAILS)):
                        yield (ti, fmt, blanks, fi)

    ps.append(InputPart("plain-arguments-unchanged", lambda: ((w, o) for w in ARG_CALLS for o in ("shuffled", "sorted")), _check_plain_arguments,
                        rule="%d calls that take a caller-owned list which is not a tier (data rows, tier names, entry lists) x the list in and out of order: "
                             "after the call the list holds the same objects in the same order" % len(ARG_CALLS), bounds={}))
    ps.append(InputPart("save-onto-existing-file", gen_save, _check_save,
                        rule="%d textgrids x 4 formats x includeBlankSpaces x %d argument choices (failing overrides, invalid format / "
                             "mode, invalid textgrid under reportingMode='error', and succeeding controls) saved onto a pre-existing "
                             "file: bytes compared before/after a raising save; textgrid snapshot unchanged in all cases"
                             % (len(SAVE_TGS), len(FAILS)), bounds={}))
    return ps
