"""C03 - the reader returns exactly what a spec-conformant TextGrid file encodes.

Enumerated: tier data (structure layer, label layer, number notations incl. '-0' starts and exponents, empty tiers,
blank-labelled intervals, duplicate names, keyword layer) rendered by the INDEPENDENT writer of mc/models/praatfmt.py in
layouts {long, elan-long, short, json, textgrid_json} x encodings {utf-8, utf-8-sig, utf-16-le+BOM, utf-16-be+BOM} x
newlines {LF, CRLF}, opened with textgrid.openTextgrid from real files x includeEmptyIntervals x duplicateNamesMode.
Environment deviations (encoding, newline) are enumerated default-first, then single deviations, then pairs - here that
is simply the full 4 x 2 product for every data case.
"""
import itertools
import os

from mc import domains as D
from mc.props import c01 as _c01
from mc.engine import InputPart, Viol
from mc.models import praatfmt
from mc.props.common import call, scratch_dir, wellformed, errors
from praatio import textgrid as _tgmod

LAYOUTS = ("long", "elan", "short", "textgrid_json", "json")
ENCODINGS = ("utf-8", "utf-8-sig", "utf-16-le", "utf-16-be")
NEWLINES = ("\n", "\r\n", "\r")      # (the last: lone CR line ends - classic Mac OS text files, which Praat reads)


def render(data, layout, notation, negzero):
    if layout == "long":
        return praatfmt.encode_long(data, "praat", notation, negzero)
    if layout == "elan":
        return praatfmt.encode_long(data, "elan", notation, negzero)
    if layout == "short":
        return praatfmt.encode_short(data, notation, negzero)
    return praatfmt.encode_json(data, layout)


def to_bytes(text, enc, nl):
    if nl != "\n":
        text = text.replace("\n", nl)
    if enc == "utf-8":
        return text.encode("utf-8")
    if enc == "utf-8-sig":
        return b"\xef\xbb\xbf" + text.encode("utf-8")
    if enc == "utf-16-le":
        return b"\xff\xfe" + text.encode("utf-16-le")
    return b"\xfe\xff" + text.encode("utf-16-be")


def mkdata(lo, hi, tiers):
    return {"xmin": lo, "xmax": hi,
            "tiers": [{"class": "IntervalTier" if k == "I" else "TextTier", "name": nm, "xmin": a, "xmax": b,
                       "entries": [tuple(e) for e in ents]} for k, nm, a, b, ents in tiers]}


def observe(tg):
    return (tg.minTimestamp, tg.maxTimestamp,
            [(t.tierType, t.name, t.minTimestamp, t.maxTimestamp, [tuple(e) for e in t.entries]) for t in tg.tiers])


def expect(data, incl, layout):
    out = []
    for t in data["tiers"]:
        ents = [tuple(float(v) + 0.0 for v in e[:-1]) + (e[-1],) for e in t["entries"] if incl or e[-1] != ""]
        tlo, thi = (data["xmin"], data["xmax"]) if layout == "json" else (t["xmin"], t["xmax"])
        out.append((t["class"], t["name"], float(tlo), float(thi), ents))
    return (float(data["xmin"]), float(data["xmax"]), out)


def same(obs, exp):
    """exact comparison; -0 reads as 0 (== on floats)"""
    if obs[0] != exp[0] or obs[1] != exp[1]:
        return f"file span ({obs[0]!r},{obs[1]!r}) != ({exp[0]!r},{exp[1]!r})"
    if len(obs[2]) != len(exp[2]):
        return f"{len(obs[2])} tiers, file encodes {len(exp[2])}"
    for o, x in zip(obs[2], exp[2]):
        if o[0] != x[0] or o[1] != x[1]:
            return f"tier ({o[0]},{o[1]!r}) != ({x[0]},{x[1]!r})"
        if o[2] != x[2] or o[3] != x[3]:
            return f"tier {x[1]!r}: span ({o[2]!r},{o[3]!r}) != ({x[2]!r},{x[3]!r})"
        if len(o[4]) != len(x[4]):
            return f"tier {x[1]!r}: {len(o[4])} entries, file encodes {len(x[4])}: {o[4]!r} vs {x[4]!r}"
        for a, b in zip(o[4], x[4]):
            if a[-1] != b[-1]:
                return f"tier {x[1]!r}: label {a[-1]!r} != {b[-1]!r}"
            if tuple(a[:-1]) != tuple(b[:-1]):
                return f"tier {x[1]!r}: times {a[:-1]!r} != {b[:-1]!r}"
            if any(not isinstance(v, float) for v in a[:-1]):
                return f"tier {x[1]!r}: time {a[:-1]!r} is not a float"
    return None


def check(case):
    tag, meta, (lo, hi, tiers), notation, negzero = case
    data = mkdata(lo, hi, tiers)
    fn = os.path.join(scratch_dir(), "c03.TextGrid")
    viols = []
    n = 0
    oc = []
    names = [t["name"] for t in data["tiers"]]
    dup = len(set(names)) != len(names)
    for layout in LAYOUTS:
        if layout == "json" and (dup or any((t["xmin"], t["xmax"]) != (lo, hi) for t in data["tiers"])):
            continue  # the plain json schema cannot encode duplicate names or per-tier spans
        if layout in ("json", "textgrid_json") and (notation != "repr" or negzero):
            continue
        text = render(data, layout, notation, negzero)
        opened = {}
        for enc in ENCODINGS:
            for nl in NEWLINES:
                with open(fn, "wb") as fd:
                    fd.write(to_bytes(text, enc, nl))
                for incl in (True, False):
                    cfg = f"layout={layout} encoding={enc} newline={ {chr(10): 'LF', chr(13): 'CR'}.get(nl, 'CRLF') } includeEmptyIntervals={incl} notation={notation}{' -0' if negzero else ''}"
                    kwsig = dict(layout=layout, keyword=meta[0], position=meta[1]) if tag == "K" and layout in ("long", "elan", "short") else None
                    if dup:
                        n += 1
                        st, r, _ = call(_tgmod.openTextgrid, fn, incl, "silence", "error")
                        if st != "exc" or not isinstance(r, errors.DuplicateTierName):
                            viols.append(Viol("duplicate-names-not-rejected", f"{cfg}: names {names}: duplicateNamesMode='error' gave {st} {r!r}"))
                        n += 1
                        st, r, _ = call(_tgmod.openTextgrid, fn, incl, "silence", "rename")
                        if st == "exc":
                            viols.append(Viol("open-raised:" + type(r).__name__, f"{cfg} duplicateNamesMode='rename': {r!r}"))
                            continue
                        got = list(r.tierNames)
                        msg = None
                        st2, r2, _ = call(_tgmod.openTextgrid, fn, incl, "silence", "rename")
                        n += 1
                        if st2 == "exc" or list(r2.tierNames) != got or not (r2 == r):
                            msg = f"opening the same file a second time gives different tiers: {got} then {list(r2.tierNames) if st2 == 'ok' else r2!r}"
                        if len(got) != len(names):
                            msg = f"{len(got)} tiers, file has {len(names)}"
                        elif len(set(got)) != len(got):
                            msg = f"names not unique: {got}"
                        else:
                            # renaming happens in file order and only where needed: a tier keeps its name unless that
                            # name is already taken by an earlier tier of the result
                            for k, (g, orig) in enumerate(zip(got, names)):
                                if orig not in got[:k] and g != orig:
                                    msg = f"tier {k + 1} {orig!r} was renamed to {g!r} although the name was still free"
                                if not g.startswith(orig):
                                    msg = f"{g!r} does not extend the original name {orig!r}"
                        if msg is None:
                            ex = expect(data, incl, layout)
                            ob = observe(r)
                            ob = (ob[0], ob[1], [(o[0], x[1]) + o[2:] for o, x in zip(ob[2], ex[2])])
                            msg = same(ob, ex)
                        if msg:
                            viols.append(Viol("rename-result", f"{cfg}: {msg}  [names {names} -> {got}]"))
                        oc.append("D")
                        continue
                    n += 1
                    st, r, _ = call(_tgmod.openTextgrid, fn, incl, "silence")
                    if st == "exc":
                        sig = dict(kwsig, kind="open-exception") if kwsig else None
                        viols.append(Viol("open-raised:" + type(r).__name__, f"{cfg}: {r!r}   [data {lo, hi, tiers}]", sig))
                        oc.append("X")
                        continue
                    msg = same(observe(r), expect(data, incl, layout))
                    if msg is None and enc == "utf-8" and nl == "\n":
                        st2, r2, _ = call(_tgmod.openTextgrid, fn, incl, "silence")
                        n += 1
                        if st2 == "exc" or observe(r2) != observe(r):
                            msg = "opening the same file a second time gives a different textgrid"
                    if msg is None:
                        for t in r.tiers:
                            w = wellformed(t)
                            if w:
                                msg = f"opened tier {t.name!r} is ill-formed ({w})"
                    if msg:
                        sig = dict(kwsig, kind="mismatch") if kwsig else None
                        viols.append(Viol("reader-mismatch", f"{cfg}: {msg}   [data {lo, hi, tiers}]", sig))
                        oc.append("!")
                        continue
                    oc.append("=")
                    opened[(enc, nl, incl)] = r
        # long / elan / short of the same data open to ==-equal textgrids is implied by field equality with the
        # same expectation; additionally assert praatio's own == across encodings of one layout
        for incl in (True, False):
            ref = opened.get(("utf-8", "\n", incl))
            if ref is None:
                continue
            for (enc, nl, i2), r in opened.items():
                if i2 == incl and not (r == ref):
                    viols.append(Viol("not-equal-across-encodings", f"layout={layout}: textgrid opened from {enc}/{nl!r} != the one from utf-8/LF"))
    return n, "".join(sorted(set(oc))), (tag, meta, notation, negzero), viols


# ------------------------------------------------------------------ data layers
def skeleton(l1="x", l2="y", pm="z", iname="t", pname="p"):
    return (0, 3, (("I", iname, 0, 3, ((0, 1, l1), (1.5, 2, l2))), ("P", pname, 0, 3, ((1, pm), (2, "w")))))


def gen_labels(L):
    for l in D.label_strings(L, D.SIGMA + ("日",)):
        yield ("A", (l, "ilabel1"), skeleton(l1=l), "repr", False)
        yield ("A", (l, "ilabel2"), skeleton(l2=l), "repr", False)
        yield ("A", (l, "plabel"), skeleton(pm=l), "repr", False)
        if l and "\n" not in l:
            yield ("A", (l, "name"), skeleton(iname=l), "repr", False)


PADDED = (" ", "  ", "\n", " \n ", " a", "a ", " a b ", "\ta\n", " \"\" ")


def check_padded(case):
    """Labels with surrounding / only whitespace in conformant TEXT files: praatio normalises labels by strip() (C05); the
    three text layouts must agree, labels come back stripped, and with includeEmptyIntervals=False exactly the entries whose
    (normalised) label is empty are omitted."""
    lab, pos = case
    l1 = lab if pos == "ilabel" else "x"
    pm = lab if pos == "plabel" else "z"
    lo, hi, tiers = 0, 3, (("I", "t", 0, 3, ((0, 1, l1), (1.5, 2, "y"))), ("P", "p", 0, 3, ((1, pm), (2, "w"))))
    data = mkdata(lo, hi, tiers)
    fn = os.path.join(scratch_dir(), "c03p.TextGrid")
    viols = []
    n = 0
    for incl in (True, False):
        seen = {}
        for layout in ("long", "elan", "short"):
            for nl in NEWLINES:
                with open(fn, "wb") as fd:
                    fd.write(to_bytes(render(data, layout, "repr", False), "utf-8", nl))
                n += 1
                st, r, _ = call(_tgmod.openTextgrid, fn, incl, "silence")
                cfg = f"layout={layout} newline={ {chr(10): 'LF', chr(13): 'CR'}.get(nl, 'CRLF') } includeEmptyIntervals={incl} label {lab!r} as {pos}"
                if st == "exc":
                    viols.append(Viol("open-raised:" + type(r).__name__, f"{cfg}: {r!r}"))
                    continue
                exp = (0.0, 3.0, [(t["class"], t["name"], 0.0, 3.0,
                                   [tuple(float(v) for v in e[:-1]) + (e[-1].strip(),) for e in t["entries"] if incl or e[-1].strip() != ""])
                                  for t in data["tiers"]])
                msg = same(observe(r), exp)
                if msg:
                    viols.append(Viol("padded-label", f"{cfg}: {msg}"))
                seen[(layout, nl)] = observe(r)
        if len(set(repr(v) for v in seen.values())) > 1:
            viols.append(Viol("layouts-disagree", f"label {lab!r} as {pos}, includeEmptyIntervals={incl}: the text layouts open to different textgrids: {seen}"))
    return n, "ok", (lab, pos), viols


JSON_FREEDOMS = ("members-reversed", "members-sorted", "indented", "ascii-escapes", "compact-separators", "tier-members-rotated")


def _json_variant(text, schema, how):
    """the same JSON document written with another of the spellings RFC 8259 declares insignificant: the order of the members of an object
    (NOT of the simplified schema's "tiers" object, whose member order is the tier order), white space, backslash-u escapes"""
    import collections
    import json
    d = json.loads(text, object_pairs_hook=collections.OrderedDict)

    def reorder(obj, f):
        return collections.OrderedDict(f(list(obj.items())))
    if how in ("members-reversed", "members-sorted", "tier-members-rotated"):
        f = {"members-reversed": lambda it: it[::-1], "members-sorted": sorted, "tier-members-rotated": lambda it: it[1:] + it[:1]}[how]
        if schema == "textgrid_json":
            d["tiers"] = [reorder(t, f) for t in d["tiers"]]
        else:
            d["tiers"] = collections.OrderedDict((nm, reorder(t, f)) for nm, t in d["tiers"].items())
        if how != "tier-members-rotated":
            d = reorder(d, f)
        return json.dumps(d, ensure_ascii=False)
    if how == "indented":
        return json.dumps(d, ensure_ascii=False, indent=2)
    if how == "ascii-escapes":
        return json.dumps(d, ensure_ascii=True)
    return json.dumps(d, ensure_ascii=False, separators=(",", ":"))


def check_json_freedoms(case):
    """both JSON schemas: a document and its re-spellings (member order inside objects, indentation, escapes, separators) encode the same data and
    must open to the same textgrid, for both values of includeEmptyIntervals"""
    tag, meta, (lo, hi, tiers), notation, negzero = case
    data = mkdata(lo, hi, tiers)
    fn = os.path.join(scratch_dir(), "c03.json")
    names = [t["name"] for t in data["tiers"]]
    viols, n = [], 0
    for schema in ("json", "textgrid_json"):
        if schema == "json" and (len(set(names)) != len(names) or any((t["xmin"], t["xmax"]) != (lo, hi) for t in data["tiers"])):
            continue
        text = praatfmt.encode_json(data, schema)
        ref = {}
        for incl in (True, False):
            with open(fn, "w", encoding="utf-8") as fd:
                fd.write(text)
            st, r, _ = call(_tgmod.openTextgrid, fn, incl, "silence")
            ref[incl] = ("raised", type(r).__name__) if st == "exc" else snap(r)
        for how in JSON_FREEDOMS:
            var = _json_variant(text, schema, how)
            with open(fn, "w", encoding="utf-8") as fd:
                fd.write(var)
            for incl in (True, False):
                n += 1
                st, r, _ = call(_tgmod.openTextgrid, fn, incl, "silence")
                got = ("raised", type(r).__name__) if st == "exc" else snap(r)
                if got != ref[incl]:
                    viols.append(Viol("json-respelling-read-differently", f"schema {schema}, {how}, includeEmptyIntervals={incl}: {str(got)[:300]}; the same data in "
                                                                          f"the writer's own spelling opens to {str(ref[incl])[:300]}   [{var[:200]}]"))
                    break
    return n, "ok", (tag, c01_shape(tiers)), viols


def c01_shape(tiers):
    return tuple((t[0], len(t[4]), sum(1 for e in t[4] if e[-1] == "")) for t in tiers)


def snap(tg):
    return (tuple(tg.tierNames), tg.minTimestamp, tg.maxTimestamp,
            tuple((type(t).__name__, t.name, t.minTimestamp, t.maxTimestamp, tuple(tuple(e) for e in t.entries)) for t in tg.tiers))


def gen_structure():
    G = (0, 1, 2.5, 3)
    ivs = [()] + [((a, b, l),) for a, b in itertools.combinations(G, 2) for l in ("x", "")] + \
          [((0, 1, "x"), (1, 2.5, "y")), ((0, 1, ""), (2.5, 3, "y")), ((0, 1, ""), (1, 2.5, "x"), (2.5, 3, ""))]
    # runs of blank-labelled entries (two, three and four in a row; at the start, in the middle, at the end; every entry blank)
    ivs += [((0, 1, ""), (1, 2.5, ""), (2.5, 3, "z")), ((0, 1, "x"), (1, 2, ""), (2, 2.5, "")), ((0, 1, ""), (1, 2, ""), (2, 2.5, ""), (2.5, 3, "z")),
            ((0, 0.5, "x"), (0.5, 1, ""), (1, 2, ""), (2, 2.5, "y"), (2.5, 3, "")), ((0, 1, ""), (1, 2, ""), (2, 2.5, ""), (2.5, 3, "")),
            ((0, 1, ""), (1.5, 2, ""), (2.5, 3, "z"))]
    pts = [(), ((1, "u"),), ((0, ""), (3, "v")), ((0.5, "a"), (1.5, ""), (2.5, "c")),
           ((0.5, ""), (1.5, ""), (2.5, "c")), ((0.5, "a"), (1, ""), (1.5, ""), (2, ""), (2.5, "c")), ((0.5, ""), (1, ""), (1.5, ""), (2, ""))]
    for iv in ivs:
        for pt in pts:
            for (ilo, ihi) in ((0, 3), (0, 4.5)):
                for order in (0, 1):
                    ti = ("I", "i", ilo, ihi, iv)
                    tp = ("P", "p", 0, 3, pt)
                    yield ("C", (len(iv), len(pt), ilo, ihi, order), (0, 4.5 if ihi > 3 else 3, (ti, tp) if order == 0 else (tp, ti)), "repr", False)
    # the span in the file header is stated once more in every tier, and the two need not agree: a file whose header says more than all of its
    # tiers together (annotation of a part of the recording) opens to a textgrid with the HEADER's span
    for iv in ivs[::3]:
        for pt in pts[::2]:
            for flo, fhi in ((0, 6), (-1, 3), (-1, 6)):
                for order in (0, 1):
                    ti = ("I", "i", 0, 3, iv)
                    tp = ("P", "p", 0, 3, pt)
                    yield ("C", (len(iv), len(pt), "file span", flo, fhi, order), (flo, fhi, (ti, tp) if order == 0 else (tp, ti)), "repr", False)


TINY_REL = ((0.3, 0.1 + 0.2), (2.0 ** 31 + 0.5, 2.0 ** 31 + 0.5 + 2.0 ** -20), (1700000000.5, 1700000000.50001), (2.0 ** 40, 2.0 ** 40 + 2.0 ** -7),
            (1000000000000.5, 1000000000000.505))
NUMS = (-1234.5678, -2, -1.5, -1e-05, 0, 1e-05, 2.5e-05, 5e-05, 0.1, 1 / 3, 1.5, 2, 1234.5678, 1e15)


def gen_numbers(thorough):
    nums = NUMS if not thorough else tuple(sorted(set(NUMS + D.NUM_QUICK)))
    for notation in ("repr", "float", "trailing0", "exp", "EXP"):
        for negzero in (False, True):
            for a, b in itertools.combinations(nums, 2):
                if negzero and a != 0:
                    continue
                yield ("B", (a, b), (a, b, (("I", "i", a, b, ((a, b, "x"),)), ("P", "p", a, b, ((a, "u"), (b, "v"))))), notation, negzero)
        # span bounds that no entry touches (and that are falsy when they are 0): entries strictly inside, and empty tiers
        for a, b in itertools.combinations(nums, 2):
            m1, m2 = a + (b - a) / 4, a + (b - a) / 2
            if not (a < m1 < m2 < b):
                continue
            yield ("B", (a, b, "strictly-inside"), (a, b, (("I", "i", a, b, ((m1, m2, "x"),)), ("P", "p", a, b, ((m1, "u"), (m2, "v"))))), notation, False)
            yield ("B", (a, b, "empty"), (a, b, (("I", "i", a, b, ()), ("P", "p", a, b, ()))), notation, False)
        # legitimate intervals whose duration is tiny RELATIVE to their timestamps (one ulp at 0.3; 1e-6 .. 8e-3 s at 1.7e9 .. 1.1e12 s):
        # the reader returns exactly what the file encodes
        for a, b in TINY_REL:
            yield ("B", (a, b), (a, b, (("I", "i", a, b, ((a, b, "x"),)), ("P", "p", a, b, ((a, "u"), (b, "v"))))), notation, False)
            yield ("B", (a, b, "inside"), (a - 1, b + 1, (("I", "i", a - 1, b + 1, ((a - 1, a, "w"), (a, b, "x"), (b, b + 1, ""))),
                                                    ("P", "p", a - 1, b + 1, ((a, "u"), (b, "v"))))), notation, False)


def gen_duplicates():
    base = (("I", ((0, 1, "a"),)), ("P", ((0.5, "x"),)), ("I", ()), ("I", ((1, 2, ""),)))
    for names in (("a", "a"), ("a", "b", "a"), ("a", "a", "a_2", "a"), ("a", "a_2", "a"), ("a", "a", "a"), ("w", "x", "w", "x"),
                  # (names that are not plain words: regular-expression and format syntax, blanks, the empty name - a name is compared, never interpreted)
                  ("f0 (Hz)", "f0 (Hz)", "f0 (Hz)"), ("c++", "c++", "c++", "c++"), ("word [raw", "word [raw"), ("a.b", "a.b", "axb", "a.b"), ("a\\", "a\\", "a\\"),
                  ("%s", "%s", "%s"), ("{0}", "{0}"), ("a b", "a b", "a b"), ("", "", ""), ("a_2", "a_2", "a_2"), ("a|b", "a|b", "a|b"), ("^a$", "^a$", "^a$")):
        tiers = tuple((base[i % 4][0], nm, 0, 2, base[i % 4][1]) for i, nm in enumerate(names))
        yield ("D", names, (0, 2, tiers), "repr", False)


def gen_keywords():
    for kw in D.KEYWORDS + ('a\n"IntervalTier"\nb', "a\nitem [2]:"):
        yield ("K", (kw, "ilabel1"), skeleton(l1=kw), "repr", False)
        yield ("K", (kw, "plabel"), skeleton(pm=kw), "repr", False)
        if "\n" not in kw:
            yield ("K", (kw, "iname"), skeleton(iname=kw), "repr", False)
            yield ("K", (kw, "pname"), skeleton(pname=kw), "repr", False)


def parts(tier):
    quick = tier == "quick"
    L = 3 if quick else 4
    return [
        InputPart("labels", lambda: gen_labels(L), check,
                  rule="every label over {a,\",\\n,=,1,space,e-acute,CJK} up to length %d in 4 positions; each case = 5 layouts x 4 "
                       "encodings x 3 newline styles (LF, CR LF, lone CR) x includeEmptyIntervals files written by the independent writer and opened" % L,
                  bounds={"label_length": L}, chunk=4),
        InputPart("labels-unicode-forms", lambda: ((t, m, sk, "repr", False) for t, m, sk, _ in _c01.layer_unicode_forms()), check,
                  rule="the %d non-NFC / case-folding-sensitive / canonically equivalent strings of C01 as labels and tier names in files written by the "
                       "independent writer: read back code point for code point" % len(_c01.UNICODE_FORMS), bounds={}, chunk=2),
        _c01.residue_part(quick),
        InputPart("json-respellings", lambda: itertools.chain(gen_structure(), itertools.islice(gen_labels(2), 0, None, 7)), check_json_freedoms,
                  rule="all small structures and every 7th label case x both JSON schemas x %d re-spellings that RFC 8259 declares insignificant (members of "
                       "the top-level and tier objects reversed / sorted / rotated, indentation, backslash-u escapes, compact separators): the reader returns the "
                       "same textgrid as for the writer's own spelling, with and without empty intervals" % len(JSON_FREEDOMS), bounds={"respellings": len(JSON_FREEDOMS)}, chunk=8),
        InputPart("structure", gen_structure, check,
                  rule="all small structures: 0-3 intervals incl. blank-labelled, 0-3 points, empty tiers, per-tier spans, tier order",
                  bounds={}, chunk=4),
        InputPart("size", lambda: ((t, m, tg, "repr", False) for t, m, tg, _ in _c01.layer_size(not quick)), check,
                  rule="the size axis (shared with C01): files with 9-25 (thorough 100) tiers, tiers of 10-400 (thorough 1000) entries, labels and names with "
                       "8-30 quote characters, 255-9000 characters, 10-40 lines, thousands of non-ASCII characters, written by the independent writer in every "
                       "layout / encoding / newline style: the reader returns exactly what the file encodes", bounds={}, chunk=1),
        InputPart("number-notations", lambda: gen_numbers(not quick), check,
                  rule="every ordered pair of NUM values written in 5 notations (repr, always-float, trailing zero, exponent, EXPONENT) "
                       "with and without '-0' starts", bounds={}, chunk=4),
        InputPart("padded-labels", lambda: ((l, p) for l in PADDED for p in ("ilabel", "plabel")), check_padded,
                  rule="labels with surrounding or only whitespace (%d) as interval label / point mark in long, elan-long and short files x "
                       "newline x includeEmptyIntervals: stripped on reading, whitespace-only ones omitted like empty ones, all text layouts "
                       "agree" % len(PADDED), bounds={}, chunk=1),
        InputPart("duplicate-names", gen_duplicates, check,
                  rule="name lists with duplicates incl. (a,a,a_2,a): 'error' raises DuplicateTierName, 'rename' keeps count/order, "
                       "unique names, first occurrences untouched, renamed names extend the original", bounds={}, chunk=1),
        InputPart("keywords", gen_keywords, check,
                  rule="the formats' own keywords as labels and names in conformant files (failures of the content-sniffing readers "
                       "are matched against known_findings.json)", bounds={}, chunk=2),
    ]
