"""C17 - interval-driven audio extraction keeps and drops exactly the marked samples.

Enumerated: 12-sample recordings (widths 1/2/4, rates 8 and 8000) x all lists of <=3 disjoint intervals on a 6-point grid
of sample positions (empty, touching, at the edges) and the same lists moved off the sample grid by 1/3 sample x
{keep, delete} x {no replacement, silence, sine}; both lists at once; times beyond the recording; extractSubwav over all
(a, b); generator lengths; splitAudioOnTier on real files over target tiers x secondary interval tier {none, elsewhere,
partial, full} x point tier x outputTGFlag x noPartialIntervals x nameStyle.
"""
import io
import math
import os
import shutil
import wave
from fractions import Fraction as F

from mc import domains as D
from mc.engine import InputPart, Viol
from mc.models import ival, praatfmt, wavmodel as W
from mc.props.common import IT, PT, Textgrid, PE, errors, call, scratch_dir
from praatio import audio, praatio_scripts

N = 12
GRIDPOS = (0, 2, 3, 6, 9, 12)
SAMPLES = tuple(range(1, N + 1))


def _wavfile(width, rate, tag="src"):
    fn = os.path.join(scratch_dir(), f"c17-{tag}-{width}-{rate}.wav")
    if not os.path.exists(fn):
        W.write_riff(fn, list(SAMPLES), width, rate)
    return fn


def _sine(n, width, rate, freq=200):
    amp = 2 ** (8 * width - 1) - 1
    return [round(amp * math.sin(2 * math.pi * freq / float(rate) * i)) for i in range(n)]


def _match(out, pos, pieces, k, s):
    """pieces: list of ('keep', x0, x1) | ('gen', nsamples, values-fn).  Backtracking matcher over floor/ceil ends."""
    if k == len(pieces):
        return pos == len(out)
    p = pieces[k]
    if p[0] == "gen":
        n = p[1]
        exp = p[2](n)
        return out[pos:pos + n] == exp and _match(out, pos + n, pieces, k + 1, s)
    x0, x1 = p[1], p[2]
    for i in {math.floor(x0), math.ceil(x0)}:
        for j in {math.floor(x1), math.ceil(x1)}:
            if 0 <= i <= j <= len(s) and out[pos:pos + (j - i)] == s[i:j] and pos + (j - i) <= len(out):
                if _match(out, pos + (j - i), pieces, k + 1, s):
                    return True
    return False


def _check_read(case):
    width, rate, ivs, offgrid, kind, repl = case[:6]
    order = case[6] if len(case) > 6 else "asc"  # the order in which the caller LISTS the (disjoint) intervals
    fn = _wavfile(width, rate)
    off = F(1, 3) if offgrid is True else F(0)      # offgrid == "as-given": the boundaries are given in (fractional) sample units as they are
    L = [(float((F(a) + off) / rate), float((F(b) - off) / rate)) for a, b in ivs]
    if order == "desc":
        L = L[::-1]
    elif order == "rot":
        L = L[1:] + L[:1]
    elif order == "tuple":      # the FORM of the argument: any iterable of (start, end) pairs, also one that can be walked only once
        L = tuple(L)
    elif order == "iter":
        L = iter(list(L))
    elif order == "gen":
        L = ((a_, b_) for a_, b_ in list(L))
    elif order == "lists":
        L = [list(x) for x in L]
    s = list(SAMPLES)
    gen = audio.AudioGenerator(width, rate)
    rf = None
    if repl == "silence":
        rf = gen.generateSilence
    elif repl == "sine":
        rf = gen.buildSineWaveGenerator(200, None)
    calls = []
    if repl == "numbered":      # a generator that is not a pure function of the duration: its n-th call returns samples that all hold n
        def rf(duration):
            calls.append(duration)
            return W.pack([len(calls)] * int(round(duration * rate)), width)
    af = wave.open(fn, "r")
    if repl == "room-tone":     # a generator that takes its audio from the SAME reader (the start of the recording): it leaves the reader somewhere else
        def rf(duration):
            k = int(round(duration * rate))
            af.setpos(0)
            got = af.readframes(min(k, N))
            return got + W.pack([0] * (k - len(got) // width), width)
    try:
        st, fr, _ = call(audio.readFramesAtTimes, af, L if kind == "keep" else None, L if kind == "delete" else None, rf)
    finally:
        af.close()
    tag = f"readFramesAtTimes width={width} rate={rate} {kind}={L if isinstance(L, (list, tuple)) else order + ' over ' + str(ivs)} replace={repl}"
    if st == "exc":
        return 1, "X", None, [Viol("read-raised:" + type(fr).__name__, f"{tag}: {fr!r}")]
    if not isinstance(fr, bytes):
        return 1, "!", None, [Viol("read-result-not-bytes", f"{tag}: the result is a {type(fr).__name__}, documented (and relied upon as a hashable, immutable value: "
                                                            f"Wav(frames).concatenate() grows a bytearray in place) is bytes")]
    if len(fr) % width:
        return 1, "!", None, [Viol("read-misaligned", f"{tag}: {len(fr)} bytes")]
    if isinstance(L, (list, tuple)) and repl in (None, "silence"):
        # the reader the library itself hands out: QueryWav(fn).audiofile, kept by the caller while the QueryWav object is not
        af3 = audio.QueryWav(fn).audiofile      # the temporary QueryWav is freed here (reference counting)
        try:
            st3, fr3, _ = call(audio.readFramesAtTimes, af3, L if kind == "keep" else None, L if kind == "delete" else None, rf)
        finally:
            af3.close()
        if st3 == "exc" or fr3 != fr:
            return 2, "!", None, [Viol("read-through-querywav-reader", f"{tag}: through the reader taken from a QueryWav that is no longer referenced "
                                                                       f"(audio.QueryWav(fn).audiofile) the call gives {fr3 if st3 == 'exc' else W.unpack(fr3, width)!r}, "
                                                                       f"through wave.open(fn) {W.unpack(fr, width)}")]
    out = W.unpack(fr, width)
    # the marked partition of [0, N], in exact sample units
    pos = [(F(a) + off, F(b) - off) for a, b in ivs]
    marks = []
    cur = F(0)
    if not pos:
        marks = [("keep", F(0), F(N))]
    else:
        for a, b in pos:
            if a > cur:
                marks.append(("delete" if kind == "keep" else "keep", cur, a))
            marks.append((kind, a, b))
            cur = b
        if cur < N:
            marks.append(("delete" if kind == "keep" else "keep", cur, F(N)))
    pieces = []
    ngen = 0
    for m, a, b in marks:
        if m == "keep":
            pieces.append(("keep", a, b))
        elif rf is not None:
            n = round(b - a)  # generated audio of the same duration: round(rate x duration) samples
            ngen += 1
            pieces.append(("gen", n, (lambda k: [0] * k) if repl == "silence" else (lambda k, j=ngen: [j] * k) if repl == "numbered"
                           else (lambda k: (list(s[:k]) + [0] * k)[:k]) if repl == "room-tone"
                           else (lambda k: _sine(k, width, rate))))
    if repl == "numbered" and len(calls) != ngen:
        return 1, "!", None, [Viol("read-generator-call-count", f"{tag}: the replacement generator was called {len(calls)} times (durations {calls}) for {ngen} "
                                                                f"dropped stretches: each dropped stretch is replaced by audio generated for it")]
    ok = _match(out, 0, pieces, 0, s)
    viols = []
    if not ok:
        viols.append(Viol("read-content", f"{tag}: got {out}; expected, in order, the kept stretches of {s} "
                                          f"{'with each dropped stretch replaced by generated audio of the same duration' if rf else ''} "
                                          f"(marks in sample units {[(m, float(a), float(b)) for m, a, b in marks]})"))
    elif not offgrid and rf is not None and len(out) != N:
        viols.append(Viol("read-length", f"{tag}: boundaries on sample positions and a replacement generator must keep the original length; got {len(out)}"))
    elif not offgrid and rf is not None:
        inside = [any(a <= i < b for a, b in ivs) for i in range(N)]  # ivs are sample positions
        keepmask = inside if kind == "keep" else [not x for x in inside]
        if not ivs:
            keepmask = [True] * N
        if any(k and o != x for k, o, x in zip(keepmask, out, s)):
            viols.append(Viol("read-position", f"{tag}: a kept sample is not at its original position: {out}"))
    return 1, "ok", (len(ivs), offgrid, kind, repl, tuple((a == 0, b == N) for a, b in ivs)), viols


def _check_reuse(case):
    """Two consecutive reads through ONE open reader: the second must return what a fresh reader returns."""
    width, rate, first, second, via = case
    fn = _wavfile(width, rate)
    s = list(SAMPLES)

    def spec(x):
        kind, ivs, repl = x
        L = [(a / rate, b / rate) for a, b in ivs]
        gen = audio.AudioGenerator(width, rate)
        rf = gen.generateSilence if repl else None
        return dict(keepIntervals=L if kind == "keep" else None, deleteIntervals=L if kind == "delete" else None, replaceFunc=rf)
    viols = []
    if via == "reader":
        af = wave.open(fn, "r")
        try:
            call(audio.readFramesAtTimes, af, **spec(first))
            st, got, _ = call(audio.readFramesAtTimes, af, **spec(second))
        finally:
            af.close()
        af2 = wave.open(fn, "r")
        try:
            st2, exp, _ = call(audio.readFramesAtTimes, af2, **spec(second))
        finally:
            af2.close()
        what = f"readFramesAtTimes({second}) after readFramesAtTimes({first}) on the same wave reader"
    else:
        q = audio.QueryWav(fn)
        (a, b), (c, d) = first[1][0], second[1][0]
        call(q.getFrames, a / rate, b / rate)
        st, got, _ = call(q.getFrames, c / rate, d / rate)
        q.audiofile.close()
        q2 = audio.QueryWav(fn)
        st2, exp, _ = call(q2.getFrames, c / rate, d / rate)
        q2.audiofile.close()
        what = f"QueryWav.getFrames(samples {c}..{d}) after getFrames(samples {a}..{b}) on the same QueryWav"
        if st2 == "ok" and W.unpack(exp, width) != s[c:d]:
            viols.append(Viol("reuse-fresh-wrong", f"{what}: even a fresh QueryWav returns {W.unpack(exp, width)}"))
    if st != st2 or (st == "ok" and got != exp):
        viols.append(Viol("reader-position-leaks", f"{what} (width={width} rate={rate}) returns "
                                                   f"{W.unpack(got, width) if st == 'ok' else got!r}; a fresh reader returns "
                                                   f"{W.unpack(exp, width) if st2 == 'ok' else exp!r}"))
    return 3, "ok", (first[0], second[0], via, second[1][0][0] == 0 if second[1] else None), viols


def _check_rejects(case):
    width, rate, which = case
    fn = _wavfile(width, rate)
    dur = N / rate
    args = {
        "both": dict(keepIntervals=[(0.0, dur / 4)], deleteIntervals=[(dur / 2, dur)]),
        "keep-beyond": dict(keepIntervals=[(0.0, dur * 2)]),
        "delete-beyond": dict(deleteIntervals=[(dur / 2, dur * 2)]),
        "delete-beyond-by-one-sample": dict(deleteIntervals=[(dur / 2, dur + 1 / rate)]),
        "keep-beyond-not-listed-last": dict(keepIntervals=[(dur / 2, dur * 2), (0.0, dur / 4)]),
        "delete-beyond-not-listed-last": dict(deleteIntervals=[(dur / 2, dur + 1 / rate), (dur / 8, dur / 4)]),
    }[which]
    af = wave.open(fn, "r")
    try:
        st, r, _ = call(audio.readFramesAtTimes, af, **args)
    finally:
        af.close()
    if st != "exc" or not isinstance(r, errors.ArgumentError):
        return 1, "!", None, [Viol("not-rejected", f"readFramesAtTimes({args}) on a {dur}s recording: {st} {r!r}; ArgumentError required")]
    return 1, "rejected", (which,), []


# ------------------------------------------------------------------ the size axis: long recordings
def _big_samples(n, width):
    return [((i * 37) % 251) - 125 for i in range(n)] if width == 1 else [((i * 7919) % 65521) - 32760 for i in range(n)]


SIL_LABELS = ("s", "sil", "il", "silx", "a", "SIL")


def _check_split_silence(case):
    """splitAudioOnTier with a silenceLabel: exactly the entries whose label IS that label are left out - an entry whose label is a part of it
    ('s', 'il' under 'sil'), or contains it, is an entry like any other"""
    width, rate, sil, ns = case
    d = scratch_dir()
    fn = _wavfile(width, rate, "split")
    tgfn = os.path.join(d, "c17-sil.TextGrid")
    od = os.path.join(d, "c17-sil-out")
    shutil.rmtree(od, ignore_errors=True)
    ivs = [(2 * i, 2 * i + 2) for i in range(len(SIL_LABELS))]
    E = [(a / rate, b / rate, lab) for (a, b), lab in zip(ivs, SIL_LABELS)]
    tg = Textgrid()
    tg.addTier(IT("w", E, 0, N / rate))
    tg.save(tgfn, "short_textgrid", True)
    st, r, _ = call(praatio_scripts.splitAudioOnTier, fn, tgfn, "w", od, False, ns, False, sil)
    tag = f"splitAudioOnTier(silenceLabel={sil!r}, nameStyle={ns!r}) on entries labelled {SIL_LABELS} (width {width}, rate {rate})"
    if st == "exc":
        return 1, "X", None, [Viol("split-raised:" + type(r).__name__, f"{tag}: {r!r}")]
    kept = [(a, b) for (a, b), lab in zip(ivs, SIL_LABELS) if lab != sil]
    wavs = sorted(f for f in os.listdir(od) if f.endswith(".wav"))
    if len(r) != len(kept) or len(wavs) != len(kept):
        return 1, "!", None, [Viol("split-silence-selection", f"{tag}: {len(wavs)} files written / {len(r)} rows returned; {len(kept)} entries carry another label "
                                                              f"than the silence label")]
    s = list(SAMPLES)
    for (a, b), row in zip(kept, r):
        info = W.read_riff(os.path.join(od, row[2])) if os.path.exists(os.path.join(od, row[2])) else None
        if info is None or info["samples"] != s[a:b]:
            return 1, "!", None, [Viol("split-silence-content", f"{tag}: file {row[2]!r} holds {None if info is None else info['samples']}, expected samples {a}..{b} = {s[a:b]}")]
    return 1, "ok", (width, sil, ns), []


def _check_stereo(case):
    """a two-channel recording handed to readFramesAtTimes as an open wave reader: a frame is one sample PER CHANNEL; the kept stretches come back
    frame for frame (boundaries on frame positions)"""
    import struct
    width, rate, ivs, kind = case
    n = 12
    left, right = list(range(1, n + 1)), [50 + i for i in range(n)]
    inter = [v for pair in zip(left, right) for v in pair]
    data = W.pack(inter, width)
    fmt = struct.pack("<HHIIHH", 1, 2, rate, rate * width * 2, width * 2, 8 * width)
    body = b"WAVE" + b"fmt " + struct.pack("<I", len(fmt)) + fmt + b"data" + struct.pack("<I", len(data)) + data
    fn = os.path.join(scratch_dir(), "c17-stereo.wav")
    with open(fn, "wb") as fd:
        fd.write(b"RIFF" + struct.pack("<I", len(body)) + body)
    L = [(a / rate, b / rate) for a, b in ivs]
    af = wave.open(fn, "r")
    try:
        st, fr, _ = call(audio.readFramesAtTimes, af, L if kind == "keep" else None, L if kind == "delete" else None, None)
    finally:
        af.close()
    inside = [any(a <= i < b for a, b in ivs) for i in range(n)]
    keep = inside if kind == "keep" else [not x for x in inside]
    if not ivs:
        keep = [True] * n
    want = W.pack([v for i in range(n) if keep[i] for v in (left[i], right[i])], width)
    if st == "exc" or bytes(fr) != want:
        return 1, "!", None, [Viol("read-stereo", f"readFramesAtTimes on a 2-channel recording (width {width}, rate {rate}, 12 frames) {kind}={ivs}: "
                                                  f"{fr if st == 'exc' else W.unpack(bytes(fr), width) if len(fr) % width == 0 else len(fr)!r}; expected the interleaved frames "
                                                  f"{W.unpack(want, width)}")]
    return 1, "ok", (width, kind, len(ivs)), []


def _big_wavfile(width, rate, n):
    fn = os.path.join(scratch_dir(), f"c17-big-{width}-{rate}-{n}.wav")
    if not os.path.exists(fn):
        W.write_riff(fn, _big_samples(n, width), width, rate)
    return fn


def _check_large(case):
    """boundaries on sample positions of a LONG recording (stretches longer than the usual block sizes): exact samples"""
    width, rate, n, kind, ivs, repl = case
    fn = _big_wavfile(width, rate, n)
    s = _big_samples(n, width)
    L = [(a / rate, b / rate) for a, b in ivs]
    tag = f"width={width} rate={rate} {n} samples, {kind} intervals (in samples) {ivs}, replacement={repl}"
    viols = []
    if kind == "extract":
        out = os.path.join(scratch_dir(), "c17-big-extract.wav")
        a, b = ivs[0]
        st, r, _ = call(audio.extractSubwav, fn, out, a / rate, b / rate)
        if st == "exc":
            return 1, "X", None, [Viol("extract-raised:" + type(r).__name__, f"extractSubwav {tag}: {r!r}")]
        info = W.read_riff(out)
        if info["samples"] != s[a:b]:
            viols.append(Viol("extract-content", f"extractSubwav {tag}: the file holds {len(info['samples'])} samples, expected the {b - a} source samples"))
        # the output file IS the input file (trimming a recording in place): the stretch is read before anything is written over it
        import shutil
        inplace = os.path.join(scratch_dir(), "c17-big-inplace.wav")
        shutil.copyfile(fn, inplace)
        st, r, _ = call(audio.extractSubwav, inplace, inplace, a / rate, b / rate)
        if st == "exc":
            viols.append(Viol("extract-raised:" + type(r).__name__, f"extractSubwav onto its own source file, {tag}: {r!r}"))
        elif W.read_riff(inplace)["samples"] != s[a:b]:
            viols.append(Viol("extract-in-place", f"extractSubwav with the source file as output file, {tag}: the file holds "
                                                  f"{len(W.read_riff(inplace)['samples'])} samples, expected the {b - a} source samples"))
        os.remove(inplace)
        return 2, "ok", (width, n, kind, len(ivs)), viols
    if kind == "query":
        a, b = ivs[0]
        st, q, _ = call(audio.QueryWav, fn)
        st, got, _ = call(q.getSamples, a / rate, b / rate)
        try:
            q.audiofile.close()
        except Exception:
            pass
        if st == "exc" or list(got) != s[a:b]:
            viols.append(Viol("querywav-long-stretch", f"QueryWav.getSamples {tag}: {len(got) if st != 'exc' else got!r} samples, expected {b - a}"))
        return 1, "ok", (width, n, kind, 1), viols
    gen = audio.AudioGenerator(width, rate)
    rf = gen.generateSilence if repl == "silence" else None
    af = wave.open(fn, "r")
    try:
        st, fr, _ = call(audio.readFramesAtTimes, af, L if kind == "keep" else None, L if kind == "delete" else None, rf)
    finally:
        af.close()
    if st == "exc":
        return 1, "X", None, [Viol("read-raised:" + type(fr).__name__, f"readFramesAtTimes {tag}: {fr!r}")]
    out = W.unpack(fr, width) if len(fr) % width == 0 else None
    inside = [False] * n
    for a, b in ivs:
        for i in range(a, b):
            inside[i] = True
    keep = inside if kind == "keep" else [not x for x in inside]
    exp = [x if k else 0 for x, k in zip(s, keep)] if rf else [x for x, k in zip(s, keep) if k]
    if out != exp:
        viols.append(Viol("read-content", f"readFramesAtTimes {tag}: {len(out) if out is not None else 'misaligned'} samples returned, expected {len(exp)}"
                                          + ("" if out is None or len(out) != len(exp) else f"; first difference at output index {next(i for i, (x, y) in enumerate(zip(out, exp)) if x != y)}")))
    return 1, "ok", (width, n, kind, len(ivs), repl), viols


def _large_cases(quick):
    for width, rate in ((2, 8000), (4, 8000), (1, 8000)) + (() if quick else ((2, 44100),)):
        for n in ((70000,) if quick else (5000, 70000, 140000)):
            h = n // 2
            for ivs in (((0, n),), ((1, n - 1),), ((0, 66000 if n > 66000 else n - 7),), ((1000, n),), ((0, 10), (h, n)), ((0, h), (h, n)), ((10, 20), (n - 30, n - 5))):
                for kind in ("keep", "delete"):
                    for repl in (None, "silence"):
                        yield (width, rate, n, kind, ivs, repl)
                yield (width, rate, n, "extract", ivs[-1:], None)
                yield (width, rate, n, "query", ivs[-1:], None)


def _check_rewritten(case):
    """the same file NAME holds one recording, is read, is overwritten with another recording, is read again: every extraction returns the
    samples the file holds at that moment (nothing about a source may be remembered by name)"""
    variant, a, b = case
    fn = os.path.join(scratch_dir(), "c17-rewritten.wav")
    out = os.path.join(scratch_dir(), "c17-rewritten-out.wav")
    first = (2, 8, [10 * (i + 1) for i in range(12)])
    second = {"same-shape": (2, 8, [-7 * (i + 1) for i in range(12)]), "longer": (2, 8, [3 * (i + 1) for i in range(20)]),
              "shorter": (2, 8, [5, 6, 7, 8, 9, 10]), "other-width-rate": (1, 16, [i - 10 for i in range(24)])}[variant]
    viols = []
    n = 0
    for width, rate, smp in (first, second, first):
        W.write_riff(fn, smp, width, rate)
        a2, b2 = min(a, len(smp)), min(b, len(smp))
        if a2 >= b2:
            continue
        n += 1
        st, r, _ = call(audio.extractSubwav, fn, out, a2 / rate, b2 / rate)
        if st == "exc":
            viols.append(Viol("extract-raised:" + type(r).__name__, f"extractSubwav after the source file was rewritten ({variant}): {r!r}"))
            break
        info = W.read_riff(out)
        if info["samples"] != smp[a2:b2] or (info["width"], info["rate"]) != (width, rate):
            viols.append(Viol("extract-stale-source", f"source rewritten ({variant}), extractSubwav({a2}/{rate}, {b2}/{rate}) wrote {info['samples']} width "
                                                      f"{info['width']} rate {info['rate']}; the file now holds {smp[a2:b2]} width {width} rate {rate}"))
            break
        st, dur, _ = call(audio.getDuration, fn)
        if st == "exc" or abs(dur - len(smp) / rate) > 1e-9:
            viols.append(Viol("duration-stale-source", f"source rewritten ({variant}): getDuration = {dur!r}, the file now lasts {len(smp) / rate}"))
            break
    return n, "ok", (variant,), viols


def _check_extract(case):
    width, rate, a3, b3 = case  # positions in thirds of a sample
    fn = _wavfile(width, rate)
    out = os.path.join(scratch_dir(), "c17-extract.wav")
    t0, t1 = float(F(a3, 3) / rate), float(F(b3, 3) / rate)
    st, r, _ = call(audio.extractSubwav, fn, out, t0, t1)
    tag = f"extractSubwav width={width} rate={rate} ({t0!r},{t1!r}) = samples {a3 / 3:.3f}..{b3 / 3:.3f}"
    if st == "exc":
        return 1, "X", None, [Viol("extract-raised:" + type(r).__name__, f"{tag}: {r!r}")]
    info = W.read_riff(out)
    s = list(SAMPLES)
    viols = []
    if (info["channels"], info["width"], info["rate"]) != (1, width, rate):
        viols.append(Viol("extract-params", f"{tag}: file has {info['channels']} channels, width {info['width']}, rate {info['rate']}"))
    if info["declared_data_bytes"] != info["actual_data_bytes"]:
        viols.append(Viol("extract-sizes", f"{tag}: data chunk declares {info['declared_data_bytes']} bytes, holds {info['actual_data_bytes']}"))
    x0, x1 = F(a3, 3), F(b3, 3)
    ok = any(info["samples"] == s[i:j] for i in {math.floor(x0), math.ceil(x0)} for j in {math.floor(x1), math.ceil(x1)} if i <= j)
    if not ok:
        viols.append(Viol("extract-content", f"{tag}: file holds {info['samples']}"))
    return 1, "ok", (a3 % 3 == 0, b3 % 3 == 0, a3 == 0, b3 == 3 * N), viols


def _check_gen(case):
    width, rate, dur = case
    g = audio.AudioGenerator(width, rate)
    viols = []
    n = round(rate * dur)
    sil = g.generateSilence(dur)
    if len(sil) != n * width or any(sil):
        viols.append(Viol("silence-length", f"generateSilence({dur!r}) width={width} rate={rate}: {len(sil) // width} samples, expected {n}"))
    sn = g.generateSineWave(dur, 200)
    if len(sn) != n * width:
        viols.append(Viol("sine-length", f"generateSineWave({dur!r}) width={width} rate={rate}: {len(sn) // width} samples, expected {n}"))
    elif W.unpack(sn, width) != _sine(n, width, rate):
        viols.append(Viol("sine-values", f"generateSineWave({dur!r}) width={width} rate={rate}: values differ from round(A*sin(2*pi*f*i/rate))"))
    return 2, "ok", (width, rate, n == 0), viols


# ------------------------------------------------------------------ splitAudioOnTier
OTHERS = ((), ((0, 2),), ((1, 7),), ((3, 6), (6, 12)), ((0, 12),))
PTS = ((), (3,), (0, 12))


def _check_split(case):
    width, rate, ivs, oi, pi, flag, npi, ns = case[:8]
    off = F(1, 3) if len(case) > 8 and case[8] else F(0)  # entries moved off the sample grid by 1/3 sample
    nbig = case[9] if len(case) > 9 else None  # the size axis: a longer recording (nbig samples) so that the tier can hold 10+ entries
    dotted = len(case) > 10 and case[10]  # dots in the names: a recording "take.2.final.wav", labels "L.0", an output directory "out.d"
    d = scratch_dir()
    fn = _wavfile(width, rate, "split") if nbig is None else _big_wavfile(width, rate, nbig)
    if dotted:
        fn2 = os.path.join(d, "c17.take.2.final.wav")
        shutil.copyfile(fn, fn2)
        fn = fn2
    base = os.path.splitext(os.path.basename(fn))[0]
    tgfn = os.path.join(d, "c17-split.TextGrid")
    od = os.path.join(d, "c17-out.d" if dotted else "c17-out")
    shutil.rmtree(od, ignore_errors=True)
    dur = (N if nbig is None else nbig) / rate
    LAB = "L.%d" if dotted else "L%d"
    if dotted == "unicode":     # labels that are canonically equivalent to one another but different strings (and not in normalisation form C)
        UL = ("caf\u00e9", "cafe\u0301", "\u212b", "\u00c5", "A\u030a", "te\u0301")

        class _L(str):
            def __mod__(self, i):
                return UL[i % len(UL)] + ("" if i < len(UL) else str(i))
        LAB = _L()
    E = [(float((F(a) + off) / rate), float((F(b) - off) / rate), LAB % i) for i, (a, b) in enumerate(ivs)]
    O = [(a / rate, b / rate, "O%d" % i) for i, (a, b) in enumerate(OTHERS[oi])]
    P = [(t / rate, "P%d" % i) for i, t in enumerate(PTS[pi])]
    tg = Textgrid()
    tg.addTier(IT("w", E, 0, dur))
    tg.addTier(IT("o", O, 0, dur))
    tg.addTier(PT("p", P, 0, dur))
    tg.save(tgfn, "short_textgrid", True)
    st, r, out = call(praatio_scripts.splitAudioOnTier, fn, tgfn, "w", od, flag, ns, npi)
    tag = f"splitAudioOnTier width={width} rate={rate} target={ivs} other={OTHERS[oi]} points={PTS[pi]} outputTGFlag={flag!r} noPartialIntervals={npi} nameStyle={ns!r}"
    if st == "exc":
        return 1, "X", None, [Viol("split-raised:" + type(r).__name__, f"{tag}: {r!r}")]
    viols = []
    files = sorted(os.listdir(od))
    wavs = [f for f in files if f.endswith(".wav")]
    tgs = [f for f in files if f.endswith(".TextGrid")]
    if len(wavs) != len(ivs) or len(tgs) != (len(ivs) if flag else 0) or len(r) != len(ivs):
        return 1, "!", None, [Viol("split-file-count", f"{tag}: files {files}, returned {r}; expected one wav per entry and "
                                                       f"{'one' if flag else 'no'} TextGrid per entry")]
    s = list(SAMPLES) if nbig is None else _big_samples(nbig, width)
    digits = int(math.floor(math.log10(len(ivs)))) + 1
    for i, ((a, b), (rs, re_, name)) in enumerate(zip(ivs, r)):
        label = LAB % i
        expname = {None: f"{base}_%0{digits}d" % i, "append": f"{base}_%0{digits}d_{label}" % i, "append_no_i": f"{base}_{label}",
                   "label": label}[ns] + ".wav"
        if name != expname or (rs, re_) != (E[i][0], E[i][1]):
            viols.append(Viol("split-returned-list", f"{tag}: entry {i}: returned ({rs},{re_},{name!r}), expected ({E[i][0]},{E[i][1]},{expname!r})"))
            continue
        info = W.read_riff(os.path.join(od, name))
        x0, x1 = F(a) + off, F(b) - off
        okrun = any(info["samples"] == s[i0:j0] for i0 in {math.floor(x0), math.ceil(x0)} for j0 in {math.floor(x1), math.ceil(x1)} if i0 <= j0)
        if not okrun or (info["channels"], info["width"], info["rate"]) != (1, width, rate):
            viols.append(Viol("split-wav-content", f"{tag}: {name} holds {info['samples']} (width {info['width']} rate {info['rate']}), "
                                                   f"expected source samples {s[a:b]}"))
        if info["declared_data_bytes"] != info["actual_data_bytes"]:
            viols.append(Viol("split-wav-sizes", f"{tag}: {name}: data chunk declares {info['declared_data_bytes']} bytes, holds {info['actual_data_bytes']}"))
        if flag:
            if not os.path.exists(os.path.join(od, name[:-4] + ".TextGrid")):
                viols.append(Viol("split-tg-missing", f"{tag}: no {name[:-4]}.TextGrid next to {name}; the directory holds {files}"))
                continue
            with io.open(os.path.join(od, name[:-4] + ".TextGrid"), encoding="utf-8") as fd:
                text = fd.read()
            try:
                dec = praatfmt.decode_text(text)
            except praatfmt.FormatError as e:
                viols.append(Viol("split-tg-malformed", f"{tag}: {name[:-4]}.TextGrid: {e}"))
                continue
            ln = F(E[i][1]) - F(E[i][0])
            if F(dec["xmin"]) != 0 or abs(F(dec["xmax"]) - ln) > F(1, 10 ** 9):
                viols.append(Viol("split-tg-span", f"{tag}: cropped TextGrid spans ({dec['xmin']},{dec['xmax']}), expected [0,{float(ln)}]"))
            wantnames = ["w", "o", "p"] if flag is True else [flag]
            if [t["name"] for t in dec["tiers"]] != wantnames:
                viols.append(Viol("split-tg-tiers", f"{tag}: cropped TextGrid has tiers {[t['name'] for t in dec['tiers']]}, expected {wantnames}"))
                continue
            mode = "strict" if npi else "truncated"
            for t in dec["tiers"]:
                src = {"w": E, "o": O, "p": P}[t["name"]]
                fe = ival.fentries(src)
                if t["name"] == "p":
                    exp, _, _ = ival.crop_points(fe, F(E[i][0]), F(E[i][1]), True)
                else:
                    exp, _, _ = ival.crop_intervals(fe, F(E[i][0]), F(E[i][1]), mode, True)
                got = [e for e in t["entries"] if e[-1] != ""]
                m = ival.compare_entries([tuple(float(v) for v in e[:-1]) + (e[-1],) for e in got], exp, False,
                                         f"cropped TextGrid tier {t['name']!r}")
                if m:
                    viols.append(Viol("split-tg-content", f"{tag}: interval {i} ({a},{b}): {m}"))
            if "w" in wantnames:
                wt = [t for t in dec["tiers"] if t["name"] == "w"][0]
                if label not in [e[-1] for e in wt["entries"]]:
                    viols.append(Viol("split-tg-label", f"{tag}: the cropped TextGrid does not contain the entry's label {label!r}: {wt['entries']}"))
    shutil.rmtree(od, ignore_errors=True)
    return 1, "ok", (len(ivs), oi, pi, flag, npi, ns), viols


def parts(tier):
    quick = tier == "quick"
    sets = [s for s in D.interval_sets(GRIDPOS, 3)]
    combos = [(w, r) for w in (1, 2, 4) for r in (8, 8000)]

    def gen_read():
        for width, rate in combos:
            for ivs in sets:
                for off in (False, True):
                    if off and any(b - a < 1 for a, b in ivs):
                        continue
                    for kind in ("keep", "delete"):
                        for repl in (None, "silence", "sine"):
                            yield (width, rate, ivs, off, kind, repl)
        # TOUCHING stretches whose shared boundary lies off the sample grid, each boundary with a sub-sample phase of its own (0.4, 2.8, 6.0 ...):
        # where one stretch ends in samples and where the next begins are two roundings, not one
        mixed = [((F(2, 5), F(14, 5)), (F(14, 5), F(6))), ((F(8, 5), F(17, 5)), (F(17, 5), F(36, 5))), ((F(1, 2), F(5, 2)), (F(5, 2), F(9, 2)), (F(9, 2), F(8))),
                 ((F(11, 5), F(23, 5)), (F(23, 5), F(99, 10))), ((F(0), F(13, 5)), (F(13, 5), F(12)))]
        for width, rate in combos[:2] + combos[3:4]:
            for ivs in mixed:
                for kind in ("keep", "delete"):
                    for repl in (None, "silence"):
                        yield (width, rate, ivs, "as-given", kind, repl)
        # a replacement generator with a memory (numbered output): every dropped stretch gets the audio generated for it, in order
        for width, rate in combos:
            for ivs in sets:
                for kind in ("keep", "delete"):
                    yield (width, rate, ivs, False, kind, "numbered")
                    yield (width, rate, ivs, False, kind, "room-tone")
        # the same intervals handed over as a tuple, as lists, as a one-shot iterator and as a generator
        for width, rate in combos[:1] + combos[3:4]:
            for ivs in sets:
                if not ivs:
                    continue
                for kind in ("keep", "delete"):
                    for repl in (None, "silence"):
                        for form in ("tuple", "lists", "iter", "gen"):
                            yield (width, rate, ivs, False, kind, repl, form)
        # the same intervals listed out of time order: the result is still the kept stretches in time order
        for width, rate in combos[:2] + combos[3:4]:
            for ivs in sets:
                if len(ivs) < 2:
                    continue
                for kind in ("keep", "delete"):
                    for repl in (None, "silence", "sine"):
                        for order in (("desc",) if len(ivs) == 2 else ("desc", "rot")):
                            yield (width, rate, ivs, False, kind, repl, order)

    def gen_rej():
        for width, rate in combos:
            for which in ("both", "keep-beyond", "delete-beyond", "delete-beyond-by-one-sample", "keep-beyond-not-listed-last",
                          "delete-beyond-not-listed-last"):
                yield (width, rate, which)

    def gen_extract():
        for width, rate in combos:
            step = 1 if not quick else 1
            for a3 in range(0, 3 * N, step):
                for b3 in range(a3 + 3, 3 * N + 1, step):
                    if quick and (a3 % 3 and b3 % 3 and (a3 + b3) % 2):
                        continue
                    yield (width, rate, a3, b3)

    def gen_gen():
        for width in (1, 2, 4):
            for rate in (8, 8000, 16000, 44100):
                for dur in (0, 0.1, 0.33, 1 / 3, 0.5, 1.0001, 2 / 7, 0.0625, 0.00011337868480725624):
                    yield (width, rate, dur)

    def gen_split():
        nonempty = [s for s in sets if s]
        for width, rate in ([(2, 8)] if quick else [(2, 8), (1, 8000), (4, 8)]):
            for ivs in (nonempty if not quick else nonempty[::2]):
                for oi in range(len(OTHERS)):
                    for pi in range(len(PTS)):
                        for flag in (False, True, "o", "w"):
                            for npi in (False, True):
                                for ns in (None, "append", "append_no_i", "label"):
                                    if quick and flag is False and (oi or pi or npi):
                                        continue
                                    yield (width, rate, ivs, oi, pi, flag, npi, ns)
                                    if ns is None and all(b - a >= 2 for a, b in ivs):
                                        yield (width, rate, ivs, oi, pi, flag, npi, ns, True)
        # dots in file names, labels and the output directory
        for ivs in nonempty[::3]:
            for flag in (False, True, "w"):
                for ns in (None, "append", "append_no_i", "label"):
                    yield (2, 8, ivs, 0, 0, flag, False, ns, False, None, True)
        # labels that differ only by Unicode normalisation form: one file per entry, named exactly after its label
        for ivs in nonempty:
            if len(ivs) >= 2:
                for flag in (False, True):
                    for ns in ("append", "append_no_i", "label"):
                        yield (2, 8, ivs, 0, 0, flag, False, ns, False, None, "unicode")
        # the size axis: 9 .. 101 target entries (file numbering with one, two and three digits) on a longer recording
        for k in (9, 10, 11, 12, 100, 101):
            ivs = tuple((3 * i, 3 * i + 2) for i in range(k))
            for flag in (False, True):
                for ns in (None, "append", "append_no_i", "label"):
                    yield (2, 8, ivs, 0, 0, flag, False, ns, False, 3 * k + 4)

    def gen_reuse():
        small = [x for x in sets if x and len(x) <= 2]
        for width, rate in ((2, 8), (1, 8000)):
            for fi in small[:: 3 if quick else 1]:
                for se in small:
                    for k1, k2 in (("keep", "keep"), ("keep", "delete"), ("delete", "keep")):
                        yield (width, rate, (k1, fi, False), (k2, se, k2 == "delete"), "reader")
            for fi in small:
                if len(fi) == 1:
                    for se in small:
                        if len(se) == 1:
                            yield (width, rate, ("keep", fi, False), ("keep", se, False), "querywav")

    return [
        InputPart("reader-reuse", gen_reuse, _check_reuse,
                  rule="all ordered pairs of interval lists read one after the other through ONE open wave reader / QueryWav: the second "
                       "result must equal what a fresh reader returns (position state must not leak between calls)", bounds={}),
        InputPart("readFramesAtTimes", gen_read, _check_read,
                  rule="12-sample recordings x %d (width, rate) pairs x all lists of <=3 disjoint intervals on sample positions %s "
                       "(on the grid and moved off it by 1/3 sample) x keep/delete x {no replacement, silence, sine}; on-grid: exact "
                       "samples, original length and positions with replacement; off-grid: contiguous runs whose ends are floor or ceil "
                       "of the exact positions; lists of 2-3 intervals also in descending / rotated listing order (same result as in time order)" % (len(combos), GRIDPOS),
                  bounds={"recording_samples": N, "max_intervals": 3}),
        InputPart("splitAudioOnTier-silence-label", lambda: ((w_, r_, sil, ns) for w_, r_ in ((2, 8), (1, 8000)) for sil in ("sil", "s", "a", "x", "SIL", "")
                                                           for ns in (None, "append", "label")), _check_split_silence,
                  rule="a tier whose entries are labelled %s x silenceLabel in {sil, s, a, x, SIL, ''} x 3 name styles: exactly the entries whose label equals the "
                       "silence label are left out; every written file holds its entry's samples" % (SIL_LABELS,), bounds={}),
        InputPart("two-channel-recordings", lambda: ((w_, r_, ivs, k) for w_ in (1, 2, 4) for r_ in (8, 8000)
                                                 for ivs in ((), ((0, 12),), ((2, 5),), ((0, 3), (3, 7)), ((1, 2), (6, 12))) for k in ("keep", "delete")), _check_stereo,
                  rule="2-channel recordings of 12 frames (widths 1 / 2 / 4, 2 rates) read through an open wave reader x 5 interval lists on frame positions x "
                       "keep / delete: exactly the interleaved frames of the kept stretches", bounds={}),
        InputPart("long-recordings", lambda: _large_cases(quick), _check_large,
                  rule="recordings of 70000 samples (thorough also 5000, 140000; widths 1/2/4) x 7 interval lists on sample positions whose kept or dropped "
                       "stretches are longer than 2**16 samples (whole file, all but the edges, halves, a long tail) x keep/delete x {none, silence}; "
                       "extractSubwav and QueryWav.getSamples over the same stretches: exact samples", bounds={"samples": 70000}, chunk=1),
        InputPart("source-file-rewritten", lambda: ((v, a, b) for v in ("same-shape", "longer", "shorter", "other-width-rate") for a in (0, 2, 5) for b in (6, 12, 18)),
                  _check_rewritten,
                  rule="one file name holding recording A, then B (same shape / longer / shorter / other width and rate), then A again; extractSubwav and "
                       "getDuration after each rewrite return what the file holds now", bounds={}),
        InputPart("rejections", gen_rej, _check_rejects,
                  rule="both lists at once / times beyond the recording must raise ArgumentError", bounds={}),
        InputPart("extractSubwav", gen_extract, _check_extract,
                  rule="all (a, b) in thirds of a sample: the written file (independent RIFF reader) holds exactly the source samples "
                       "of the interval with the source's parameters", bounds={}),
        InputPart("generators", gen_gen, _check_gen,
                  rule="widths x rates x durations: generated silence and sine have round(rate x duration) samples with the documented "
                       "values", bounds={}),
        InputPart("splitAudioOnTier", gen_split, _check_split,
                  rule="target tiers (all non-empty interval lists) x secondary interval tier {no entries, elsewhere, partial, two, full} x "
                       "point tier x outputTGFlag {False, True, 'o', 'w'} x noPartialIntervals x 4 nameStyles, on real files: one wav per "
                       "entry with exactly the interval's samples and the source's parameters, returned list, file names, cropped "
                       "TextGrids decoded independently: span [0, length], tiers, cropped content, the entry's label",
                  bounds={}, chunk=8),
    ]
