"""Reporting modes.

Every operation that takes a reportingMode ('silence' | 'warning' | 'error') describes ONE event per call site ("the span changed",
"an entry left the span", "the textgrid is inconsistent") and three ways of telling the caller.  Whatever the event is, the three
modes are bound to each other by relations that need no model of the operation:

  R1  'silence' prints nothing and does not raise because of the event;
  R2  'warning' returns / leaves exactly what 'silence' does (the report is the only difference);
  R3  'warning' prints something  <=>  'error' raises  (the same event decides both);
  R4  when 'error' does not raise it prints nothing and returns / leaves exactly what 'silence' does;
  R5  for operations that report about ONE object state (addTier, replaceTier, validate, save, open, a collision): a 'warning' run
      prints no line twice.  (Not applied to editTimestamps: it reports per entry, and entries of different tiers, or two points at
      one time, legitimately give the same line.)

Each row runs one operation on a freshly built small fixture in the three modes (two for collisionReportingMode, which has no
'error'), on fixtures where the event happens and on fixtures where it does not.  Part of every property whose statement mentions
reports or whose operations take a reporting mode.
"""
import io
import os

from mc.engine import InputPart, Viol
from mc.props.common import IT, PT, Textgrid, call, canon, snap_tg, scratch_dir, constants, fresh
from praatio import textgrid as tgmod

Interval = constants.Interval
Point = constants.Point


def _canon(r):
    if isinstance(r, Textgrid):
        return ("tg",) + tuple(snap_tg(r))
    if hasattr(r, "entries") and hasattr(r, "tierType"):
        return ("tier",) + tuple(canon(r))
    if isinstance(r, (list, tuple)):
        return tuple(_canon(x) for x in r)
    return repr(r)


def _iv(entries=((0.0, 1.0, "a"), (1.0, 2.0, "b"), (3.0, 4.0, "c")), name="t", lo=0.0, hi=5.0):
    return IT(name, list(entries), lo, hi)


def _pt(entries=((0.5, "x"), (1.0, "y"), (3.0, "z")), name="p", lo=0.0, hi=5.0):
    return PT(name, list(entries), lo, hi)


def _tg(extra=None):
    tg = Textgrid(0.0, 5.0)
    tg.addTier(_iv())
    tg.addTier(_pt())
    if extra is not None:
        tg.addTier(extra, reportingMode="silence")
        tg.minTimestamp, tg.maxTimestamp = 0.0, 5.0
    return tg


def _bytes(fn):
    with io.open(fn, "rb") as fd:
        return fd.read()


def table():
    T = []

    def add(props, what, f, modes=("silence", "warning", "error")):
        for p in props:
            T.append((p, what, f, modes))


    # --- Textgrid.addTier / replaceTier: the event is "the textgrid's span changed"
    for lo, hi in ((0.0, 5.0), (0.0, 6.0), (-1.0, 5.0), (-1.0, 6.0), (1.0, 4.0)):
        def f_add(mode, lo=lo, hi=hi):
            tg = _tg()
            tg.addTier(IT("n", [(1.0, 2.0, "q")], lo, hi), None, mode)
            return _canon(tg)
        add(("C12", "C13"), f"Textgrid.addTier(tier spanning [{lo}, {hi}]) into a textgrid spanning [0, 5]", f_add)

        def f_addp(mode, lo=lo, hi=hi):
            tg = _tg()
            tg.addTier(PT("n", [(1.0, "q")], lo, hi), 0, mode)
            return _canon(tg)
        add(("C12",), f"Textgrid.addTier(point tier spanning [{lo}, {hi}], 0) into a textgrid spanning [0, 5]", f_addp)

        def f_rep(mode, lo=lo, hi=hi):
            tg = _tg()
            tg.replaceTier("t", IT("n", [(1.0, 2.0, "q")], lo, hi), mode)
            return _canon(tg)
        add(("C12", "C13"), f"Textgrid.replaceTier('t', tier spanning [{lo}, {hi}]) in a textgrid spanning [0, 5]", f_rep)
    for half in ((None, 5.0), (0.0, None), (None, None)):
        def f_addh(mode, half=half):
            tg = Textgrid(*half)
            tg.addTier(IT("n", [(1.0, 2.0, "q")], 0.5, 4.0), None, mode)
            tg.addTier(PT("m", [(1.0, "q")], 0.0, 6.0), None, mode)
            return _canon(tg)
        add(("C12",), f"Textgrid{half}: addTier of a narrower, then of a wider tier", f_addh)

    # --- editTimestamps: the event is "an entry left the old span"
    for off in (-6.0, -1.5, -0.5, 0.0, 0.5, 1.0, 1.5, 6.0):
        add(("C09", "C13"), f"IntervalTier.editTimestamps({off})", lambda mode, off=off: _canon(_iv().editTimestamps(off, mode)))
        add(("C09",), f"PointTier.editTimestamps({off})", lambda mode, off=off: _canon(_pt().editTimestamps(off, mode)))
        add(("C09",), f"Textgrid.editTimestamps({off})", lambda mode, off=off: _canon(_tg().editTimestamps(off, mode)))
        add(("C09",), f"IntervalTier.editTimestamps({off}) [entries strictly inside the span]",
            lambda mode, off=off: _canon(_iv(((1.0, 2.0, "a"), (3.0, 4.0, "b"))).editTimestamps(off, mode)))
        add(("C09",), f"PointTier.editTimestamps({off}) [empty tier]", lambda mode, off=off: _canon(_pt(()).editTimestamps(off, mode)))

    # --- validate: the event is "the object is inconsistent" (some fixtures reach into the private entry list; if that attribute is ever
    #     renamed they silently stay consistent, which the relations below - they never say WHICH fixtures are inconsistent - tolerate)
    def broken_iv(which):
        t = _iv()
        if which == "outside":
            t.maxTimestamp = 3.5
        elif which == "overlap":
            t._entries = [Interval(0.0, 1.5, "a"), Interval(1.0, 2.0, "b")]
        elif which == "order":
            t._entries = [Interval(3.0, 4.0, "c"), Interval(0.0, 1.0, "a")]
        elif which == "min>max":
            t.minTimestamp, t.maxTimestamp = 5.0, 0.0
        return t

    def broken_pt(which):
        t = _pt()
        if which == "outside":
            t.maxTimestamp = 2.0
        elif which == "order":
            t._entries = [Point(3.0, "z"), Point(0.5, "x")]
        elif which == "before":
            t.minTimestamp = 0.75
        return t
    for which in ("fine", "outside", "overlap", "order", "min>max"):
        add(("C15",), f"IntervalTier.validate() [{which}]", lambda mode, which=which: repr(broken_iv(which).validate(mode)))
    for which in ("fine", "outside", "order", "before"):
        add(("C15",), f"PointTier.validate() [{which}]", lambda mode, which=which: repr(broken_pt(which).validate(mode)))

    def tg_variant(which):
        tg = _tg()
        if which == "narrow-tier":
            tg.tiers[0].maxTimestamp = 4.5
        elif which == "wide-tier":
            tg.tiers[1].maxTimestamp = 6.0
        elif which == "late-tier":
            tg.tiers[1].minTimestamp = 0.25
        elif which == "broken-tier":
            tg.tiers[0]._entries = [Interval(0.0, 1.5, "a"), Interval(1.0, 2.0, "b")]
        elif which == "two-problems":
            tg.tiers[0].maxTimestamp = 4.5
            tg.tiers[1].minTimestamp = 0.25
        return tg
    TGV = ("fine", "narrow-tier", "wide-tier", "late-tier", "broken-tier", "two-problems")
    for which in TGV:
        add(("C15", "C12"), f"Textgrid.validate() [{which}]", lambda mode, which=which: repr(tg_variant(which).validate(mode)))

    # --- save / open: the event is "validate() says the textgrid is inconsistent"
    for fmt in ("short_textgrid", "long_textgrid", "json", "textgrid_json"):
        for which in TGV:
            def f_save(mode, fmt=fmt, which=which):
                fn = os.path.join(scratch_dir(), f"reports-{mode}.out")
                if os.path.exists(fn):
                    os.remove(fn)
                try:
                    tg_variant(which).save(fn, fmt, True, None, None, 1e-8, mode)
                finally:
                    data = _bytes(fn) if os.path.exists(fn) else None
                return data
            add(("C01", "C02", "C04", "C13"), f"Textgrid.save({fmt}) [{which}]", f_save)
    for fmt in ("short_textgrid", "long_textgrid", "json", "textgrid_json"):
        for which in ("fine", "narrow-tier", "wide-tier", "late-tier"):
            def f_open(mode, fmt=fmt, which=which):
                fn = os.path.join(scratch_dir(), "reports-open.in")
                tg_variant(which).save(fn, fmt, True, None, None, 1e-8, "silence")
                return _canon(tgmod.openTextgrid(fn, False, mode, "error"))
            add(("C01", "C03"), f"openTextgrid({fmt}) [{which}]", f_open)

    # --- collision reporting of insertEntry: 'silence' | 'warning' only
    for cmode in ("replace", "merge", "error"):
        for e in ((0.5, 1.5, "n"), (2.0, 3.0, "n"), (2.5, 3.5, "n"), (0.0, 5.0, "n"), (4.0, 6.0, "n")):
            def f_ins(mode, cmode=cmode, e=e):
                t = _iv()
                t.insertEntry(Interval(*e), fresh(cmode), mode)
                return _canon(t)
            add(("C05", "C11"), f"IntervalTier.insertEntry({e}, {cmode!r})", f_ins, ("silence", "warning"))
        for e in ((1.0, "n"), (2.0, "n"), (6.0, "n")):
            def f_insp(mode, cmode=cmode, e=e):
                t = _pt()
                t.insertEntry(Point(*e), fresh(cmode), mode)
                return _canon(t)
            add(("C05", "C11"), f"PointTier.insertEntry({e}, {cmode!r})", f_insp, ("silence", "warning"))
    return T


_TABLE = None


def _rows(prop):
    global _TABLE
    if _TABLE is None:
        _TABLE = table()
    return [r for r in _TABLE if r[0] == prop]


def _check(case):
    prop, idx = case
    _, what, f, modes = _rows(prop)[idx]
    res = {}
    for m in modes:
        st, r, out = call(f, fresh(m))
        res[m] = (st, r if st == "ok" else type(r).__name__, out)
    viols = []
    s, w = res["silence"], res["warning"]
    if s[2]:
        viols.append(Viol("silence-prints", f"{what}: printed {s[2]!r} in 'silence' mode"))
    if (s[0], s[1]) != (w[0], w[1]):
        viols.append(Viol("warning-changes-the-outcome", f"{what}: 'silence' gives {s[:2]!r}, 'warning' gives {w[:2]!r}"))
    lines = [x for x in w[2].split("\n") if x]
    if len(lines) != len(set(lines)) and "editTimestamps" not in what:
        viols.append(Viol("reported-twice", f"{what}: 'warning' printed {w[2]!r}"))
    # the process has no standard output at all (sys.stdout is None: pythonw.exe, a windowed frozen application, a detached service); print()
    # is then a documented no-op, so a 'warning' run does what the 'silence' run does
    import sys
    saved = sys.stdout
    sys.stdout = None
    try:
        try:
            n_ = ("ok", f(fresh("warning")))
        except Exception as e:  # noqa
            n_ = ("exc", type(e).__name__)
    finally:
        sys.stdout = saved
    if n_ != (s[0], s[1]):
        viols.append(Viol("warning-needs-a-stdout", f"{what}: with sys.stdout = None (no console) the 'warning' run gives {n_!r}, with a console {w[:2]!r}"))
    outcome = "reported" if w[2] else "quiet"
    if "error" in modes:
        e = res["error"]
        raised = e[0] == "exc" and s[0] == "ok"
        if raised != bool(w[2]):
            viols.append(Viol("warning-and-error-disagree", f"{what}: 'warning' printed {w[2]!r} but 'error' gave {e[:2]!r} ('silence': {s[0]})"))
        if e[2]:
            viols.append(Viol("error-prints", f"{what}: printed {e[2]!r} in 'error' mode"))
        if not raised and (e[0], e[1]) != (s[0], s[1]):
            viols.append(Viol("error-changes-the-outcome", f"{what}: 'silence' gives {s[:2]!r}, 'error' (not raising for the event) gives {e[:2]!r}"))
        if raised:
            outcome += ":" + e[1]
    return len(modes), outcome, (prop, what, outcome), viols


def part(prop):
    n = len(_rows(prop))
    if not n:
        return None
    return InputPart("reporting-modes", lambda: ((prop, i) for i in range(n)), _check,
                     rule="for every operation of this property that takes a reporting mode, on small fixtures where the reported event "
                          "happens and where it does not (%d rows): 'silence' prints nothing; 'warning' returns / leaves exactly what "
                          "'silence' does; 'warning' prints <=> 'error' raises; a non-raising 'error' run equals the 'silence' run; no "
                          "message is printed twice; with sys.stdout = None (a process without console) the 'warning' run equals the 'silence' run" % n,
                     bounds={"rows": n}, chunk=1)
