"""C16 - in-memory audio edits are sample-exact and sample-aligned.

Explicit-state BFS over Wav edit histories {insert, deleteSegment, replaceSegment, concatenate, getSubwav} from a
6-sample recording for every (sample width, frame rate); times = every sample boundary plus offsets of 1/3, 1/2 and 3/4
of a sample (annotation times are essentially never on a sample boundary).  A list-of-samples model with
index = nearest integer to t*rate in EXACT rationals is compared after every transition; getFrames / getSamples /
duration / byte conversion are checked in every state; insert-then-delete identity; save -> independent RIFF reader ->
Wav.open / QueryWav.
"""
import math
import os

from mc.engine import BfsPart, InputPart, Viol
from mc.models import wavmodel as W
from mc.props.common import call, scratch_dir
from praatio import audio

MARK = (-1, -2)
LENCAP = 10


def mkwav(samples, width, rate):
    return audio.Wav(W.pack(samples, width), [1, width, rate, len(samples), "NONE", "not compressed"])


def times(rate, n):
    ts = set()
    for k in range(n + 1):
        ts.add(k / rate)
    for k in range(n):
        ts.add((k + 1 / 3) / rate)
        ts.add((k + 0.5) / rate)
        ts.add((k + 0.75) / rate)
    dur = n / rate
    return sorted(t for t in ts if 0 <= t <= dur)


def _ops(state):
    width, rate, samples = state
    T = times(rate, len(samples))
    yield ("query",)
    yield ("cat",)
    for t in T:
        yield ("ins", t)
        yield ("insdel", t)
    for i, t0 in enumerate(T):
        for t1 in T[i:]:
            yield ("del", t0, t1)
            yield ("rep", t0, t1)
            yield ("sub", t0, t1)


def _clamp(i, n):
    return min(max(i, 0), n)


def _step(state, op, w=None):
    width, rate, samples = state
    s = list(samples)
    n = len(s)
    if w is None:
        w = mkwav(s, width, rate)
    k = op[0]
    tag = f"{op} on width={width} rate={rate} samples={s}"
    if k == "query":
        return _query(state, w, tag)
    if k == "cat":
        st, r, _ = call(w.concatenate, W.pack(MARK, width))
        got = W.unpack(w.frames, width)
        if st == "exc" or got != s + list(MARK):
            return None, 1, "!", None, [Viol("concatenate", f"{tag}: {st} {r!r} -> {got}")]
        return (width, rate, tuple(got)), 1, "cat", None, []
    if k == "ins":
        st, r, _ = call(w.insert, op[1], W.pack(MARK, width))
        if st == "exc" or len(w.frames) % width:
            return None, 1, "!", None, [Viol("insert-misaligned", f"{tag}: {st} {r!r}; {len(w.frames)} bytes")]
        got = W.unpack(w.frames, width)
        for i in W.indices(op[1], rate):
            i = _clamp(i, n)
            if got == s[:i] + list(MARK) + s[i:]:
                return (width, rate, tuple(got)), 1, "ins", ("ins", W.is_tie(op[1], rate), float(op[1] * rate).is_integer()), []
        return None, 1, "!", None, [Viol("insert", f"{tag}: got {got}; the frames must be placed at the sample boundary nearest "
                                                   f"to t*rate={op[1] * rate!r} with every other sample unchanged")]
    if k == "insdel":
        t = op[1]
        call(w.insert, t, W.pack(MARK, width))
        t2 = t + len(MARK) / rate
        if W.is_tie(t, rate) or W.is_tie(t2, rate):
            return None, 1, "insdel-tie", None, []
        st, r, _ = call(w.deleteSegment, t, t2)
        got = W.unpack(w.frames, width) if len(w.frames) % width == 0 else None
        if st == "exc" or got != s:
            return None, 2, "!", None, [Viol("insert-then-delete", f"{tag}: inserting 2 samples at {t!r} and deleting ({t!r},{t2!r}) gives {got}")]
        return None, 2, "insdel", None, []
    t0, t1 = op[1], op[2]
    if k == "del":
        st, r, _ = call(w.deleteSegment, t0, t1)
    elif k == "rep":
        st, r, _ = call(w.replaceSegment, t0, t1, W.pack(MARK, width))
    else:
        st, r, _ = call(w.getSubwav, t0, t1)
    if st == "exc":
        return None, 1, "!", None, [Viol(k + "-raised:" + type(r).__name__, f"{tag}: {r!r}")]
    frames = r.frames if k == "sub" else w.frames
    if len(frames) % width:
        return None, 1, "!", None, [Viol(k + "-misaligned", f"{tag}: result has {len(frames)} bytes, not a whole number of {width}-byte samples")]
    got = W.unpack(frames, width)
    if k == "sub":
        if W.unpack(w.frames, width) != s:
            return None, 1, "!", None, [Viol("getSubwav-mutated", f"{tag}: receiver changed")]
        if (r.sampleWidth, r.frameRate) != (width, rate):
            return None, 1, "!", None, [Viol("getSubwav-params", f"{tag}: params {r.params}")]
    for i in W.indices(t0, rate):
        i = _clamp(i, n)
        for j in W.indices(t1, rate):
            j = _clamp(j, n)
            if j < i:
                continue
            exp = s[:i] + s[j:] if k == "del" else (s[:i] + list(MARK) + s[j:] if k == "rep" else s[i:j])
            if got == exp:
                ongrid = float(t0 * rate).is_integer() and float(t1 * rate).is_integer()
                return (width, rate, tuple(got)), 1, k, (k, ongrid, j - i == 0, W.is_tie(t0, rate) or W.is_tie(t1, rate)), []
    return None, 1, "!", None, [Viol(k, f"{tag}: got {got}; expected the operation to act on the samples between the indices nearest to "
                                        f"t0*rate={t0 * rate!r} and t1*rate={t1 * rate!r}")]


def _query(state, w, tag):
    width, rate, samples = state
    s = list(samples)
    n = len(s)
    viols = []
    cnt = 1
    if not math.isclose(w.duration, n / rate, rel_tol=1e-12, abs_tol=0.0):
        viols.append(Viol("duration", f"{tag}: duration {w.duration!r} != {n}/{rate}"))
    if list(audio.convertFromBytes(audio.convertToBytes(tuple(s), width), width)) != s:
        viols.append(Viol("byte-conversion", f"{tag}: convertFromBytes(convertToBytes(x)) != x"))
    T = times(rate, n)
    for a, t0 in enumerate(T):
        for t1 in T[a:]:
            cnt += 2
            st, got, _ = call(w.getSamples, t0, t1)
            st2, fr, _ = call(w.getFrames, t0, t1)
            if st == "exc" or st2 == "exc":
                viols.append(Viol("getSamples-raised", f"{tag}: getSamples/getFrames({t0!r},{t1!r}) raised {got!r} / {fr!r}"))
                continue
            ok = False
            for i in W.indices(t0, rate):
                for j in W.indices(t1, rate):
                    i2, j2 = _clamp(i, n), _clamp(j, n)
                    if list(got) == s[i2:j2] and fr == W.pack(s[i2:j2], width):
                        ok = True
            if not ok:
                viols.append(Viol("getSamples", f"{tag}: getSamples({t0!r},{t1!r}) = {list(got)}; expected the samples between the indices "
                                                f"nearest to {t0 * rate!r} and {t1 * rate!r}"))
                if len(viols) > 3:
                    break
        if len(viols) > 3:
            break
    if W.unpack(w.frames, width) != s:
        viols.append(Viol("query-mutated", f"{tag}: queries changed the recording"))
    return None, cnt, "query", None, viols


def _check_live(case):
    """op1 then every op2 on ONE live Wav object (a cached duration / index would survive the first edit)"""
    state0, op1 = case
    w0 = mkwav(list(state0[2]), state0[0], state0[1])
    _step(state0, op1, w=w0)
    if len(w0.frames) % state0[0]:
        return 1, "misaligned", None, []  # reported by the BFS part
    state1 = (state0[0], state0[1], tuple(W.unpack(w0.frames, state0[0])))
    viols = []
    n = 0
    for op2 in _ops(state1):
        if op2[0] in ("del", "rep", "sub") and ((op2[1] * state1[1]) % 1 or (op2[2] * state1[1]) % 1) and op2[1] != op2[2]:
            continue  # keep the live pass affordable: both ends on sample positions, or an empty stretch
        w = mkwav(list(state0[2]), state0[0], state0[1])
        _step(state0, op1, w=w)
        succ, k, o, nt, v = _step(state1, op2, w=w)
        n += 1 + k
        if not v and len(w.frames) % state1[0] == 0:
            # third step: the live object must still answer queries from its CURRENT content (prime - edit - query)
            cur = W.unpack(w.frames, state1[0])
            st3, got3, _ = call(w.getSamples, 0, len(cur) / state1[1])
            n += 1
            if st3 == "exc" or list(got3) != cur or not math.isclose(w.duration, len(cur) / state1[1], rel_tol=1e-12):
                v = [Viol("stale-query", f"then {op2}: getSamples(0, duration) = {got3!r} but the recording now holds {cur} "
                                         f"(duration {w.duration!r})")]
        if v:
            for x in v:
                x["msg"] = f"after {op1} on a live Wav: " + x["msg"]
            viols.extend(v)
            break
    return n, "ok", (op1[0], state0[0], state0[1]), viols


def _prune(state):
    return len(state[2]) > LENCAP


# ------------------------------------------------------------------ files
def _check_file(case):
    width, rate, samples = case
    s = list(samples)
    n = len(s)
    d = scratch_dir()
    fn = os.path.join(d, "c16.wav")
    viols = []
    cnt = 0
    w = mkwav(s, width, rate)
    st, r, _ = call(w.save, fn)
    cnt += 1
    if st == "exc":
        return 1, "X", None, [Viol("save-raised:" + type(r).__name__, f"Wav.save width={width} rate={rate} {s}: {r!r}")]
    try:
        info = W.read_riff(fn)
    except Exception as e:
        return 1, "X", None, [Viol("riff-unreadable", f"saved wav is not readable by the independent RIFF reader: {e!r}")]
    tag = f"width={width} rate={rate} samples={s}"
    if (info["channels"], info["width"], info["rate"], info["samples"]) != (1, width, rate, s):
        viols.append(Viol("saved-file-content", f"{tag}: file holds {info}"))
    if info["declared_data_bytes"] != n * width or info["actual_data_bytes"] != n * width:
        viols.append(Viol("saved-file-sizes", f"{tag}: data chunk declares {info['declared_data_bytes']} bytes, holds {info['actual_data_bytes']}, expected {n * width}"))
    # a file written by the independent writer, opened by Wav.open and QueryWav
    fn2 = os.path.join(d, "c16b.wav")
    W.write_riff(fn2, s, width, rate)
    for path, what in ((fn, "praatio-written"), (fn2, "independently written")):
        cnt += 1
        st, w2, _ = call(audio.Wav.open, path)
        if st == "exc":
            viols.append(Viol("open-raised:" + type(w2).__name__, f"Wav.open of the {what} file ({tag}): {w2!r}"))
            continue
        if W.unpack(w2.frames, width) != s or (w2.nchannels, w2.sampleWidth, w2.frameRate) != (1, width, rate):
            viols.append(Viol("open-content", f"Wav.open of the {what} file ({tag}) gives {W.unpack(w2.frames, width)} {w2.params}"))
        if not math.isclose(w2.duration, n / rate, rel_tol=1e-12):
            viols.append(Viol("open-duration", f"{tag}: duration {w2.duration!r}"))
        st, q, _ = call(audio.QueryWav, path)
        if st == "exc":
            viols.append(Viol("querywav-raised:" + type(q).__name__, f"QueryWav({what}) ({tag}): {q!r}"))
            continue
        if (q.sampleWidth, q.frameRate, q.nframes) != (width, rate, n) or q.duration != n / rate:  # exactly n / rate, not a number one ulp away
            viols.append(Viol("querywav-params", f"{tag}: QueryWav params {q.params}"))
        T = times(rate, n)
        for a, t0 in enumerate(T):
            for t1 in T[a:]:
                cnt += 1
                st, got, _ = call(q.getSamples, t0, t1)
                if st == "exc":
                    viols.append(Viol("querywav-getSamples-raised", f"{tag}: QueryWav.getSamples({t0!r},{t1!r}): {got!r}"))
                    break
                # QueryWav reads round(rate*(t1-t0)) frames from position round(rate*t0): a contiguous run that starts at
                # the sample nearest to t0 and whose length is the nearest integer to the stretch's length
                ok = False
                for i in W.indices(t0, rate):
                    for ln in W.indices(W.F(t1) - W.F(t0), rate) + W.indices(t1 - t0, rate):
                        i2 = _clamp(i, n)
                        if list(got) == s[i2:i2 + max(ln, 0)]:
                            ok = True
                    for j in W.indices(t1, rate):  # ... or ends at the sample nearest to t1, like Wav does
                        if list(got) == s[_clamp(i, n):_clamp(j, n)]:
                            ok = True
                if not ok:
                    viols.append(Viol("querywav-getSamples", f"{tag}: QueryWav.getSamples({t0!r},{t1!r}) = {list(got)}"))
                    break
            if len(viols) > 2:
                break
        # arguments left at their defaults: getFrames(t) / getFrames(startTime=t) read to the end, getFrames(None, t) /
        # getFrames(endTime=t) from the beginning, getFrames() everything
        for t0 in T:
            for how, thunk, lo_t, hi_t in (("getFrames(%r)" % t0, lambda: q.getFrames(t0), t0, None),
                                           ("getFrames(startTime=%r)" % t0, lambda: q.getFrames(startTime=t0), t0, None),
                                           ("getFrames(None, %r)" % t0, lambda: q.getFrames(None, t0), None, t0),
                                           ("getFrames(endTime=%r)" % t0, lambda: q.getFrames(endTime=t0), None, t0),
                                           ("getSamples(%r, %r)" % (t0, n / rate), lambda: audio.convertToBytes(q.getSamples(t0, n / rate), width), t0, None),
                                           ("getFrames() [after other reads through this reader]", lambda: q.getFrames(), None, None)):
                cnt += 1
                st, fr, _ = call(thunk)
                if st == "exc":
                    viols.append(Viol("querywav-default-argument-raised", f"{tag}: QueryWav.{how}: {fr!r}"))
                    break
                got = W.unpack(fr, width) if len(fr) % width == 0 else None
                # the same latitude as for explicit times above (a run from the sample nearest to the start, ending at the sample
                # nearest to the end or having the nearest-integer length), with the defaulted time being 0 / the duration
                a_t, b_t = (0.0 if lo_t is None else lo_t), (n / rate if hi_t is None else hi_t)
                cands = []
                for i in W.indices(a_t, rate):
                    for j in W.indices(b_t, rate):
                        cands.append(s[_clamp(i, n):_clamp(j, n)])
                    for ln in W.indices(W.F(b_t) - W.F(a_t), rate) + W.indices(b_t - a_t, rate):
                        cands.append(s[_clamp(i, n):_clamp(i, n) + max(ln, 0)])
                if got not in cands:
                    viols.append(Viol("querywav-default-argument", f"{tag}: QueryWav.{how} = {got}, expected {cands[0]}"))
                    break
            if len(viols) > 2:
                break
        try:
            q.audiofile.close()
        except Exception:
            pass
    return cnt, "ok" if not viols else "!", (width, rate, n, min(s) if s else 0, max(s) if s else 0), viols


def _check_file_lengths(case):
    """every recording length at a rate: save -> open must return every sample (frame counts derived from float durations)"""
    width, rate, n = case
    s = [((i * 37) % 251) - 125 for i in range(n)] if width == 1 else [((i * 7919) % 65521) - 32760 for i in range(n)]
    big = n > 1000
    if big:
        s[-1] = 77  # distinct tail
    d = scratch_dir()
    fn = os.path.join(d, "c16-len.wav")
    viols = []
    w = mkwav(s, width, rate)
    st, r, _ = call(w.save, fn)
    if st == "exc":
        return 1, "X", None, [Viol("save-raised:" + type(r).__name__, f"width={width} rate={rate} n={n}: {r!r}")]
    info = W.read_riff(fn)
    if info["samples"] != s:
        viols.append(Viol("saved-file-content", f"width={width} rate={rate} n={n}: file holds {len(info['samples'])} samples"))
    st, w2, _ = call(audio.Wav.open, fn)
    if st == "exc":
        viols.append(Viol("open-raised:" + type(w2).__name__, f"width={width} rate={rate} n={n}: {w2!r}"))
    else:
        got = W.unpack(w2.frames, width)
        if got != s:
            viols.append(Viol("open-content", f"Wav.open after Wav.save, width={width} rate={rate}: {len(got)} of {n} samples came back "
                                              f"(tail saved {s[-3:]}, got {got[-3:]})"))
        if not math.isclose(w2.duration, n / rate, rel_tol=1e-12):
            viols.append(Viol("open-duration", f"width={width} rate={rate} n={n}: duration {w2.duration!r} != {n}/{rate}"))
    st, q, _ = call(audio.QueryWav, fn)
    if st == "ok":
        st, fr, _ = call(q.getFrames)
        if st == "exc" or W.unpack(fr, width) != s:
            viols.append(Viol("querywav-whole-file", f"QueryWav.getFrames() width={width} rate={rate} n={n} does not return the whole recording"))
        if (q.nframes, q.frameRate, q.sampleWidth) != (n, rate, width) or q.duration != n / rate:  # exactly n / rate, not a number one ulp away
            viols.append(Viol("querywav-params", f"width={width} rate={rate} n={n}: {q.params}"))
        try:
            q.audiofile.close()
        except Exception:
            pass
    else:
        viols.append(Viol("querywav-raised", f"width={width} rate={rate} n={n}: {q!r}"))
    # a QueryWav stands for the file it was built from: built from a RELATIVE name, it still does after the caller has moved on to another
    # working directory that holds another recording of the same name (a batch script stepping through session folders)
    here, base = os.path.split(fn)
    other = os.path.join(here, "next session")
    os.makedirs(other, exist_ok=True)
    W.write_riff(os.path.join(other, base), [(-x if x else 1) for x in s][::-1] + [0, 0], width, rate)
    old = os.getcwd()
    try:
        os.chdir(here)
        st, q, _ = call(audio.QueryWav, base)
        os.chdir(other)
        if st == "ok":
            st, fr, _ = call(q.getFrames)
            if st == "exc" or W.unpack(fr, width) != s:
                viols.append(Viol("querywav-follows-the-working-directory",
                                  f"QueryWav({base!r}) built in one directory, queried after os.chdir to a directory with another {base!r}: getFrames() gives "
                                  f"{fr if st == 'exc' else W.unpack(fr, width)[:8]!r}, the recording it was built from holds {s[:8]}"))
            try:
                q.audiofile.close()
            except Exception:
                pass
    finally:
        os.chdir(old)
        os.remove(os.path.join(other, base))
    return 5, "ok", (width, rate, n), viols


def _check_copy_independence(case):
    """new() / getSubwav() give objects that share nothing with their source: every edit of the copy leaves the source as it was and
    vice versa - also when the audio was handed over as a mutable bytes-like (bytearray)"""
    width, rate, smp, ftype, op = case
    raw = W.pack(list(smp), width)
    frames = bytearray(raw) if ftype == "bytearray" else (memoryview(raw).tobytes() if ftype == "bytes-copy" else raw)
    w = audio.Wav(frames, [1, width, rate, len(smp), "NONE", "not compressed"])
    viols = []
    n = 0
    for how in ("new", "subwav"):
        st, c, _ = call(w.new) if how == "new" else call(w.getSubwav, 0.0, len(smp) / rate)
        tag = f"Wav({ftype} of {list(smp)}, width {width}).{how}() then {op}"
        if st == "exc":
            viols.append(Viol("copy-raised:" + type(c).__name__, f"{tag}: {c!r}"))
            continue
        if c is w:
            viols.append(Viol("copy-is-source", tag))
            continue
        for target, other, who in ((c, w, "editing the copy changed the source"), (w, c, "editing the source changed the copy")):
            before = bytes(other.frames)
            k = op[0]
            if k == "cat":
                call(target.concatenate, W.pack(MARK, width))
            elif k == "ins":
                call(target.insert, op[1] / rate, W.pack(MARK, width))
            elif k == "del":
                call(target.deleteSegment, op[1] / rate, op[2] / rate)
            else:
                call(target.replaceSegment, op[1] / rate, op[2] / rate, W.pack(MARK, width))
            n += 1
            if bytes(other.frames) != before:
                viols.append(Viol("copy-shares-audio", f"{tag}: {who}: {W.unpack(before, width)} -> {W.unpack(bytes(other.frames), width)}"))
                break
    return n, "ok", (ftype, op[0]), viols


def _edit(target, op, width, rate):
    k = op[0]
    if k == "cat":
        return call(target.concatenate, W.pack(MARK, width))
    if k == "ins":
        return call(target.insert, op[1] / rate, W.pack(MARK, width))
    if k == "del":
        return call(target.deleteSegment, op[1] / rate, op[2] / rate)
    if k == "rep":
        return call(target.replaceSegment, op[1] / rate, op[2] / rate, W.pack(MARK, width))
    return None


def _check_shared_frames(case):
    """audio handed from one Wav to others (its frames attribute, a getFrames stretch, getSubwav().frames) after an edit: two recordings
    built from the same piece stay independent - editing one changes neither the other, nor the piece, nor the recording it came from"""
    width, rate, smp, op1, how, op2 = case
    w = audio.Wav(W.pack(list(smp), width), [1, width, rate, len(smp), "NONE", "not compressed"])
    _edit(w, op1, width, rate)
    n = len(w.frames) // width
    st, piece, _ = call(lambda: w.frames) if how == "frames" else call(w.getFrames, 1 / rate, (n - 1) / rate) if how == "getFrames" \
        else call(lambda: w.getSubwav(0.0, n / rate).frames)
    tag = f"Wav({list(smp)}, width {width}) after {op1}: piece = {how}; a = Wav(piece), b = Wav(piece); a.{op2}"
    if st == "exc":
        return 1, "X", None, [Viol("piece-raised:" + type(piece).__name__, f"{tag}: {piece!r}")]
    np_ = len(piece) // width
    a = audio.Wav(piece, [1, width, rate, np_, "NONE", "not compressed"])
    b = audio.Wav(piece, [1, width, rate, np_, "NONE", "not compressed"])
    before = (bytes(piece), bytes(b.frames), bytes(w.frames))
    _edit(a, op2, width, rate)
    after = (bytes(piece), bytes(b.frames), bytes(w.frames))
    viols = []
    if after != before:
        who = "the piece itself" if after[0] != before[0] else "the second recording built from it" if after[1] != before[1] else "the recording it came from"
        k = 0 if after[0] != before[0] else 1 if after[1] != before[1] else 2
        viols.append(Viol("edit-leaks-through-shared-audio", f"{tag} changed {who}: {W.unpack(before[k], width)} -> {W.unpack(after[k], width)}"))
    return 2, "ok", (op1[0], how, op2[0]), viols


def _shared_cases():
    ops = (("none",), ("cat",), ("ins", 0), ("ins", 2), ("del", 1, 3), ("rep", 1, 3))
    for width, rate in ((2, 8), (1, 8000)):
        for smp in ((1, 2, 3, 4, 5, 6),):
            for op1 in ops:
                for how in ("frames", "getFrames", "getSubwav"):
                    for op2 in ops[1:]:
                        yield (width, rate, smp, op1, how, op2)


def _copy_cases():
    for width, rate in ((2, 8), (1, 8000)):
        for smp in ((1, 2, 3, 4), ()):
            for ftype in ("bytes", "bytearray", "bytes-copy"):
                for op in (("cat",), ("ins", 0), ("ins", 2), ("ins", 4), ("del", 0, 2), ("del", 1, 4), ("rep", 1, 3)):
                    yield (width, rate, smp, ftype, op)


def _check_edit_large(case):
    """one edit / extraction on a LONG recording (samples regenerated here from (width, rate, n)), same list model as the BFS"""
    width, rate, n, op = case
    smp = [((i * 37) % 251) - 125 for i in range(n)] if width == 1 else [((i * 7919) % 65521) - 32760 for i in range(n)]
    succ, cnt, outcome, nontriv, viols = _step((width, rate, tuple(smp)), op)
    for v in viols:
        if len(v["msg"]) > 700:
            v["msg"] = v["msg"][:340] + " ... " + v["msg"][-340:]
    return cnt, outcome if isinstance(outcome, str) else str(outcome), (width, rate, n, op[0]), viols


def _edit_large_cases(quick):
    for width, rate in ((2, 8000), (1, 8000), (4, 44100)):
        for n in ((1025, 4097, 65537) if quick else (1025, 2049, 4097, 8193, 65537, 70000, 131073)):
            T = [k / rate for k in (0, 1, n // 2, n - 1, n)]
            yield (width, rate, n, ("cat",))
            for t in T:
                yield (width, rate, n, ("ins", t))
                yield (width, rate, n, ("insdel", t))
            for i, t0 in enumerate(T):
                for t1 in T[i:]:
                    for k in ("del", "rep", "sub"):
                        yield (width, rate, n, (k, t0, t1))


def _length_cases(quick):
    rates = (8, 8000, 11025, 16000, 22050, 44100, 48000)
    top = 128 if quick else 400
    for rate in rates:
        for n in range(0, top + 1):
            yield (2, rate, n)
    for width in (1, 4):
        for rate in (44100, 48000, 8000):
            for n in range(0, top + 1, 1 if not quick else 3):
                yield (width, rate, n)
    # the size axis: recordings around the usual block / buffer sizes (2**10 .. 2**17 samples or bytes)
    big = (1023, 1024, 1025, 2047, 2048, 2049, 4095, 4096, 4097, 5000, 8191, 8192, 8193, 16385, 32769, 65535, 65536, 65537, 70000, 131073)
    for width in (1, 2, 4):
        for rate in (8000, 44100):
            for n in (big if not quick else big[::2] + (65537,)):
                yield (width, rate, n)


def _riff_bytes():
    import struct
    data = bytes(range(40, 48))
    return b"RIFF" + struct.pack("<I", 36 + len(data)) + b"WAVE" + b"fmt " + struct.pack("<IHHIIHH", 16, 1, 1, 8000, 16000, 2, 16) + b"data" + struct.pack("<I", len(data)) + data


PAYLOADS = {
    "a-complete-wav-file": _riff_bytes(),
    "riff-wave-data-words": b"RIFF\x10\x00\x00\x00WAVE" + b"\x01\x02\x03\x04" + b"data" + b"\x05\x06\x07\x08" * 3,
    "a-textgrid-header": b'File type = "ooTextFile"\nObject class = "TextGrid"\n\nxmin = 0 \n',
    "form-aiff": b"FORM\x00\x00\x00\x1eAIFFCOMM" + bytes(range(1, 21)),
}


def _check_payload(case):
    """audio whose BYTES happen to spell something (a RIFF/WAVE header, a whole .wav file, a TextGrid header): frames are opaque - every
    byte is sample data, whatever it looks like"""
    width, name, rate = case
    raw = PAYLOADS[name]
    raw = raw[: len(raw) - len(raw) % 4]
    s = W.unpack(raw, width)
    n = len(s)
    tag = f"frames = {name} ({len(raw)} bytes) read as {n} samples of width {width} at rate {rate}"
    viols = []
    st, w, _ = call(audio.Wav, raw, [1, width, rate, n, "NONE", "not compressed"])
    if st == "exc":
        return 1, "X", None, [Viol("wav-raised:" + type(w).__name__, f"{tag}: {w!r}")]
    base = mkwav([1, 2, 3, 4], width, rate)
    checks = [("Wav(frames).frames", lambda: bytes(w.frames), raw),
              ("getSamples", lambda: list(w.getSamples(0, n / rate)), s),
              ("duration x rate", lambda: round(w.duration * rate), n),
              ("getSubwav(whole)", lambda: bytes(w.getSubwav(0, n / rate).frames), raw),
              ("concatenate onto 4 samples", lambda: (base.new(), None)[1] or (lambda b: (b.concatenate(raw), bytes(b.frames))[1])(base.new()), W.pack([1, 2, 3, 4], width) + raw),
              ("insert at the start of 4 samples", lambda: (lambda b: (b.insert(0, raw), bytes(b.frames))[1])(base.new()), raw + W.pack([1, 2, 3, 4], width)),
              ("replaceSegment of 4 samples", lambda: (lambda b: (b.replaceSegment(0, 4 / rate, raw), bytes(b.frames))[1])(base.new()), raw)]
    for what, f, want in checks:
        st, got, _ = call(f)
        if st == "exc" or got != want:
            viols.append(Viol("payload-interpreted", f"{tag}: {what} gives {got if st == 'exc' else (len(got) if isinstance(got, (bytes, list)) else got)!r}, "
                                                     f"expected {len(want) if isinstance(want, (bytes, list)) else want!r} (bytes / samples / count) - every byte of the frames is audio"))
            break
    if not viols:
        fn = os.path.join(scratch_dir(), "c16-payload.wav")
        st, r, _ = call(w.save, fn)
        if st == "exc" or W.read_riff(fn)["samples"] != s:
            viols.append(Viol("payload-interpreted", f"{tag}: saved file does not hold the {n} samples"))
        else:
            st, w2, _ = call(audio.Wav.open, fn)
            if st == "exc" or bytes(w2.frames) != raw:
                viols.append(Viol("payload-interpreted", f"{tag}: Wav.open of the saved file does not return the frames"))
    return len(checks) + 2, "ok", (width, name), viols


def _file_cases(quick):
    for width in (1, 2, 4):
        lo, hi = W.value_range(width)
        for rate in (8, 8000, 16000, 44100):
            seqs = [(), (0,), (lo, hi), (0, 1, -1, hi, lo, 5, -7), (hi,) * 3 + (lo,) * 2, tuple(range(1, 13))]
            if not quick:
                seqs += [tuple((i * 37) % 101 - 50 for i in range(k)) for k in (2, 3, 9, 25, 100, 150)]
            for s in seqs:
                yield (width, rate, s)


def parts(tier):
    quick = tier == "quick"
    combos = [(w, r) for w in (1, 2, 4) for r in (8, 8000, 44100)]
    if not quick:
        combos += [(2, 16000), (2, 11025), (2, 3)]
    seeds = [(w, r, (1, 2, 3, 4, 5, 6)) for w, r in combos]
    depth = 2 if quick else 3
    return [
        BfsPart("edit-histories", lambda: seeds, _ops, _step,
                rule="BFS from a 6-sample recording for %d (width, rate) pairs; transitions = insert / deleteSegment / replaceSegment / "
                     "getSubwav / concatenate / insert-then-delete at every time on a sample boundary and at 1/3, 1/2, 3/4 of a sample "
                     "(all ordered pairs t0<=t1), plus one query sweep (getSamples/getFrames for all pairs, duration, byte conversion) per "
                     "state; list-of-samples model with exact-rational nearest index after every transition; non-trivial = distinct "
                     "(operation, on-grid?, empty stretch?, tie?)" % len(combos),
                bounds={"depth": depth, "recording_length_cap": LENCAP, "width_rate_pairs": len(combos)}, max_depth=depth, prune=_prune),
        InputPart("live-sequences", lambda: ((s0, op1) for s0 in [(2, 8, (1, 2, 3, 4, 5)), (1, 44100, (1, 2, 3))]
                                             for op1 in _ops(s0)), _check_live,
                  rule="every pair (op1, op2) of edit / query calls on ONE live Wav object for 2 recordings, followed by a getSamples/duration query, list "
                       "model in lock step (prime - edit - query)",
                  bounds={"sequence_length": 2}, chunk=2),
        InputPart("copy-independence", _copy_cases, _check_copy_independence,
                  rule="Wav.new() and getSubwav() of recordings handed over as bytes and as bytearray x 7 edits applied to the copy and to the source: the other "
                       "object keeps every sample", bounds={}),
        InputPart("audio-shared-between-recordings", _shared_cases, _check_shared_frames,
                  rule="6 first edits (none, concatenate, insert, deleteSegment, replaceSegment) x the audio taken as .frames / getFrames / "
                       "getSubwav().frames x two recordings built from that piece x 5 edits of the first: the piece, the second recording and the "
                       "recording it came from keep every sample", bounds={}),
        InputPart("edit-large-recordings", lambda: _edit_large_cases(quick), _check_edit_large,
                  rule="one insert / insert-then-delete / deleteSegment / replaceSegment / getSubwav / concatenate on recordings of 1025 .. 65537 "
                       "(thorough 131073) samples, 3 (width, rate) pairs, at the first, second, middle, last sample and the end: same list model",
                  bounds={}, chunk=1),
        InputPart("frames-that-spell-container-data", lambda: ((w_, nm, r) for w_ in (1, 2, 4) for nm in PAYLOADS for r in (8000, 44100)), _check_payload,
                  rule="recordings whose bytes spell a complete .wav file, the words RIFF .. WAVE .. data, a TextGrid header, a FORM/AIFF header, read as "
                       "samples of width 1 / 2 / 4: the frames, getSamples, duration, getSubwav, concatenate, insert, replaceSegment, save and Wav.open "
                       "treat every byte as audio", bounds={}, chunk=2),
        InputPart("file-round-trip-all-lengths", lambda: _length_cases(quick), _check_file_lengths,
                  rule="EVERY recording length 0..%d at rates {8, 8000, 11025, 16000, 22050, 44100, 48000} (width 2; widths 1 and 4 at three "
                       "rates): Wav.save read by the independent RIFF reader, Wav.open and QueryWav must return every sample and "
                       "duration = count / rate" % (128 if quick else 400), bounds={"max_length": 128 if quick else 400}),
        InputPart("file-round-trip", lambda: _file_cases(quick), _check_file,
                  rule="widths {1,2,4} x rates {8,8000,16000,44100} x sample sequences incl. the extremes of the value range: Wav.save read "
                       "by an independent RIFF reader, praatio-written and independently written files opened by Wav.open and QueryWav "
                       "(getSamples for all time pairs)", bounds={}),
    ]
