"""Default arguments.

The per-property harnesses spell every argument out (that is how an oracle gets a definite expectation).  A changed DEFAULT is
then invisible.  This module closes that gap: for every optional parameter of the operations a property names, the call with the
argument OMITTED must behave exactly like the call that passes the documented default explicitly (the value in the pinned tree's
signature and docstring, written down here as a literal) - same result (canonical form), same printed output, same exception class -
on small inputs chosen so that the option matters (the result would differ under another option value).  The explicit call is the
one the other parts of the property check against the model.
"""
import io
import os
import wave

from mc.engine import InputPart, Viol
from mc.models import wavmodel as W
from mc.props.common import IT, PT, Textgrid, call, canon, snap_tg, scratch_dir, constants
from praatio import audio, praatio_scripts, textgrid as tgmod
from praatio import pitch_and_intensity as pi
from praatio.utilities import my_math

Interval = constants.Interval
Point = constants.Point


def _norm(x):
    st, r, out = x
    if st == "exc":
        return ("raised", type(r).__name__)
    return ("ok", _canon(r), out)


def _canon(r):
    if isinstance(r, Textgrid):
        return ("tg",) + tuple(snap_tg(r))
    if hasattr(r, "entries") and hasattr(r, "tierType"):
        return ("tier",) + tuple(canon(r))
    if isinstance(r, audio.Wav):
        return ("wav", bytes(r.frames), tuple(r.params))
    if isinstance(r, tuple) and r and isinstance(r[0], audio.Wav):
        return ("wav+", bytes(r[0].frames)) + tuple(_canon(x) for x in r[1:])
    if isinstance(r, (list, tuple)):
        return tuple(_canon(x) for x in r)
    if isinstance(r, bytes):
        return r
    return repr(r)


# ------------------------------------------------------------------ small fixtures
def _iv(entries=((0.0, 1.0, "a"), (1.0, 2.0, "b"), (3.0, 4.0, "c")), name="t", lo=0.0, hi=5.0):
    return IT(name, list(entries), lo, hi)


def _pt(entries=((0.5, "x"), (1.0, "y"), (3.0, "z")), name="p", lo=0.0, hi=5.0):
    return PT(name, list(entries), lo, hi)


def _tg():
    tg = Textgrid(0.0, 5.0)
    tg.addTier(_iv())
    tg.addTier(_pt())
    tg.addTier(_iv(((0.5, 2.5, "w"),), "u"))
    return tg


def _file(tg, fmt="short_textgrid", name="defaults.TextGrid"):
    fn = os.path.join(scratch_dir(), name)
    tg.save(fn, fmt, True, None, None, 1e-8, "silence")
    return fn


def _read(fn):
    with io.open(fn, "rb") as fd:
        return fd.read()


def _wavfile(n=40, rate=1000, width=2, name="defaults.wav"):
    fn = os.path.join(scratch_dir(), name)
    W.write_riff(fn, [((i * 7) % 11) - 5 for i in range(n)], width, rate)
    return fn


def _wav(n=40, rate=1000, width=2):
    smp = [((i * 7) % 11) - 5 for i in range(n)]
    return audio.Wav(W.pack(smp, width), [1, width, rate, n, "NONE", "not compressed"])


# ------------------------------------------------------------------ the table: (property, what, omitted thunk, explicit thunk)
def _save_pair(fmt, variant):
    def mk():
        tg = Textgrid(0.0, 3.0)
        tg.addTier(IT("t", [(0.0, 1.0, "a"), (1.0, 1.0 + 5e-9, "s"), (1.5, 2.0, "b"), (2.0, 2.0 + 2.0 ** -24, "k"), (2.5, 2.5 + 2.0 ** -21, "m")], 0.0, 3.0))  # slivers either side of 1e-8
        tg.addTier(PT("p", [(1.0, "x")], 0.0, 3.0))
        if variant == "inconsistent":   # a tier wider than the textgrid: reportingMode matters
            tg.addTier(IT("wide", [(0.0, 4.0, "w")], 0.0, 4.0), reportingMode="silence")
            tg.maxTimestamp = 3.0
        return tg
    fn1 = os.path.join(scratch_dir(), "defaults-save1.TextGrid")
    fn2 = os.path.join(scratch_dir(), "defaults-save2.TextGrid")

    def omitted():
        mk().save(fn1, fmt, True)
        return _read(fn1)

    def explicit():
        mk().save(fn2, fmt, True, None, None, 1e-8, "warning")
        return _read(fn2)
    return omitted, explicit


def _open_pair(variant):
    def path():
        tg = Textgrid(0.0, 3.0)
        tg.addTier(IT("t", [(0.0, 1.0, "a"), (1.5, 2.0, "b")], 0.0, 3.0))
        if variant == "duplicate-names":
            fn = os.path.join(scratch_dir(), "defaults-dup.TextGrid")
            tg.addTier(PT("p", [(1.0, "x")], 0.0, 3.0))
            tg.save(fn, "short_textgrid", True, None, None, 1e-8, "silence")
            with io.open(fn, encoding="utf-8") as fd:
                text = fd.read().replace('"p"', '"t"')
            with io.open(fn, "w", encoding="utf-8") as fd:
                fd.write(text)
            return fn
        tg.addTier(IT("narrow", [(0.0, 1.0, "n")], 0.0, 2.0))  # a tier narrower than the file: validation reports it
        return _file(tg, "long_textgrid", "defaults-open.TextGrid")
    return (lambda: tgmod.openTextgrid(path(), False)), (lambda: tgmod.openTextgrid(path(), False, "warning", "error"))


def table():
    T = []

    def add(prop, what, omitted, explicit):
        T.append((prop, what, omitted, explicit))

    for fmt in ("short_textgrid", "long_textgrid", "json", "textgrid_json"):
        for variant in ("sliver", "inconsistent"):
            o, e = _save_pair(fmt, variant)
            for prop in ("C01", "C02", "C04", "C13"):
                add(prop, f"Textgrid.save({fmt}, True) [{variant}]: minTimestamp, maxTimestamp, minimumIntervalLength, reportingMode", o, e)
    for variant in ("narrow-tier", "duplicate-names"):
        o, e = _open_pair(variant)
        for prop in ("C01", "C03"):
            add(prop, f"openTextgrid(fn, False) [{variant}]: reportingMode, duplicateNamesMode", o, e)

    # tiers: constructors, new, insertEntry
    ent = [(0.0, 1.0, "a"), (1.0, 2.0, "b")]
    add("C05", "IntervalTier(name, entries): minT, maxT", lambda: IT("t", list(ent)), lambda: IT("t", list(ent), None, None))
    add("C05", "PointTier(name, entries): minT, maxT", lambda: PT("p", [(0.5, "x")]), lambda: PT("p", [(0.5, "x")], None, None))
    add("C05", "IntervalTier.new()", lambda: _iv().new(), lambda: _iv().new(None, None, None, None))
    add("C05", "PointTier.new()", lambda: _pt().new(), lambda: _pt().new(None, None, None, None))
    for e in ((2.0, 3.0, "n"), (0.5, 1.5, "n"), (4.0, 6.0, "n")):
        def mk_ins(e=e, explicit=False):
            def f():
                t = _iv()
                if explicit:
                    t.insertEntry(Interval(*e), "error", "warning")
                else:
                    t.insertEntry(Interval(*e))
                return t
            return f
        for prop in ("C05", "C11", "C13"):
            add(prop, f"IntervalTier.insertEntry({e}): collisionMode, collisionReportingMode", mk_ins(), mk_ins(explicit=True))
    # the first optional argument given, the second omitted
    for mode in ("replace", "merge"):
        for e in ((0.5, 1.5, "n"), (2.0, 3.0, "n")):
            def mk_ins2(e=e, mode=mode, explicit=False):
                def f():
                    t = _iv()
                    if explicit:
                        t.insertEntry(Interval(*e), mode, "warning")
                    else:
                        t.insertEntry(Interval(*e), mode)
                    return t
                return f
            for prop in ("C05", "C11"):
                add(prop, f"IntervalTier.insertEntry({e}, {mode!r}): collisionReportingMode", mk_ins2(), mk_ins2(explicit=True))
        for e in ((1.0, "n"), (2.0, "n")):
            def mk_insp2(e=e, mode=mode, explicit=False):
                def f():
                    t = _pt()
                    if explicit:
                        t.insertEntry(Point(*e), mode, "warning")
                    else:
                        t.insertEntry(Point(*e), mode)
                    return t
                return f
            for prop in ("C05", "C11"):
                add(prop, f"PointTier.insertEntry({e}, {mode!r}): collisionReportingMode", mk_insp2(), mk_insp2(explicit=True))
    for e in ((2.0, "n"), (1.0, "n")):
        def mk_insp(e=e, explicit=False):
            def f():
                t = _pt()
                if explicit:
                    t.insertEntry(Point(*e), "error", "warning")
                else:
                    t.insertEntry(Point(*e))
                return t
            return f
        for prop in ("C05", "C11"):
            add(prop, f"PointTier.insertEntry({e}): collisionMode, collisionReportingMode", mk_insp(), mk_insp(explicit=True))

    # crop (only the point tier has defaults), erase, insertSpace
    for a, b in ((0.75, 3.5), (1.0, 3.0)):
        add("C06", f"PointTier.crop({a}, {b}): mode, rebaseToZero", lambda a=a, b=b: _pt().crop(a, b), lambda a=a, b=b: _pt().crop(a, b, "lax", True))
    for a, b in ((0.5, 1.5), (2.25, 2.75), (0.0, 1.0)):
        for prop in ("C07", "C13"):
            add(prop, f"IntervalTier.eraseRegion({a}, {b}): collisionMode, doShrink", lambda a=a, b=b: _iv().eraseRegion(a, b),
                lambda a=a, b=b: _iv().eraseRegion(a, b, "error", True))
        add("C07", f"PointTier.eraseRegion({a}, {b}): collisionMode, doShrink", lambda a=a, b=b: _pt().eraseRegion(a, b),
            lambda a=a, b=b: _pt().eraseRegion(a, b, "error", True))
    # partial omission: earlier optional arguments given, the later ones left out
    for mode in ("strict", "lax", "truncated"):
        add("C06", f"PointTier.crop(0.75, 3.5, {mode!r}): rebaseToZero", lambda mode=mode: _pt().crop(0.75, 3.5, mode), lambda mode=mode: _pt().crop(0.75, 3.5, mode, True))
    for mode in ("truncate", "categorical", "error"):
        for a, b in ((0.5, 1.5), (2.25, 2.75)):
            add("C07", f"IntervalTier.eraseRegion({a}, {b}, {mode!r}): doShrink", lambda a=a, b=b, mode=mode: _iv().eraseRegion(a, b, mode),
                lambda a=a, b=b, mode=mode: _iv().eraseRegion(a, b, mode, True))
            add("C07", f"PointTier.eraseRegion({a}, {b}, {mode!r}): doShrink", lambda a=a, b=b, mode=mode: _pt().eraseRegion(a, b, mode),
                lambda a=a, b=b, mode=mode: _pt().eraseRegion(a, b, mode, True))
    for q in ("a", "A", "^a"):
        for flag in (False, True):
            add("C15", f"IntervalTier.find({q!r}, {flag}): usingRE", lambda q=q, flag=flag: _iv(((0.0, 1.0, "a"), (1.0, 2.0, "ab"), (3.0, 4.0, "A"))).find(q, flag),
                lambda q=q, flag=flag: _iv(((0.0, 1.0, "a"), (1.0, 2.0, "ab"), (3.0, 4.0, "A"))).find(q, flag, False))
            add("C15", f"PointTier.find({q!r}, {flag}): usingRE", lambda q=q, flag=flag: _pt(((0.5, "a"), (1.0, "ab"), (3.0, "A"))).find(q, flag),
                lambda q=q, flag=flag: _pt(((0.5, "a"), (1.0, "ab"), (3.0, "A"))).find(q, flag, False))
    for s0 in (0.5, 2.5, 3.0):
        for prop in ("C08", "C12"):
            add(prop, f"Textgrid.insertSpace({s0}, 1.0): collisionMode", lambda s0=s0: _tg().insertSpace(s0, 1.0), lambda s0=s0: _tg().insertSpace(s0, 1.0, "error"))
        add("C08", f"PointTier.insertSpace({s0}, 1.0): collisionMode", lambda s0=s0: _pt().insertSpace(s0, 1.0), lambda s0=s0: _pt().insertSpace(s0, 1.0, "error"))

    # shifting
    for off in (-0.75, 0.5, 2.0):
        add("C09", f"IntervalTier.editTimestamps({off}): reportingMode", lambda off=off: _iv().editTimestamps(off), lambda off=off: _iv().editTimestamps(off, "warning"))
        add("C09", f"PointTier.editTimestamps({off}): reportingMode", lambda off=off: _pt().editTimestamps(off), lambda off=off: _pt().editTimestamps(off, "warning"))
        for prop in ("C09", "C12"):
            add(prop, f"Textgrid.editTimestamps({off}): reportingMode", lambda off=off: _tg().editTimestamps(off), lambda off=off: _tg().editTimestamps(off, "warning"))

    # set operations
    B = lambda: _iv(((0.5, 1.5, "x"), (1.5, 3.5, "y")), "o")  # noqa: E731
    add("C10", "IntervalTier.mergeLabels(B): demarcator", lambda: _iv().mergeLabels(B()), lambda: _iv().mergeLabels(B(), ","))
    add("C10", "IntervalTier.intersection(B): demarcator", lambda: _iv().intersection(B()), lambda: _iv().intersection(B(), "-"))
    for prop in ("C10", "C12"):
        add(prop, "Textgrid.mergeTiers(): tierNames, preserveOtherTiers", lambda: _tg().mergeTiers(), lambda: _tg().mergeTiers(None, True))
        add(prop, "Textgrid.mergeTiers(['t', 'u']): preserveOtherTiers", lambda: _tg().mergeTiers(["t", "u"]), lambda: _tg().mergeTiers(["t", "u"], True))

    # textgrid mutators
    def mk_add(explicit, wide):
        def f():
            tg = _tg()
            t = IT("new", [(0.0, 1.0, "n")], 0.0, 7.0 if wide else 5.0)
            if explicit:
                tg.addTier(t, None, "warning")
            else:
                tg.addTier(t)
            return tg
        return f
    for wide in (False, True):
        for prop in ("C12", "C13"):
            add(prop, f"Textgrid.addTier(tier) [wider tier: {wide}]: tierIndex, reportingMode", mk_add(False, wide), mk_add(True, wide))

    def mk_rep(explicit, wide):
        def f():
            tg = _tg()
            t = IT("t", [(0.0, 1.0, "n")], 0.0, 7.0 if wide else 5.0)
            if explicit:
                tg.replaceTier("t", t, "warning")
            else:
                tg.replaceTier("t", t)
            return tg
        return f
    for wide in (False, True):
        for prop in ("C12", "C13"):
            add(prop, f"Textgrid.replaceTier('t', tier) [wider tier: {wide}]: reportingMode", mk_rep(False, wide), mk_rep(True, wide))
    add("C12", "Textgrid(): minTimestamp, maxTimestamp", lambda: Textgrid(), lambda: Textgrid(None, None))

    def invalid_tg():
        tg = _tg()
        tg.getTier("t").insertEntry(Interval(6.0, 7.0, "grown"), "error", "silence")
        return tg
    for prop in ("C13", "C15"):
        add(prop, "Textgrid.validate() on an inconsistent textgrid: reportingMode", lambda: invalid_tg().validate(), lambda: invalid_tg().validate("warning"))
        add(prop, "Textgrid.validate(): reportingMode", lambda: _tg().validate(), lambda: _tg().validate("warning"))

    # boundary adjusters
    ref = lambda: _pt(((0.0005, "r"), (1.004, "r2"), (3.02, "r3")), "ref")  # noqa: E731
    near = lambda: _iv(((0.0, 1.0, "a"), (1.0, 2.0, "b"), (3.0, 4.0, "c")))  # noqa: E731
    add("C14", "IntervalTier.dejitter(ref): maxDifference", lambda: near().dejitter(ref()), lambda: near().dejitter(ref(), 0.001))
    add("C14", "PointTier.dejitter(ref): maxDifference", lambda: _pt(((0.0, "x"), (1.0, "y"), (3.0, "z"))).dejitter(ref()),
        lambda: _pt(((0.0, "x"), (1.0, "y"), (3.0, "z"))).dejitter(ref(), 0.001))

    def mk_align(explicit):
        def f():
            tg = Textgrid(0.0, 5.0)
            tg.addTier(ref())
            tg.addTier(near())
            if explicit:
                return praatio_scripts.alignBoundariesAcrossTiers(tg, "ref", 0.005)
            return praatio_scripts.alignBoundariesAcrossTiers(tg, "ref")
        return f
    add("C14", "alignBoundariesAcrossTiers(tg, 'ref'): maxDifference", mk_align(False), mk_align(True))
    src = lambda: _iv(((0.0, 1.0, "a"), (1.0, 2.0, ""), (3.0, 4.0, "c")))  # noqa: E731  (an unlabelled interval is selected by default, too)
    add("C14", "IntervalTier.morph(target): filterFunc", lambda: src().morph(_iv(((0.0, 2.0, "x"), (2.0, 2.5, "y"), (3.0, 3.25, "z")), "o")),
        lambda: src().morph(_iv(((0.0, 2.0, "x"), (2.0, 2.5, "y"), (3.0, 3.25, "z")), "o"), lambda label: True))

    # queries
    for q in ("a", "A", "."):
        add("C15", f"IntervalTier.find({q!r}): substrMatchFlag, usingRE", lambda q=q: _iv(((0.0, 1.0, "a"), (1.0, 2.0, "ab"), (3.0, 4.0, "A"))).find(q),
            lambda q=q: _iv(((0.0, 1.0, "a"), (1.0, 2.0, "ab"), (3.0, 4.0, "A"))).find(q, False, False))
        add("C15", f"PointTier.find({q!r}): substrMatchFlag, usingRE", lambda q=q: _pt(((0.5, "a"), (1.0, "ab"), (3.0, "A"))).find(q),
            lambda q=q: _pt(((0.5, "a"), (1.0, "ab"), (3.0, "A"))).find(q, False, False))
    data = [(0.4, 1), (1.0, 2), (2.9, 3)]
    add("C15", "PointTier.getValuesAtPoints(data): fuzzyMatching", lambda: _pt().getValuesAtPoints(list(data)), lambda: _pt().getValuesAtPoints(list(data), False))

    # audio
    def mk_read(explicit):
        def f():
            af = wave.open(_wavfile(), "r")
            try:
                return audio.readFramesAtTimes(af, None, None, None) if explicit else audio.readFramesAtTimes(af)
            finally:
                af.close()
        return f
    add("C17", "readFramesAtTimes(reader): keepIntervals, deleteIntervals, replaceFunc", mk_read(False), mk_read(True))

    def mk_query(explicit):
        def f():
            q = audio.QueryWav(_wavfile())
            try:
                return q.getFrames(None, None) if explicit else q.getFrames()
            finally:
                q.audiofile.close()
        return f
    add("C16", "QueryWav.getFrames(): startTime, endTime", mk_query(False), mk_query(True))

    def mk_split(explicit):
        def f():
            import shutil
            fn = _wavfile(name="defaults-split.wav")
            tg = Textgrid(0.0, 0.04)
            tg.addTier(IT("w", [(0.004, 0.012, "one"), (0.02, 0.03, "two")], 0.0, 0.04))
            tgfn = os.path.join(scratch_dir(), "defaults-split.TextGrid")
            tg.save(tgfn, "short_textgrid", True, None, None, 1e-8, "silence")
            od = os.path.join(scratch_dir(), "defaults-split-out")
            shutil.rmtree(od, ignore_errors=True)
            if explicit:
                r = praatio_scripts.splitAudioOnTier(fn, tgfn, "w", od, False, None, False, None)
            else:
                r = praatio_scripts.splitAudioOnTier(fn, tgfn, "w", od)
            files = sorted(os.listdir(od))
            content = [(f_, _read(os.path.join(od, f_))) for f_ in files]
            shutil.rmtree(od, ignore_errors=True)
            return (r, content)
        return f
    add("C17", "splitAudioOnTier(wav, tg, tier, outdir): outputTGFlag, nameStyle, noPartialIntervals, silenceLabel", mk_split(False), mk_split(True))

    for rate in (1000, 44100):
        for t in (0.0, 0.013, 0.02):
            add("C18", f"Wav.findNearestZeroCrossing({t}) at rate {rate}: timeStep", lambda t=t, rate=rate: _wav(60, rate).findNearestZeroCrossing(t * 1000 / rate),
                lambda t=t, rate=rate: _wav(60, rate).findNearestZeroCrossing(t * 1000 / rate, 0.002))

    def mk_tgzc(explicit):
        def f():
            tg = Textgrid(0.0, 0.04)
            tg.addTier(IT("w", [(0.004, 0.012, "one"), (0.02, 0.03, "two")], 0.0, 0.04))
            tg.addTier(PT("p", [(0.015, "x")], 0.0, 0.04))
            if explicit:
                return praatio_scripts.tgBoundariesToZeroCrossings(tg, _wav(), True, True)
            return praatio_scripts.tgBoundariesToZeroCrossings(tg, _wav())
        return f
    add("C18", "tgBoundariesToZeroCrossings(tg, wav): adjustPointTiers, adjustIntervalTiers", mk_tgzc(False), mk_tgzc(True))

    def mk_splice(explicit):
        def f():
            tg = Textgrid(0.0, 0.04)
            tg.addTier(IT("w", [(0.0, 0.01, "one"), (0.02, 0.03, "two")], 0.0, 0.04))
            if explicit:
                return praatio_scripts.audioSplice(_wav(), _wav(8), tg, "w", "NEW", 0.013, None, True)
            return praatio_scripts.audioSplice(_wav(), _wav(8), tg, "w", "NEW", 0.013)
        return f
    add("C18", "audioSplice(audio, splice, tg, tier, label, insertStart): insertStop, alignToZeroCrossing", mk_splice(False), mk_splice(True))

    # numeric helpers
    for seq in ((100, 130, 200, 141, 98.7), (100, 143), (50,)):
        add("C20", f"detectPitchErrors({seq}): maxJumpThreshold, tgToMark", lambda seq=seq: pi.detectPitchErrors([(i * 0.1, v) for i, v in enumerate(seq)]),
            lambda seq=seq: pi.detectPitchErrors([(i * 0.1, v) for i, v in enumerate(seq)], 0.7, None))
    for seq in ((0, 100, 120.5, 0, 98), (0, 0)):
        add("C20", f"getPitchMeasures({seq}): name, label, medianFilterWindowSize, filterZeroFlag", lambda seq=seq: pi.getPitchMeasures(list(seq)),
            lambda seq=seq: pi.getPitchMeasures(list(seq), None, None, None, False))

    def mk_load(explicit):
        def f():
            fn = os.path.join(scratch_dir(), "defaults-listing.txt")
            with open(fn, "w") as fd:
                fd.write("time,pitch\n0.1,100\n0.2,--undefined--\n0.3,120\n")
            return pi.loadTimeSeriesData(fn, None) if explicit else pi.loadTimeSeriesData(fn)
        return f
    add("C20", "loadTimeSeriesData(fn): undefinedValue", mk_load(False), mk_load(True))
    return T


_TABLE = None


def _check(case):
    global _TABLE
    if _TABLE is None:
        _TABLE = table()
    prop, idx = case
    rows = [r for r in _TABLE if r[0] == prop]
    _, what, omitted, explicit = rows[idx]
    a = _norm(call(omitted))
    b = _norm(call(explicit))
    viols = []
    if a != b:
        def short(x):
            s = repr(x)
            return s if len(s) < 400 else s[:200] + " ... " + s[-180:]
        viols.append(Viol("default-differs-from-documented-value", f"{what}: with the optional arguments omitted -> {short(a)}; with the documented defaults "
                                                                   f"passed explicitly -> {short(b)}"))
    return 2, a[0], (prop, what), viols


def part(prop):
    n = len([r for r in table() if r[0] == prop])
    return InputPart("default-arguments", lambda: ((prop, i) for i in range(n)), _check,
                     rule="for every optional parameter of the operations this property names: the call with the argument omitted behaves exactly like the "
                          "call passing the documented default explicitly (result, printed output, exception class), on %d small inputs chosen so that the "
                          "option matters" % n, bounds={"calls": n}, chunk=1)
