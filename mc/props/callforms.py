"""Call forms: the same call written with keyword arguments.

The harnesses call the library positionally.  The parameter NAMES of the public operations are part of their contract as well - the
tutorial and the examples write `tg.crop(..., mode="truncated", rebaseToZero=True)`, `tier.eraseRegion(start, end, collisionMode=..., doShrink=...)` -
and a renamed parameter breaks exactly the callers who wrote the more readable form, while every positional call stays bit-for-bit right.
For every operation the properties name, this part makes the same call twice on fresh fixtures - all arguments positional, all arguments by
keyword under the names of the pinned signature (written here as literals) - and requires the same result, printed output and exception class.
"""
import io
import os

from mc.engine import InputPart, Viol
from mc.models import wavmodel as W
from mc.props.common import IT, PT, Textgrid, call, canon, snap_tg, scratch_dir, constants
from praatio import audio, praatio_scripts, textgrid as tgmod
from praatio import pitch_and_intensity as pi
from praatio.utilities import my_math, utils

Interval = constants.Interval
Point = constants.Point


def _canon(r):
    if isinstance(r, Textgrid):
        return ("tg",) + tuple(snap_tg(r))
    if hasattr(r, "entries") and hasattr(r, "tierType"):
        return ("tier",) + tuple(canon(r))
    if isinstance(r, audio.Wav):
        return ("wav", bytes(r.frames))
    if isinstance(r, (list, tuple)):
        return tuple(_canon(x) for x in r)
    return repr(r)


def _iv():
    return IT("t", [(0.0, 1.0, "a"), (1.0, 2.0, "b"), (3.0, 4.0, "c")], 0.0, 5.0)


def _pt():
    return PT("p", [(0.5, "x"), (1.0, "y"), (3.0, "z")], 0.0, 5.0)


def _other():
    return IT("o", [(0.5, 2.5, "w"), (3.0, 3.5, "v")], 0.0, 5.0)


def _tg():
    tg = Textgrid(0.0, 5.0)
    tg.addTier(_iv())
    tg.addTier(_pt())
    return tg


def _wav(n=40, rate=1000):
    smp = [((i * 7) % 11) - 5 for i in range(n)]
    return audio.Wav(W.pack(smp, 2), [1, 2, rate, n, "NONE", "not compressed"])


def _file(fmt="short_textgrid"):
    fn = os.path.join(scratch_dir(), "callforms.TextGrid")
    _tg().save(fn, fmt, True, None, None, 1e-8, "silence")
    return fn


def _state(obj):
    return _canon(obj) if obj is not None else None


def table():
    """rows: (properties, what, receiver factory or None, attribute name / function, positional args factory, pinned parameter names)"""
    T = []

    def m(props, mk, name, args, names):
        T.append((props, f"{type(mk()).__name__}.{name}", mk, name, args, names))

    def fn(props, func, args, names, what=None):
        T.append((props, what or func.__name__, None, func, args, names))
    m(("C06",), _iv, "crop", lambda: (0.75, 3.5, "truncated", False), ("cropStart", "cropEnd", "mode", "rebaseToZero"))
    m(("C06",), _pt, "crop", lambda: (0.75, 3.5, "strict", True), ("cropStart", "cropEnd", "mode", "rebaseToZero"))
    m(("C06", "C12"), _tg, "crop", lambda: (0.75, 3.5, "lax", True), ("cropStart", "cropEnd", "mode", "rebaseToZero"))
    m(("C07",), _iv, "eraseRegion", lambda: (0.5, 1.5, "truncate", True), ("start", "end", "collisionMode", "doShrink"))
    m(("C07",), _pt, "eraseRegion", lambda: (0.75, 1.5, "truncate", False), ("start", "end", "collisionMode", "doShrink"))
    m(("C07", "C12"), _tg, "eraseRegion", lambda: (0.5, 1.5, True), ("start", "end", "doShrink"))
    m(("C08",), _iv, "insertSpace", lambda: (0.5, 1.0, "split"), ("start", "duration", "collisionMode"))
    m(("C08", "C12"), _tg, "insertSpace", lambda: (0.5, 1.0, "stretch"), ("start", "duration", "collisionMode"))
    m(("C09",), _iv, "editTimestamps", lambda: (1.5, "warning"), ("offset", "reportingMode"))
    m(("C09",), _pt, "editTimestamps", lambda: (-0.75, "silence"), ("offset", "reportingMode"))
    m(("C09", "C12"), _tg, "editTimestamps", lambda: (1.5, "silence"), ("offset", "reportingMode"))
    m(("C09",), _iv, "appendTier", lambda: (_other(),), ("tier",))
    m(("C09",), _tg, "appendTextgrid", lambda: (_tg(), True), ("tg", "onlyMatchingNames"))
    m(("C05", "C11"), _iv, "insertEntry", lambda: (Interval(0.5, 1.5, "n"), "merge", "silence"), ("entry", "collisionMode", "collisionReportingMode"))
    m(("C05", "C11"), _pt, "insertEntry", lambda: (Point(1.0, "n"), "replace", "warning"), ("entry", "collisionMode", "collisionReportingMode"))
    m(("C11",), _iv, "deleteEntry", lambda: (Interval(1.0, 2.0, "b"),), ("entry",))
    m(("C05", "C13", "C15"), _iv, "new", lambda: ("r", [(0.0, 1.0, "q")], 0.0, 2.0), ("name", "entries", "minTimestamp", "maxTimestamp"))
    m(("C10",), _iv, "union", lambda: (_other(),), ("tier",))
    m(("C10",), _iv, "difference", lambda: (_other(),), ("tier",))
    m(("C10",), _iv, "intersection", lambda: (_other(), "+"), ("tier", "demarcator"))
    m(("C10",), _iv, "mergeLabels", lambda: (_other(), "/"), ("tier", "demarcator"))
    m(("C10", "C12"), _tg, "mergeTiers", lambda: (["t"], True), ("tierNames", "preserveOtherTiers"))
    m(("C14",), _iv, "morph", lambda: (IT("m", [(0.0, 2.0, "x"), (2.0, 2.5, "y"), (3.0, 3.25, "z")], 0.0, 5.0), lambda l: l != "b"), ("targetTier", "filterFunc"))
    m(("C14",), _iv, "dejitter", lambda: (PT("r", [(1.01, "r"), (2.98, "r")], 0.0, 5.0), 0.05), ("referenceTier", "maxDifference"))
    m(("C15",), _iv, "find", lambda: ("a", True, False), ("matchLabel", "substrMatchFlag", "usingRE"))
    m(("C15",), _iv, "getValuesInIntervals", lambda: ([(0.5, 1), (1.5, 2), (3.5, 3)],), ("dataTupleList",))
    m(("C15",), _pt, "getValuesAtPoints", lambda: ([(0.5, 1), (1.1, 2), (3.0, 3)], True), ("dataTupleList", "fuzzyMatching"))
    m(("C15", "C13"), _iv, "validate", lambda: ("silence",), ("reportingMode",))
    m(("C12", "C13"), _tg, "addTier", lambda: (IT("n", [(0.0, 1.0, "q")], 0.0, 6.0), 0, "warning"), ("tier", "tierIndex", "reportingMode"))
    m(("C12",), _tg, "removeTier", lambda: ("t",), ("name",))
    m(("C12",), _tg, "renameTier", lambda: ("t", "u"), ("oldName", "newName"))
    m(("C12", "C13"), _tg, "replaceTier", lambda: ("t", IT("n", [(0.0, 1.0, "q")], 0.0, 5.0), "silence"), ("name", "newTier", "reportingMode"))
    m(("C12",), _tg, "getTier", lambda: ("p",), ("tierName",))
    fn(("C05",), IT, lambda: ("n", [(0.0, 1.0, "q")], 0.0, 2.0), ("name", "entries", "minT", "maxT"), "IntervalTier(...)")
    fn(("C05",), PT, lambda: ("n", [(0.5, "q")], 0.0, 2.0), ("name", "entries", "minT", "maxT"), "PointTier(...)")
    fn(("C12",), Textgrid, lambda: (0.0, 2.0), ("minTimestamp", "maxTimestamp"), "Textgrid(...)")

    def save_args():
        return (os.path.join(scratch_dir(), "callforms-out.TextGrid"), "long_textgrid", True, 0.0, 6.0, 1e-8, "silence")
    T.append((("C01", "C02", "C04", "C13"), "Textgrid.save", _tg, "save", save_args,
              ("fn", "format", "includeBlankSpaces", "minTimestamp", "maxTimestamp", "minimumIntervalLength", "reportingMode")))
    fn(("C01", "C03"), tgmod.openTextgrid, lambda: (_file(), False, "silence", "error"), ("fnFullPath", "includeEmptyIntervals", "reportingMode", "duplicateNamesMode"))
    m(("C16",), _wav, "getFrames", lambda: (0.005, 0.02), ("startTime", "endTime"))
    m(("C16",), _wav, "getSamples", lambda: (0.005, 0.02), ("startTime", "endTime"))
    m(("C16",), _wav, "getSubwav", lambda: (0.005, 0.02), ("startTime", "endTime"))
    m(("C16",), _wav, "insert", lambda: (0.01, W.pack([9, 9], 2)), ("startTime", "frames"))
    m(("C16",), _wav, "deleteSegment", lambda: (0.005, 0.02), ("startTime", "endTime"))
    m(("C16",), _wav, "replaceSegment", lambda: (0.005, 0.02, W.pack([9, 9], 2)), ("startTime", "endTime", "frames"))
    m(("C16",), _wav, "concatenate", lambda: (W.pack([9, 9], 2),), ("frames",))
    m(("C18",), lambda: _wav(60), "findNearestZeroCrossing", lambda: (0.03, 0.004), ("targetTime", "timeStep"))
    fn(("C20",), pi.detectPitchErrors, lambda: ([(i * 0.1, v) for i, v in enumerate((100, 101, 200, 99))], 0.6, None), ("pitchList", "maxJumpThreshold", "tgToMark"))
    fn(("C20",), pi.getPitchMeasures, lambda: ([100.0, 0.0, 120.0, 110.0], "n", "l", 3, True), ("f0Values", "name", "label", "medianFilterWindowSize", "filterZeroFlag"))
    fn(("C20",), my_math.medianFilter, lambda: ([5, 1, 9, 3, 7], 3, True), ("dist", "window", "useEdgePadding"))
    fn(("C15",), utils.intervalOverlapCheck, lambda: ((0.0, 2.0), (1.0, 3.0), 0.25, 0.5, True), ("interval", "cmprInterval", "percentThreshold", "timeThreshold", "boundaryInclusive"))
    fn(("C15",), utils.invertIntervalList, lambda: ([(1.0, 2.0), (3.0, 4.0)], 0.0, 5.0), ("inputList", "minValue", "maxValue"))
    fn(("C14",), praatio_scripts.alignBoundariesAcrossTiers, lambda: (_tg(), "p", 0.05), ("tg", "tierName", "maxDifference"))
    return T


_TABLE = None


def _rows(prop):
    global _TABLE
    if _TABLE is None:
        _TABLE = table()
    return [r for r in _TABLE if prop in r[0]]


def _check(case):
    prop, idx = case
    props, what, mk, name, args, names = _rows(prop)[idx]
    res = []
    for keyword in (False, True):
        recv = mk() if mk is not None else None
        f = getattr(recv, name) if mk is not None else name
        a = args()
        st, r, out = call(f, **dict(zip(names, a))) if keyword else call(f, *a)
        extra = None
        if what == "Textgrid.save" and st == "ok":
            with io.open(a[0], "rb") as fd:
                extra = fd.read()
        res.append((st, type(r).__name__ if st == "exc" else _canon(r), out, _state(recv) if mk is not None else None, extra))
    # flags given as 1 / 0 (from a command line, a config file, numpy): whatever the library makes of a flag that is truthy but not `True`, it makes
    # the SAME of it everywhere in the call - the result is the result for True or the result for False, never a mixture of the two
    a0 = args()
    for i, v in enumerate(a0):
        if isinstance(v, bool):
            def run(val):
                recv = mk() if mk is not None else None
                f = getattr(recv, name) if mk is not None else name
                a = list(args())
                a[i] = val
                st, r, out = call(f, *a)
                return (st, type(r).__name__ if st == "exc" else _canon(r), _state(recv) if mk is not None else None)
            cands = (run(True), run(False))
            got = run(1 if v else 0)
            if got not in cands:
                return 5, "!", None, [Viol("flag-given-as-int-gives-a-mixture", f"{what}: with {names[i]}={1 if v else 0} the result is {str(got[:2])[:300]}, which is neither "
                                                                               f"the result for True {str(cands[0][:2])[:200]} nor the result for False {str(cands[1][:2])[:200]}")]
    if res[0] != res[1]:
        return 2, "!", None, [Viol("keyword-call-differs", f"{what}: called with keyword arguments {names} -> {str(res[1][:2])[:300]}; the same call written "
                                                           f"positionally -> {str(res[0][:2])[:300]}")]
    return 2, "ok", (prop, what), []


def part(prop):
    n = len(_rows(prop))
    if not n:
        return None
    return InputPart("keyword-call-forms", lambda: ((prop, i) for i in range(n)), _check,
                     rule="every operation of this property called once with all arguments positional and once with all arguments by keyword, under the "
                          "parameter names of the pinned signatures (%d rows): same result, receiver state, printed output, exception class, written bytes; "
                          "and every boolean flag given as 1 / 0: the result for True or the result for False, never a mixture" % n,
                     bounds={"rows": n}, chunk=1)
