"""Helpers shared by the property harnesses: canonical forms, invariant, call wrapper."""
import numbers
import contextlib
import io

from praatio import textgrid as _tgmod
from praatio.utilities import errors as _errors
from praatio.utilities import constants as _constants

from mc.engine import Viol  # noqa: F401  (re-exported)

IT = _tgmod.IntervalTier
PT = _tgmod.PointTier
Textgrid = _tgmod.Textgrid
errors = _errors
constants = _constants
PE = _errors.PraatioException


def mk(state):
    """state = (kind 'I'|'P', name, lo, hi, entries) -> real tier object"""
    kind, name, lo, hi, entries = state
    cls = IT if kind == "I" else PT
    return cls(name, list(entries), lo, hi)


def canon(t):
    kind = "I" if t.tierType == _constants.INTERVAL_TIER else "P"
    return (kind, t.name, t.minTimestamp, t.maxTimestamp, tuple(tuple(e) for e in t.entries))


def ents(t):
    return [tuple(e) for e in t.entries]


def snap_tg(tg):
    return (tuple(tg.tierNames), tg.minTimestamp, tg.maxTimestamp, tuple(canon(t) for t in tg.tiers))


def wellformed(t):
    """The C05 invariant; returns None or the name of the broken clause."""
    E = t.entries
    if t.tierType == _constants.INTERVAL_TIER:
        for e in E:
            if not (e[0] < e[1]):
                return "start>=end"
        for a, b in zip(E, E[1:]):
            if a[1] > b[0]:
                return "overlap-or-order"
        if E and (E[0][0] < t.minTimestamp or E[-1][1] > t.maxTimestamp):
            return "outside-span"
        if any(e[0] < t.minTimestamp or e[1] > t.maxTimestamp for e in E):
            return "outside-span"
    else:
        for a, b in zip(E, E[1:]):
            if a[0] > b[0]:
                return "order"
        if any(e[0] < t.minTimestamp or e[0] > t.maxTimestamp for e in E):
            return "outside-span"
    if not (t.minTimestamp <= t.maxTimestamp):
        return "min>max"
    for e in E:
        if not isinstance(e[-1], str) or e[-1] != e[-1].strip():
            return "label-whitespace"
        for v in e[:-1]:
            if not isinstance(v, numbers.Real) or isinstance(v, bool):  # ints, floats and exact rationals are numbers; strings are not
                return "non-numeric-time"
    with contextlib.redirect_stdout(io.StringIO()):
        ok = t.validate("silence")
    if ok is not True:
        return "validate()-disagrees"
    return None


class _Sink:
    """the least a caller's replacement for sys.stdout has to offer for print() to work: write().  (A GUI log pane, a service's log adapter: no
    flush(), no encoding, no fileno().)  Everything the library prints during call() goes here."""

    def __init__(self):
        self.parts = []

    def write(self, s):
        self.parts.append(s)
        return len(s)

    def getvalue(self):
        return "".join(self.parts)


def call(f, *a, **kw):
    """Run f capturing stdout (in a write()-only stream).  Returns ('ok', value, printed) or ('exc', exception, printed)."""
    buf = _Sink()
    try:
        with contextlib.redirect_stdout(buf):
            v = f(*a, **kw)
        return "ok", v, buf.getvalue()
    except Exception as e:  # noqa
        return "exc", e, buf.getvalue()


def reborn_at(dead_id, make, tries=24):
    """make() again and again (holding on to the misses) until the new object lives at the address `dead_id` of an object that has died - what
    the allocator does by itself sooner or later in a loop over recordings.  Returns the last object made (at that address if it could be had)."""
    y = make()          # first thing: nothing else may be allocated between the death and this
    if id(y) == dead_id:
        return y
    hold = (y, None)    # a linked chain of tuples, not a list: a list would itself take a freed list's place
    for _ in range(tries):
        y = make()
        if id(y) == dead_id:
            break
        hold = (y, hold)
    return y


def exc_name(e):
    return type(e).__name__


def fresh(x):
    """A copy of an option string that is EQUAL to but not the same object as any interned literal or library constant
    (option values reach a library from JSON, argparse, config files ... - never compare them by identity)."""
    if isinstance(x, str):
        return "".join(list(x)) if len(x) > 1 else x
    if isinstance(x, tuple):
        return tuple(fresh(v) for v in x)
    if isinstance(x, list):
        return [fresh(v) for v in x]
    return x


def cmp3(x, y):
    return (x > y) - (x < y)


def order_type(entries, edges):
    """order type of every entry boundary against every edge"""
    return tuple(tuple(cmp3(v, g) for v in e[:-1] for g in edges) for e in entries)


# ------------------------------------------------------------------ scratch files
import atexit as _atexit
import os as _os
import shutil as _shutil
import tempfile as _tempfile

_BASE = _tempfile.mkdtemp(prefix="praatio-verif-", dir="/dev/shm" if _os.path.isdir("/dev/shm") else None)
_PARENT = _os.getpid()


def _cleanup():
    if _os.getpid() == _PARENT:
        _shutil.rmtree(_BASE, ignore_errors=True)


_atexit.register(_cleanup)


def scratch_dir():
    """A private directory for this process (workers are forked after import, so they share _BASE and the
    parent removes it at exit)."""
    d = _os.path.join(_BASE, str(_os.getpid()))
    _os.makedirs(d, exist_ok=True)
    return d
