"""User subclasses.

"For all well-formed tiers and textgrids" includes instances of classes the USER derived from IntervalTier, PointTier and Textgrid - a
subclass that only adds a helper method or an attribute is the ordinary way of attaching project-specific behaviour to an annotation
object, and such an instance IS an interval tier / point tier / textgrid.  A library that decides by exact type (`type(x) is IntervalTier`,
a dispatch table keyed by class, `isinstance(other, type(self))`) treats it as something else.

This part runs every producer of the results-as-operands part with instances of TRIVIAL subclasses (`class WordTier(IntervalTier): pass`)
as receiver, as argument, and as the tiers held by a textgrid, and every written form of such a textgrid, and requires the same VALUES
(names, spans, entries, exception classes, file bytes) as with plain instances.  It deliberately does not look at the CLASS of what an
operation returns (the pinned library is not uniform there: some operations build `type(self)(...)`, others the base class), and it uses
only subclasses that change nothing - a subclass with another constructor signature or with overridden protocol methods is not promised
to work by anything in the properties.
"""
import io
import os

from mc.engine import InputPart, Viol
from mc.props import compose, live
from mc.props.common import IT, PT, Textgrid, call, canon, mk, snap_tg, scratch_dir
from praatio import textgrid as tgmod


class WordTier(IT):
    def words(self):
        return [e.label for e in self.entries]


class ClickTier(PT):
    pass


class ProjectTextgrid(Textgrid):
    pass


def _sub(t):
    cls = WordTier if isinstance(t, IT) else ClickTier
    return cls(t.name, list(t.entries), t.minTimestamp, t.maxTimestamp)


def _norm(x):
    st, r, out = x
    if st == "exc":
        return ("raised", type(r).__name__)
    if isinstance(r, Textgrid):
        return ("tg", snap_tg(r), out)
    if hasattr(r, "entries") and hasattr(r, "tierType"):
        return ("tier", canon(r), out)
    return ("val", repr(r), out)


def _check_tier(case):
    si, pi, role = case
    state = compose.SEEDS[si]
    name, props, f = compose.TIER_PRODUCERS[pi]
    if state[0] == "P" and name in compose.ONLY_INTERVAL:
        return 0, "n/a", None, []
    if name == "delete-in-place" and not state[4]:
        return 0, "n/a", None, []

    def run(subclassed):
        t = mk(state)
        o = [mk(s) for s in compose.OTHERS[state[0]]] + [mk(live.LATE[state[0]])]
        if subclassed and role.startswith("span-given-as-"):
            # the constructor's minT / maxT given as exact decimal / rational / (where integral) int values: the constructor has always turned
            # them into floats, so the tier is the same tier
            import decimal
            import fractions
            conv = {"span-given-as-Decimal": lambda x: decimal.Decimal(repr(float(x))), "span-given-as-Fraction": lambda x: fractions.Fraction(float(x)),
                    "span-given-as-int": lambda x: int(x) if float(x).is_integer() else x}[role]
            kind, name, lo, hi, entries = state
            t = (IT if kind == "I" else PT)(name, list(entries), conv(lo), conv(hi))
        elif subclassed:
            if role in ("receiver", "both"):
                t = _sub(t)
            if role in ("arguments", "both"):
                o = [_sub(x) for x in o]
        res = call(f, t, o)
        return _norm(res), canon(t), [canon(x) for x in o]
    plain, sub = run(False), run(True)
    if plain != sub:
        return 2, "!", None, [Viol("subclass-instance-treated-differently" if not role.startswith("span") else "tier-with-" + role + "-treated-differently",
                                   f"{name} on {state} with " + ("trivial subclasses (class WordTier(IntervalTier) / ClickTier(PointTier)) as " + role
                                                                 if not role.startswith("span") else "the receiver constructed with its " + role) + ": "
                                   f"{str(sub)[:400]}; with plain tiers: {str(plain)[:400]}")]
    return 2, "ok", (state[0], name, role), []


def _tg_with_subclasses(si, tgcls):
    src = compose._tg_seed(si)
    tg = tgcls(src.minTimestamp, src.maxTimestamp)
    for t in src.tiers:
        tg.addTier(_sub(t) if tgcls is not Textgrid or True else t)
    return tg


def _check_tg(case):
    si, pi = case
    name, props, f = compose.TG_PRODUCERS[pi]
    viols = []
    plain = _norm(call(f, compose._tg_seed(si)))
    for tgcls in (Textgrid, ProjectTextgrid):
        got = _norm(call(f, _tg_with_subclasses(si, tgcls)))
        if got != plain:
            viols.append(Viol("subclass-instance-treated-differently",
                              f"textgrid {name} on seed {si} holding WordTier / ClickTier instances (textgrid class {tgcls.__name__}): {str(got)[:400]}; "
                              f"with plain tiers: {str(plain)[:400]}"))
            break
    return 3, "ok", (si, name), viols


def _check_files(case):
    si, fmt, blanks = case
    fn = os.path.join(scratch_dir(), "subclass.TextGrid")

    def written(tg):
        st, r, _ = call(tg.save, fn, fmt, blanks, None, None, 1e-8, "silence")
        if st == "exc":
            return ("raised", type(r).__name__)
        with io.open(fn, "rb") as fd:
            data = fd.read()
        return (data, _norm(call(tgmod.openTextgrid, fn, True, "silence")))
    plain = written(compose._tg_seed(si))
    for tgcls in (Textgrid, ProjectTextgrid):
        got = written(_tg_with_subclasses(si, tgcls))
        if got != plain:
            return 2, "!", None, [Viol("subclass-instance-saved-differently",
                                       f"save({fmt}, includeBlankSpaces={blanks}) of seed textgrid {si} holding WordTier / ClickTier instances (textgrid class "
                                       f"{tgcls.__name__}): {str(got)[:300]}; with plain tiers: {str(plain)[:300]}")]
    return 2, "ok", (si, fmt, blanks), []


def _dispatch(case):
    kind = case[0]
    return {"tier": _check_tier, "tg": _check_tg, "file": _check_files}[kind](case[1])


def part(prop):
    tier_cases, tg_cases = compose._cases(prop)
    files = prop in ("C01", "C02", "C03", "C04", "C13")
    if not tier_cases and not tg_cases and not files:
        return None

    def gen():
        for si, pi in tier_cases:
            for role in ("receiver", "arguments", "both", "span-given-as-Decimal", "span-given-as-Fraction", "span-given-as-int"):
                yield ("tier", (si, pi, role))
        for si, pi in tg_cases:
            yield ("tg", (si, pi))
        if files or tg_cases:
            for si in range(3):
                for fmt in ("short_textgrid", "long_textgrid", "json", "textgrid_json"):
                    for blanks in (True, False):
                        yield ("file", (si, fmt, blanks))
    return InputPart("trivial-subclass-instances", gen, _dispatch,
                     rule="every producer of this property run with instances of trivial user subclasses (class WordTier(IntervalTier), ClickTier(PointTier), "
                          "ProjectTextgrid(Textgrid), nothing overridden) as receiver, as arguments, as both, and as the tiers of a textgrid; every written "
                          "form of such a textgrid: same values (names, spans, entries, exception classes, file bytes, re-read content) as with plain "
                          "instances; the class of a returned object is not compared; likewise with the receiver constructed with minT / maxT given as "
                          "decimal.Decimal, fractions.Fraction or int values (the constructor converts them)", bounds={}, chunk=8)
