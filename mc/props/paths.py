"""Path shapes and pre-existing files.

The per-property harnesses write every file to an absolute path in a scratch directory that they control.  A change that only
shows for another SHAPE of path (a bare file name relative to the working directory, a directory or a stem with dots in it, no
extension, non-ASCII or blank characters) or only when something is ALREADY at that path (a longer file, a shorter file, the
result of the same save) is invisible to them.  This module enumerates writer x path shape x prior state of the path:

  * the bytes written through the shaped path equal the bytes written to a plain absolute reference path;
  * exactly one file appears, at the path that was given (the directory listing is compared - nothing next to it, nothing renamed);
  * reading through the shaped path returns what reading the reference returns;
  * a save that is refused (argument validation, a span override that would cut an entry) leaves the directory as it was -
    an existing file keeps its bytes, no new file appears.

Writers: Textgrid.save x 4 formats (C01, C02, C04, C13), openTextgrid (C01, C03), PointObject save / open and Klattgrid save /
open (C19), Wav.save / Wav.open / QueryWav (C16), loadTimeSeriesData (C20).
"""
import io
import os
import shutil

from mc.engine import InputPart, Viol
from mc.models import wavmodel as W
from mc.props.common import IT, PT, Textgrid, call, snap_tg, scratch_dir
from praatio import audio, data_points, klattgrid, textgrid as tgmod
from praatio import pitch_and_intensity as pi
from praatio.data_classes.data_point import PointObject1D, PointObject2D

SHAPES = (
    ("bare", "x.EXT"), ("dot-slash", "./x.EXT"), ("subdir", "sub/x.EXT"), ("dotted-dir", "my.dir/x.EXT"), ("no-extension", "sub/x"),
    ("dotted-stem", "sub/take.2.final.EXT"), ("hidden", "sub/.hidden.EXT"), ("absolute", "ABS/sub/x.EXT"), ("dot-dot", "sub/../sub/x.EXT"),
    ("non-ascii", "dïr/été.EXT"), ("blank-in-name", "sub/a b.EXT"), ("other-extension", "sub/x.EXT.bak"),
    ("dotted-dir-no-extension", "my.dir/x"),
    # a name whose extension "says" another format than the content (the format is an argument of save(), the reader looks at the content)
    ("json-extension", "sub/x.json"), ("upper-case-json-extension", "sub/X.JSON"), ("textgrid-extension", "sub/x.TextGrid"), ("txt-extension", "sub/x.txt"),
)
PRIOR = ("fresh", "over-a-longer-file", "over-a-shorter-file", "saved-twice",
         # near-copies of what is about to be written (the file went through another tool, or holds the previous version of the same data):
         "over-a-crlf-copy", "over-a-cr-copy", "over-a-copy-with-bom", "over-a-copy-with-one-character-changed", "over-a-copy-with-a-blank-line-added")
DIRS = ("sub", "my.dir", "dïr", "ref")


def _tg():
    tg = Textgrid(0.0, 3.0)
    tg.addTier(IT("words", [(0.0, 1.0, "a\nsecond line"), (1.5, 2.0, 'b "q"'), (2.0, 3.0, "é")], 0.0, 3.0))
    tg.addTier(PT("clicks", [(0.5, "x"), (2.5, "y")], 0.0, 3.0))
    return tg


def _klatt_file(fn):
    from mc.props import c19
    spec = c19._source(("syn", 2, 2, 0, " ", True))[1]
    with io.open(fn, "w", encoding="utf-8") as fd:
        fd.write(c19.klatt_text(spec, " ", True))


def _kg_dump(kg):
    from mc.props import c19
    return repr(c19.dump(kg))


SMP = [((i * 7) % 11) - 5 for i in range(40)]


def _wav():
    return audio.Wav(W.pack(SMP, 2), [1, 2, 1000, len(SMP), "NONE", "not compressed"])


# kind -> (extension, writer(path), reader(path) -> comparable, properties)
def _kinds():
    K = {}
    for fmt in ("short_textgrid", "long_textgrid", "json", "textgrid_json"):
        K["textgrid:" + fmt] = ("TextGrid" if "json" not in fmt else "json",
                                lambda p, fmt=fmt: _tg().save(p, fmt, True, None, None, None, "silence"),
                                lambda p: snap_tg(tgmod.openTextgrid(p, True, "silence")),
                                ("C01", "C02", "C03", "C04", "C13"))
    K["pointprocess"] = ("PointProcess", lambda p: PointObject1D([(0.25,), (0.5,), (1.75,)], "PointProcess", 0.0, 2.0).save(p),
                         lambda p: (lambda o: (o.objectClass, o.minTime, o.maxTime, [tuple(x) for x in o.pointList]))(data_points.open1DPointObject(p)), ("C19",))
    K["pitchtier"] = ("PitchTier", lambda p: PointObject2D([(0.25, 100.0), (0.5, 120.5)], "PitchTier", 0.0, 1.0).save(p),
                      lambda p: (lambda o: (o.objectClass, o.minTime, o.maxTime, [tuple(x) for x in o.pointList]))(data_points.open2DPointObject(p)), ("C19",))

    def kg_write(p):
        src = os.path.join(scratch_dir(), "paths-src.KlattGrid")
        _klatt_file(src)
        klattgrid.openKlattgrid(src).save(p)
    K["klattgrid"] = ("KlattGrid", kg_write, lambda p: _kg_dump(klattgrid.openKlattgrid(p)), ("C19",))
    K["wav"] = ("wav", lambda p: _wav().save(p),
                lambda p: (bytes(audio.Wav.open(p).frames), tuple(audio.Wav.open(p).params)[:4], bytes(audio.QueryWav(p).getFrames()), audio.QueryWav(p).duration),
                ("C16",))

    def ts_write(p):
        with io.open(p, "w", encoding="utf-8") as fd:
            fd.write("time,pitch,intensity\n0.01,100.5,60\n0.02,--undefined--,61\n0.03,104,62\n")
    K["timeseries"] = ("txt", ts_write, lambda p: (pi.loadTimeSeriesData(p), pi.loadTimeSeriesData(p, 0.0)), ("C20",))
    return K


_K = None


def kinds():
    global _K
    if _K is None:
        _K = _kinds()
    return _K


def _listing(base):
    out = []
    for root, dirs, files in os.walk(base):
        for f in files:
            out.append(os.path.relpath(os.path.join(root, f), base))
    return sorted(out)


def _read(p):
    with io.open(p, "rb") as fd:
        return fd.read()


def _check(case):
    kind, shape_name, prior = case
    ext, writer, reader, props = kinds()[kind]
    shape = dict(SHAPES)[shape_name].replace("EXT", ext)
    base = os.path.join(scratch_dir(), "paths")
    shutil.rmtree(base, ignore_errors=True)
    for d in DIRS:
        os.makedirs(os.path.join(base, d))
    old_cwd = os.getcwd()
    viols = []
    tag = f"{kind} written to {shape!r} (working directory = the base directory; {prior})"
    try:
        os.chdir(base)
        ref = os.path.join(base, "ref", "ref." + ext)
        st, r, _ = call(writer, ref)
        if st == "exc":
            return 1, "ref-raised", None, [Viol("reference-write-raised:" + type(r).__name__, f"{kind}: {r!r}")]
        want = _read(ref)
        want_obj = call(reader, ref)
        path = shape.replace("ABS", base)
        rel = os.path.relpath(os.path.normpath(os.path.join(base, path)), base)
        if prior == "over-a-longer-file":
            with io.open(path, "wb") as fd:
                fd.write(want * 3 + b"\ntrailing junk of an older, longer file\n" * 20)
        elif prior == "over-a-shorter-file":
            with io.open(path, "wb") as fd:
                fd.write(want[: len(want) // 3])
        elif prior == "saved-twice":
            call(writer, path)
        elif prior.startswith("over-a-c"):
            near = {"over-a-crlf-copy": lambda b: b.replace(b"\n", b"\r\n"),
                    "over-a-cr-copy": lambda b: b.replace(b"\n", b"\r"),
                    "over-a-copy-with-bom": lambda b: b"\xef\xbb\xbf" + b,
                    "over-a-copy-with-one-character-changed": lambda b: b[:len(b) // 2] + (b"#" if b[len(b) // 2:len(b) // 2 + 1] != b"#" else b"%") + b[len(b) // 2 + 1:],
                    "over-a-copy-with-a-blank-line-added": lambda b: b + b"\n"}[prior](want)
            with io.open(path, "wb") as fd:
                fd.write(near)
            os.utime(path, (os.stat(ref).st_atime, os.stat(ref).st_mtime))     # ... with the time stamp of the reference file
        st, r, out = call(writer, path)
        if st == "exc":
            viols.append(Viol("write-raised:" + type(r).__name__, f"{tag}: {r!r}"))
        else:
            files = _listing(base)
            expect = sorted({os.path.join("ref", "ref." + ext), rel})
            if files != expect:
                viols.append(Viol("files-created", f"{tag}: the directory now holds {files}, expected {expect}"))
            elif _read(path) != want:
                got = _read(path)
                viols.append(Viol("bytes-differ", f"{tag}: {len(got)} bytes at the path, {len(want)} at the reference path"
                                                  f"{'; the reference content is a prefix of it' if got.startswith(want) else ''}"))
            else:
                got_obj = call(reader, path)
                if (got_obj[0], repr(got_obj[1]) if got_obj[0] == "ok" else type(got_obj[1]).__name__) != \
                        (want_obj[0], repr(want_obj[1]) if want_obj[0] == "ok" else type(want_obj[1]).__name__):
                    viols.append(Viol("read-differs", f"{tag}: reading through the path gives {str(got_obj[:2])[:300]}, the reference {str(want_obj[:2])[:300]}"))
                # the same relative name resolved against another working directory afterwards: the file of THAT directory is read
                if not os.path.isabs(path) and not viols:
                    os.chdir(os.path.join(base, "ref"))
                    again = call(reader, path)
                    if again[0] == "ok":
                        viols.append(Viol("read-ignores-working-directory", f"{tag}: after chdir to another directory the relative path {path!r} still reads "
                                                                            f"{str(again[1])[:200]} (no such file there)"))
    finally:
        os.chdir(old_cwd)
        shutil.rmtree(base, ignore_errors=True)
    return 3, "ok", (kind, shape_name, prior), viols


# ------------------------------------------------------------------ refused saves leave the directory alone
def _refused_cases():
    for fmt in ("short_textgrid", "long_textgrid", "json", "textgrid_json"):
        for why in ("max-override-cuts-an-entry", "min-override-cuts-an-entry", "bad-format", "bad-reporting-mode", "inconsistent-error-mode"):
            for prior in ("no-file", "existing-file"):
                for shape_name in ("bare", "subdir"):
                    yield ("refused", fmt, why, prior, shape_name)


def _check_refused(case):
    _, fmt, why, prior, shape_name = case
    shape = dict(SHAPES)[shape_name].replace("EXT", "TextGrid")
    base = os.path.join(scratch_dir(), "paths")
    shutil.rmtree(base, ignore_errors=True)
    for d in DIRS:
        os.makedirs(os.path.join(base, d))
    old_cwd = os.getcwd()
    viols = []
    try:
        os.chdir(base)
        if prior == "existing-file":
            _tg().save(shape, "long_textgrid", True, None, None, None, "silence")
        before = {f: _read(os.path.join(base, f)) for f in _listing(base)}
        tg = _tg()
        args = [shape, fmt, True, None, None, None, "silence"]
        if why == "max-override-cuts-an-entry":
            args[4] = 2.5
        elif why == "min-override-cuts-an-entry":
            args[3] = 0.5
        elif why == "bad-format":
            args[1] = "bogus"
        elif why == "bad-reporting-mode":
            args[6] = "bogus"
        else:
            tg.tiers[0].maxTimestamp = 2.75
            args[6] = "error"
        st, r, _ = call(tg.save, *args)
        tag = f"save({', '.join(repr(a) for a in args)}) [{why}; {prior}]"
        after = {f: _read(os.path.join(base, f)) for f in _listing(base)}
        if st != "exc":
            viols.append(Viol("not-refused", f"{tag}: the save went through"))
        elif after != before:
            viols.append(Viol("refused-save-touched-the-directory",
                              f"{tag} raised {type(r).__name__} but the directory changed: before {sorted((f, len(b)) for f, b in before.items())}, "
                              f"after {sorted((f, len(b)) for f, b in after.items())}"))
    finally:
        os.chdir(old_cwd)
        shutil.rmtree(base, ignore_errors=True)
    return 1, "refused", (fmt, why, prior), viols


def _dispatch(case):
    return _check_refused(case) if case[0] == "refused" else _check(case)


def part(prop):
    ks = [k for k, v in kinds().items() if prop in v[3]]
    if not ks:
        return None

    def gen():
        for k in ks:
            for shape_name, _ in SHAPES:
                for prior in PRIOR:
                    yield (k, shape_name, prior)
        if prop in ("C04", "C13", "C02"):
            yield from _refused_cases()
    return InputPart("path-shapes-and-existing-files", gen, _dispatch,
                     rule="%d writer(s) x %d path shapes (bare name, ./, sub-directory, dots in the directory or the stem, no / another extension, "
                          "hidden, absolute, .., non-ASCII, blank, the extension of another format) x the path being fresh / holding a longer file / a shorter file / the same save / a near-copy of the new "
                          "content (CR LF or CR line ends, a byte-order mark, one character changed at the same length and time stamp, a blank line added): "
                          "same bytes as at a plain absolute path, exactly one file at exactly that path, reading through the path agrees, a "
                          "relative path follows the working directory; refused saves leave the directory untouched" % (len(ks), len(SHAPES)),
                     bounds={"writers": len(ks), "shapes": len(SHAPES), "prior_states": len(PRIOR)}, chunk=4)
