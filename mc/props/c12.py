"""C12 - a Textgrid is an ordered, uniquely named tier map and edits act tier-wise.

(a) explicit-state BFS over addTier(at every index) / removeTier / renameTier / replaceTier with 4 names (one of
    them never added directly, so 'absent' is always available), 5 tier slots and a tier-count cap, run to the
    reachability FIXED POINT, compared with a plain ordered-list model after every transition;
(b) Textgrid-level crop / eraseRegion / insertSpace / editTimestamps == the same real operation applied to each tier,
    same names and order, validate() True where the property promises it;
(c) mergeTiers == left fold of union (shared with C10).
"""
import itertools

from mc import domains as D
from mc.engine import BfsPart, InputPart, Viol
from mc.props import c10
from mc.props.common import IT, PT, Textgrid, errors, PE, call, canon, snap_tg, fresh, constants

NAMES = ("a", "b", "c", "d")
SLOTS = (
    ("I", ((0.0, 1.0, "x"),), 0.0, 2.0),
    ("P", ((1.0, "p"),), 0.0, 2.0),
    ("I", ((0.0, 3.0, "y"),), 0.0, 3.0),
    ("P", (), 0.0, 2.0),
    ("I", (), 1.0, 2.0),
    ("I", ((-1.0, 1.0, "z"),), -1.0, 2.0),
    # slots 6-11: spans that nearly coincide - one ulp apart (0.3 vs 0.1+0.2) and 7.8 ms apart at 2**40; used by the near-tie part only
    ("I", (), 0.1, 0.3),
    ("P", (), 0.1, 0.1 + 0.2),
    ("I", (), 0.1 + 0.2 - 0.2, 0.3),
    ("I", (), D.BIG[0], D.BIG[-1]),
    ("P", (), D.BIG[0], D.BIG[-1] + 2.0 ** -7),
    ("I", (), D.BIG[0] - 2.0 ** -7, D.BIG[-1]),
    # slots 12-13: a legitimate interval whose duration is tiny RELATIVE to its timestamps (one ulp at 0.3; 7.8 ms at 2**40); the tier is
    # assembled with insertEntry, as a user would who records such an entry
    ("Ii", ((0.3, 0.1 + 0.2, "u"),), 0.1, 1.3),
    ("Ii", ((D.BIG[0], D.BIG[1], "u"), (D.BIG[4], D.BIG[5], "v")), D.BIG[0], D.BIG[-1]),
)
NEAR = (6, 7, 8, 9, 10, 11)
TINY = (12, 13)


def slot_tier(i, name):
    kind, entries, lo, hi = SLOTS[i]
    if kind == "Ii":
        t = IT(name, [], lo, hi)
        for e in entries:
            t.insertEntry(constants.Interval(*e), "error", "silence")
        return t
    return (IT if kind == "I" else PT)(name, list(entries), lo, hi)


def slot_canon(i, name):
    kind, entries, lo, hi = SLOTS[i]
    return (kind[0], name, lo, hi, entries)


def build(state):
    L, lo, hi = state
    tg = Textgrid(lo, hi)
    for name, s in L:
        tg.addTier(slot_tier(s, name), reportingMode="silence")
    # the constructor span is authoritative for the state (a span never shrinks when tiers are removed)
    tg.minTimestamp, tg.maxTimestamp = lo, hi
    return tg


def m_apply(m, op):
    """ordered-list model: returns the new model state or the name of the expected exception class
    ('*' = any exception, for absent names)."""
    L, lo, hi = list(m[0]), m[1], m[2]
    names = [n for n, _ in L]
    widened = [False]

    def widen(s, mode):
        nonlocal lo, hi
        a, b = SLOTS[s][2], SLOTS[s][3]
        ch = (lo is not None and a < lo) or (hi is not None and b > hi)
        widened[0] = ch
        if ch and mode == "error":
            return "TextgridStateAutoModified"
        lo = a if lo is None else min(lo, a)
        hi = b if hi is None else max(hi, b)
        return None

    k = op[0]
    if k == "add":
        _, nm, s, idx, mode = op
        if nm in names:
            return "TierNameExistsError", False
        e = widen(s, mode)
        if e:
            return e, True
        if idx is None:
            L.append((nm, s))
        else:
            L.insert(idx, (nm, s))  # python list.insert semantics for negative / oversized indices
    elif k == "rm":
        if op[1] not in names:
            return "*", False
        del L[names.index(op[1])]
    elif k == "ren":
        _, old, new = op
        if old not in names:
            return "*", False
        if new != old and new in names:
            return "TierNameExistsError", False
        i = names.index(old)
        L[i] = (new, L[i][1])
    elif k == "rep":
        _, old, new, s, mode = op
        if old not in names:
            return "*", False
        if new != old and new in names:
            return "TierNameExistsError", False
        e = widen(s, mode)
        if e:
            return e, True
        L[names.index(old)] = (new, s)
    return (tuple(L), lo, hi), widened[0]


def m_obs(m):
    return (tuple(n for n, _ in m[0]), m[1], m[2], tuple(slot_canon(s, n) for n, s in m[0]))


_SE = fresh(("silence", "error"))
_W = fresh("warning")


def _ops(maxtiers, nslots):
    def ops(m):
        n = len(m[0])
        if n < maxtiers:
            for nm in NAMES[:3]:
                for s in range(nslots):
                    for idx in [None] + list(range(-2, n + 3)):
                        for mode in _SE:
                            yield ("add", nm, s, idx, mode)
                    yield ("add", nm, s, None, _W)
        for nm in NAMES:
            yield ("rm", nm)
        for a in NAMES:
            for b in NAMES:
                yield ("ren", a, b)
        # a new name that is another tier's name plus white space ("notes " next to "notes"): a name of its own - tier names are kept as given
        for a in NAMES[:2]:
            for b in NAMES[:3]:
                if a != b:
                    yield ("ren", a, b + " ")
                    yield ("ren", a, " " + b)
        for a in NAMES:
            for b in NAMES[:3]:
                for s in (0, 2, 3, 5)[: 3 if nslots < 6 else 4]:
                    for mode in _SE:
                        yield ("rep", a, b, s, mode)
    return ops


def _ops_near(m):
    """menu over the nearly coinciding spans: a span that is wider by one ulp / by 7.8 ms at 2**40 still widens the textgrid"""
    if len(m[0]) < 2:
        for nm in NAMES[:2]:
            for s in NEAR:
                for mode in _SE:
                    yield ("add", nm, s, None, mode)
                yield ("add", nm, s, None, _W)
    for nm in NAMES[:2]:
        yield ("rm", nm)
    for a in NAMES[:2]:
        for s in NEAR:
            for mode in _SE:
                yield ("rep", a, a, s, mode)


MANY = (5, 6, 7, 9, 10, 11, 12, 16, 17)


def _ops_many(m):
    names = [nm for nm, _ in m[0]]
    n = len(names)
    for idx in [None] + list(range(-n - 2, n + 3)):
        yield ("add", "new", 0, idx, "silence")
    yield ("add", names[n // 2], 0, 1, "silence")  # duplicate name
    for nm in names + ["absent"]:
        yield ("rm", nm)
        yield ("ren", nm, "renamed")
        yield ("ren", nm, names[0])
        yield ("rep", nm, nm, 2, "silence")
        yield ("rep", nm, "replaced", 3, "silence")


def _apply(tg, op, pool=None):
    """pool: list collecting (tier object, its canonical form) for every tier object handed to the textgrid"""
    k = op[0]
    if k in ("add", "rep"):
        t = slot_tier(op[2], op[1]) if k == "add" else slot_tier(op[3], op[2])
        if pool is not None:
            pool.append((t, canon(t)))
        if k == "add":
            return tg.addTier(t, op[3], op[4])
        return tg.replaceTier(op[1], t, op[4])
    if k == "rm":
        return tg.removeTier(op[1])
    if k == "ren":
        return tg.renameTier(op[1], op[2])
    raise ValueError(op)


def _step(m, op, tg=None):
    """tg: an already existing LIVE textgrid that is claimed to be in state m (history-independence check)"""
    if tg is None:
        tg = build(m)
    before = snap_tg(tg)
    if before != m_obs(m):
        return None, 0, "build-mismatch", None, [Viol("state-rebuild-mismatch", f"textgrid rebuilt from {m} observes as {before}")]
    exp, widened = m_apply(m, op)
    held = list(tg.tiers)       # the caller's handles on the tiers: after a refused call every name still maps to the SAME object
    st, r, out = call(_apply, tg, op)
    after = snap_tg(tg)
    tag = f"{op} on names={before[0]} span=({before[1]},{before[2]})"
    if isinstance(exp, str):
        if st != "exc":
            return None, 1, "!", None, [Viol("expected-" + exp, f"{tag}: no exception; textgrid now {after[:3]}")]
        if exp != "*" and type(r).__name__ != exp:
            return None, 1, "!", None, [Viol("wrong-exception", f"{tag}: raised {r!r}, expected {exp}")]
        if after != before:
            return None, 1, "!", None, [Viol("changed-on-failure", f"{tag}: raised {r!r} but the textgrid changed: names {after[0]} span ({after[1]},{after[2]})")]
        if len(tg.tiers) != len(held) or any(a is not b for a, b in zip(tg.tiers, held)):
            return None, 1, "!", None, [Viol("tier-objects-exchanged-on-failure", f"{tag}: raised {r!r}; the textgrid holds equal-valued but DIFFERENT tier objects now: "
                                                                                    f"a tier the caller obtained before the call is no longer the one the textgrid uses")]
        return None, 1, op[0] + ":" + (exp if exp != "*" else "absent"), (op[0], exp, len(m[0])), []
    if st == "exc":
        return None, 1, "!", None, [Viol("unexpected-exception:" + type(r).__name__, f"{tag}: raised {r!r}; the list model allows the operation")]
    if after != m_obs(exp):
        return None, 1, "!", None, [Viol("state-mismatch", f"{tag}: textgrid is names={after[0]} span=({after[1]},{after[2]}) tiers={after[3]}; list model says {m_obs(exp)}")]
    for nm, t in zip(tg.tierNames, tg.tiers):
        if tg.getTier(nm) is not t or t.name != nm:
            return None, 1, "!", None, [Viol("name-map-mismatch", f"{tag}: getTier({nm!r}) is not the tier at that position / tier.name={t.name!r}")]
    if len(op) == 5 and op[-1] == "warning" and bool(out) != widened:
        return None, 1, "!", None, [Viol("warning-mismatch", f"{tag}: warning printed={bool(out)} but span widened={widened}")]
    if op[-1] in ("silence", "error") and out:
        return None, 1, "!", None, [Viol("unexpected-output", f"{tag}: printed {out!r}")]
    idxclass = None
    if op[0] == "add" and op[3] is not None:
        idxclass = "neg" if op[3] < 0 else ("over" if op[3] > len(m[0]) else "in")
    if op[0] == "ren" and isinstance(op[2], str) and op[2] != op[2].strip():
        exp = None      # checked, but not expanded: states with white-space-padded names would only multiply the state space
    return exp, 1, op[0], (op[0], len(m[0]), idxclass, widened), []


def _snippet(case):
    m, op = case
    lines = ["from praatio import textgrid", "tg = textgrid.Textgrid(%r, %r)" % (m[1], m[2])]
    for name, s in m[0]:
        kind, entries, lo, hi = SLOTS[s]
        lines.append("tg.addTier(textgrid.%s(%r, %r, %r, %r), reportingMode='silence')" % (
            "IntervalTier" if kind[0] == "I" else "PointTier", name, list(entries), lo, hi))
    lines.append("tg.minTimestamp, tg.maxTimestamp = %r, %r" % (m[1], m[2]))

    def tier_src(s, name):
        kind, entries, lo, hi = SLOTS[s]
        return "textgrid.%s(%r, %r, %r, %r)" % ("IntervalTier" if kind[0] == "I" else "PointTier", name, list(entries), lo, hi)
    if op[0] == "add":
        lines.append(f"tg.addTier({tier_src(op[2], op[1])}, {op[3]!r}, {op[4]!r})")
    elif op[0] == "rm":
        lines.append(f"tg.removeTier({op[1]!r})")
    elif op[0] == "ren":
        lines.append(f"tg.renameTier({op[1]!r}, {op[2]!r})")
    else:
        lines.append(f"tg.replaceTier({op[1]!r}, {tier_src(op[3], op[2])}, {op[4]!r})")
    lines.append("print(tg.tierNames, tg.minTimestamp, tg.maxTimestamp)")
    return "\n".join(lines) + "\n"


def _check_live(case):
    """op1 then op2 on ONE live textgrid; the list model is advanced in lock step (hidden state in the object -
    e.g. a cached name list - would make the second step disagree although each single step from a rebuilt textgrid agrees)"""
    m0, op1, nslots = case
    viols = []
    n = 0
    r1, _w = m_apply(m0, op1)
    m1 = m0 if isinstance(r1, str) else r1
    for op2 in _ops(4, nslots)(m1):
        tg = build(m0)
        pool = [(t, canon(t)) for t in tg.tiers]  # tier objects the caller handed over (and still holds)
        call(_apply, tg, op1, pool)
        succ, k, outcome, nontriv, v = _step(m1, op2, tg=tg)
        n += 1 + k
        if not v:
            for obj, c0 in pool:
                if canon(obj) != c0:
                    v = [Viol("argument-tier-changed-by-later-call", f"then {op2}: a tier object handed to the textgrid earlier was changed in place "
                                                                     f"from {c0} to {canon(obj)} (mutators work on the textgrid, not on the caller's tiers)")]
                    break
        if not v:
            # tier objects the textgrid no longer holds (renamed / replaced / removed ones the caller still has): editing them in place must
            # not reach into the textgrid
            held = {id(x) for x in tg.tiers}
            snap = snap_tg(tg)
            for obj, _c0 in pool:
                if id(obj) in held:
                    continue
                if len(obj.entries):
                    call(obj.deleteEntry, obj.entries[0])
                call(obj.insertEntry, (1.25, 1.5, "edited") if obj.tierType == constants.INTERVAL_TIER else (1.25, "edited"), "merge", "silence")
                n += 1
                if snap_tg(tg) != snap:
                    v = [Viol("textgrid-entangled-with-a-tier-it-no-longer-holds", f"then {op2}: editing a tier object that the textgrid had held before (and "
                                                                                     f"gave up by rename / replace / remove) changed the textgrid: {snap[3]} -> {snap_tg(tg)[3]}")]
                    break
        if v:
            for x in v:
                x["msg"] = f"after {op1} on a live textgrid: " + x["msg"]
            viols.extend(v)
            break
    return n, "ok", (op1[0], len(m0[0])), viols


# ------------------------------------------------------------------ (b) tier-wise edits
def _check_tierwise(case):
    tiers, lo, hi, op = case
    tg = Textgrid(lo, hi)
    objs = []
    uniform = True
    for tt in tiers:
        kind, name, entries = tt[:3]
        tlo, thi = tt[3] if len(tt) > 3 else (lo, hi)  # a tier's own span may be narrower than the textgrid's
        uniform = uniform and (tlo, thi) == (lo, hi)
        t = (IT if kind == "I" else PT)(name, list(entries), tlo, thi)
        objs.append(t)
        tg.addTier(t)
    tiers = tuple(tt[:3] for tt in tiers)
    k = op[0]
    if k == "crop":
        f_tg = lambda: tg.crop(op[1], op[2], op[3], op[4])
        f_t = lambda t: t.crop(op[1], op[2], op[3], op[4])
        must_validate = op[3] != "lax"
    elif k == "erase":
        f_tg = lambda: tg.eraseRegion(op[1], op[2], op[3])
        f_t = lambda t: t.eraseRegion(op[1], op[2], "truncate", op[3])
        must_validate = True
    elif k == "space":
        f_tg = lambda: tg.insertSpace(op[1], op[2], op[3])
        f_t = lambda t: t.insertSpace(op[1], op[2], op[3])
        must_validate = True
    else:
        f_tg = lambda: tg.editTimestamps(op[1], op[2])
        f_t = lambda t: t.editTimestamps(op[1], op[2]) if len(t.entries) else t
        must_validate = False
    st, r, out = call(f_tg)
    per = [call(f_t, t) for t in objs]
    tag = f"Textgrid.{k}{op[1:]} on {tiers} span ({lo},{hi})"
    if any(p[0] == "exc" for p in per):
        if st != "exc":
            return 1 + len(objs), "!", None, [Viol("tierwise-exception-swallowed", f"{tag}: a per-tier call raises "
                                                   f"{[repr(p[1]) for p in per if p[0] == 'exc'][0]} but the textgrid call returned")]
        return 1 + len(objs), k + ":raises", (k, "raises"), []
    if st == "exc":
        if k == "crop" and op[1] >= op[2]:
            return 1 + len(objs), k + ":raises", (k, "raises"), []
        return 1 + len(objs), "!", None, [Viol("tierwise-unexpected-exception:" + type(r).__name__, f"{tag}: raised {r!r}, per-tier calls succeed")]
    msg = None
    if tuple(r.tierNames) != tuple(nm for _, nm, _ in tiers):
        msg = f"names/order {r.tierNames}"
    else:
        for t_exp, t_got in zip((p[1] for p in per), r.tiers):
            if canon(t_exp) != canon(t_got):
                msg = f"tier {t_got.name}: textgrid-level result {canon(t_got)} != per-tier result {canon(t_exp)}"
                break
    if msg is None and must_validate and uniform:
        v = call(r.validate, "silence")
        if v[0] != "ok" or v[1] is not True:
            msg = f"validate() is not True: textgrid span ({r.minTimestamp},{r.maxTimestamp}), tier spans {[(t.minTimestamp, t.maxTimestamp) for t in r.tiers]}"
    if msg:
        return 1 + len(objs), "!", None, [Viol("tierwise-mismatch", f"{tag}: {msg}")]
    changed = sum(1 for t, p in zip(objs, per) if canon(t) != canon(p[1]))
    return 1 + len(objs), k, (k, changed, tuple(len(e) for _, _, e in tiers)), []


def _tierwise_cases(quick):
    grid = D.unit_grid(5)
    sets = D.interval_sets(grid, 2)
    pts = D.point_sets(grid, 2)
    H = D.half_grid(0, 4)
    ops = []
    for a, b in itertools.combinations(H if not quick else grid + (0.5, 2.5), 2):
        for m in ("strict", "lax", "truncated"):
            for rb in (False, True):
                ops.append(("crop", a, b, m, rb))
        for sh in (False, True):
            ops.append(("erase", a, b, sh))
    ops.append(("crop", 2.0, 2.0, "strict", False))
    for s in (H if not quick else grid + (0.5,)):
        for d in (0.5, 2.0):
            for m in ("stretch", "split", "no_change", "error"):
                ops.append(("space", s, d, m))
    for off in (-5.0, -2.0, -0.5, 0.5, 3.0, 0.0):
        for m in ("silence", "error"):
            ops.append(("shift", off, m))
    stride = 4 if quick else 1
    for s1 in sets:
        for s2 in sets[::stride]:
            for p in pts[::stride]:
                tiers = (("I", "a", D.labelled(s1)), ("P", "p", D.labelled_points(p)), ("I", "b", D.labelled(s2, "x")))
                for op in ops:
                    yield (tiers, 0.0, 4.0, op)
    # tiers with entries BEFORE time 0 (a shift - also the shift by nothing, 0 / 0.0 / -0.0 - drops or clips what ends up before 0, tier by tier)
    for nE in (((-3.0, -2.0, "a"), (-1.0, 1.0, "b")), ((-3.0, -1.0, "a"),), ((0.0, 1.0, "a"),), ()):
        for nP in (((-2.0, "x"), (0.0, "y"), (1.0, "z")), ((-1.0, "x"),), ()):
            ntiers = (("I", "a", nE, (-3.0, 2.0)), ("P", "p", nP, (-3.0, 2.0)))
            for off in (0.0, 0, -0.0, 0.5, -1.0, 1.0, 3.0):
                for m in ("silence", "error"):
                    yield (ntiers, -3.0, 2.0, ("shift", off, m))
    # tiers whose own spans are narrower than the textgrid's, in several orders: an argument adjusted for one tier must not
    # leak into the next tier
    short_sets = D.interval_sets((0.0, 1.0, 2.0), 2)
    hops = [o for o in ops if o[0] != "shift"][:: 2 if quick else 1]
    for s1 in short_sets:
        for s2 in sets[:: stride * 2]:
            ta = ("I", "short", D.labelled(s1), (0.0, 2.0))
            tb = ("I", "long", D.labelled(s2, "x"))
            tp = ("P", "p", D.labelled_points((1.0, 3.0)), (0.0, 3.0))
            for order in ((ta, tb, tp), (tb, tp, ta), (tp, ta, tb)):
                for op in hops:
                    yield (order, 0.0, 4.0, op)
    # the size axis: 11 tiers of 17 entries each (interval tiers, gapped and contiguous, and point tiers)
    E1, E2, P1 = D.long_intervals(17, True), D.long_intervals(17, False), D.long_points(17)
    many = tuple(("I", "i%d" % k, E1 if k % 3 == 0 else E2) if k % 3 != 2 else ("P", "p%d" % k, P1) for k in range(11))
    hi_ = E1[-1][1] + 1.0
    cuts = D.size_cuts(E1)
    for a, b in D.size_windows(cuts, near=2, far=1):
        if a < 0 or b > hi_:
            continue
        for m in ("strict", "lax", "truncated"):
            yield (many, 0.0, hi_, ("crop", a, b, m, a > 8))
        yield (many, 0.0, hi_, ("erase", a, b, a > 8))
    for s0 in cuts:
        if 0 <= s0 <= hi_:
            yield (many, 0.0, hi_, ("space", s0, 0.5, "split"))
            yield (many, 0.0, hi_, ("space", s0, 2.0, "stretch"))
    for off in (-5.0, 0.5):
        yield (many, 0.0, hi_, ("shift", off, "silence"))
    # decimals: rounding must not break 'every tier shares the textgrid span'
    dsets = D.interval_sets(D.DEC[:5], 2)
    dE = tuple(sorted(set(D.DEC[:5] + D.DEC_EDGES[:3])))
    dops = []
    for a, b in itertools.combinations(dE, 2):
        for m in ("strict", "truncated"):
            dops.append(("crop", a, b, m, True))
        dops.append(("erase", a, b, True))
    for s in dE:
        for d in (0.3, 1.7):
            dops.append(("space", s, d, "split"))
    for s1 in dsets[::2]:
        for s2 in dsets[::3]:
            tiers = (("I", "a", D.labelled(s1)), ("P", "p", D.labelled_points((0.2, 0.7))), ("I", "b", D.labelled(s2, "x")))
            for op in dops:
                yield (tiers, 0.1, 1.1, op)


def _iter_tg(kinds):
    tg = Textgrid(0.0, 4.0)
    for i, k in enumerate(kinds):
        nm = "t%d" % i
        tg.addTier(IT(nm, [(0.0, 1.0, nm), (2.0, 3.0, "b")], 0.0, 4.0) if k == "I" else PT(nm, [(1.0, nm), (3.0, "q")], 0.0, 4.0))
    return tg


LOOP_BODIES = ("rename-every-tier", "remove-point-tiers", "remove-every-tier", "replace-by-cropped-self", "add-a-companion", "rename-and-move-to-front")


def _loop_body(tg, t, body):
    if body == "rename-every-tier":
        tg.renameTier(t.name, t.name + "_v2")
    elif body == "remove-point-tiers":
        if t.tierType == constants.POINT_TIER:
            tg.removeTier(t.name)
    elif body == "remove-every-tier":
        tg.removeTier(t.name)
    elif body == "replace-by-cropped-self":
        tg.replaceTier(t.name, t.crop(0.0, 4.0, "truncated", False), "silence")
    elif body == "add-a-companion":
        tg.addTier(t.new(t.name + "_copy"), None, "silence")
    elif body == "rename-and-move-to-front":
        tg.removeTier(t.name)
        tg.addTier(t.new(t.name + "_f"), 0, "silence")


def _check_edit_while_iterating(case):
    """a sequence of tier-map edits issued from inside `for tier in textgrid:` (or over textgrid.tiers / tierNames): iteration runs over the tiers
    the textgrid held when the loop started, every edit of the sequence is carried out, and the result is that of the same sequence of edits
    issued one after the other"""
    kinds, body, how = case
    ref = _iter_tg(kinds)
    for t in tuple(ref.tiers):      # the same edits, one after the other, on a twin textgrid
        _loop_body(ref, t, body)
    tg = _iter_tg(kinds)

    def loop():
        if how == "iter":
            for t in tg:
                _loop_body(tg, t, body)
        elif how == "tiers":
            for t in tg.tiers:
                _loop_body(tg, t, body)
        else:
            for nm in tg.tierNames:
                _loop_body(tg, tg.getTier(nm), body)
    st, r, _ = call(loop)
    tag = f"textgrid with tiers {kinds}: `{body}` for every tier, issued inside a loop over {'the textgrid' if how == 'iter' else 'textgrid.' + ('tiers' if how == 'tiers' else 'tierNames')}"
    if st == "exc":
        return 1, "X", None, [Viol("edit-while-iterating-raised:" + type(r).__name__, f"{tag} raised {r!r} after reaching {tuple(tg.tierNames)}")]
    if snap_tg(tg) != snap_tg(ref):
        return 1, "!", None, [Viol("edit-while-iterating-differs", f"{tag}: {snap_tg(tg)[:3]}, the same edits one after the other give {snap_tg(ref)[:3]}")]
    return len(kinds), "ok", (kinds, body, how), []


def parts(tier):
    quick = tier == "quick"
    maxtiers, nslots = (3, 5) if quick else (4, 6)
    empty = ((), None, None)
    # textgrids constructed with ONE bound only: the given bound must survive the first addTier (a span only ever widens)
    one_sided = [((), -2.0, None), ((), None, 5.0), ((), 0.5, None), ((), None, 1.5)]
    ps = [
        BfsPart("textgrid-mutators", lambda: [empty] + one_sided, _ops(maxtiers, nslots), _step,
                rule="BFS from the empty Textgrid (span unset, and %d spans with only one bound given) over addTier(name in a,b,c; %d slots; index None or -2..len+2; reportingMode), "
                     "removeTier, renameTier (all 16 name pairs), replaceTier, with at most %d tiers, to the reachability fixed "
                     "point; ordered-list model (python list.insert semantics) compared after every transition, exceptions "
                     "compared by class, unchanged-on-failure; non-trivial = distinct (op, size, index class, widened)" % (len(one_sided), nslots, maxtiers),
                bounds={"names": 4, "slots": nslots, "max_tiers": maxtiers, "depth": "fixed point"}, max_depth=None,
                snippet=_snippet, state_cap=600000),
        BfsPart("textgrid-mutators-near-tie-spans", lambda: [empty], _ops_near, _step,
                rule="BFS to the fixed point (<=2 tiers) over addTier / removeTier / replaceTier with 6 tiers whose spans nearly coincide: ends 0.3 vs "
                     "0.1+0.2 (one ulp), starts 0.1 vs 0.1+0.2-0.2, and spans at 2**40 that differ by 7.8 ms: the textgrid span still widens to cover "
                     "the wider tier, and the widening is reported as the mode says", bounds={"slots": len(NEAR), "max_tiers": 2, "depth": "fixed point"},
                max_depth=None, snippet=_snippet, state_cap=200000),
        BfsPart("textgrid-mutators-many-tiers", lambda: [(tuple(("t%d" % i, (0, 1, 3)[i % 3]) for i in range(k)), 0.0, 2.0) for k in MANY], _ops_many, _step,
                rule="one mutator call on textgrids that already hold %s tiers: addTier at every index from -(n+2) to n+2 (and None), removeTier, "
                     "renameTier and replaceTier of every tier, name clashes and absent names: names, order and mapping follow the ordered-list model"
                     % (list(MANY),), bounds={"tiers": list(MANY), "depth": 1}, max_depth=1, snippet=_snippet),
        InputPart("live-sequences", lambda: ((m0, op1, 5) for m0 in (((), None, None), ((("a", 0),), 0.0, 2.0), ((("b", 1), ("a", 2)), 0.0, 3.0),
                                                                     ((("a", 0), ("b", 3), ("d", 4)), 0.0, 2.0))
                                             for op1 in _ops(4, 5)(m0)), _check_live,
                  rule="every pair (op1, op2) of mutator calls applied one after the other to ONE live Textgrid from 4 seed textgrids, the "
                       "list model advanced in lock step: the object's behaviour may depend on nothing but its observable state",
                  bounds={"sequence_length": 2}, chunk=4),
        InputPart("tierwise-edits", lambda: _tierwise_cases(quick), _check_tierwise,
                  rule="3-tier textgrids from interval sets(<=2) x point sets x every argument of crop / eraseRegion / insertSpace / "
                       "editTimestamps on the half grid (and decimal variants): the textgrid-level result equals the real per-tier "
                       "operation on every tier, same names and order, validate() True for crop strict/truncated, eraseRegion, "
                       "insertSpace; non-trivial = distinct (op, number of tiers changed, tier sizes)",
                  bounds={"tiers": 3}),
    ]
    ps += [p for p in c10.parts(tier) if p.name == "mergeTiers"]
    ps.append(InputPart("edits-issued-while-iterating",
                        lambda: ((k, b, h) for n in (1, 2, 3, 4) for k in itertools.product("IP", repeat=n) for b in LOOP_BODIES for h in ("iter", "tiers", "names")),
                        _check_edit_while_iterating,
                        rule="textgrids of 1-4 interval / point tiers x %d loop bodies (rename / remove / replace / add / move per tier) x the loop written over "
                             "the textgrid itself, over .tiers and over .tierNames: every edit is carried out and the final names, order, spans and tiers are "
                             "those of the same edits issued one after the other" % len(LOOP_BODIES), bounds={"tiers": 4}))
    return ps
