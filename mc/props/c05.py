"""C05 - every reachable tier is well-formed (sorted, disjoint, inside its span).

(a) constructors: every entry list of <= 3 entries over a small grid including unsorted, overlapping, reversed,
    zero-length, string-typed and whitespace-padded entries x requested spans;
(b) files: the invariant is evaluated on every tier produced by the readers in C01/C03 (see those harnesses);
(c) histories: explicit-state BFS over the real operations -
    broad regime: the full menu (crop, eraseRegion, insertSpace, editTimestamps, insertEntry x 3 modes, deleteEntry,
        union, difference, intersection, mergeLabels, appendTier, dejitter, morph, new) to a depth bound, on a dyadic and
        on a decimal grid, for interval and point tiers;
    deep regime: a reduced menu that keeps times on the grid, run to the REACHABILITY FIXED POINT under a span cap,
        which covers histories of every length over that menu.
Invariant on every state: the C05 clauses + validate('silence').  A transition may instead raise a praatio error.
"""
import itertools

from mc import domains as D
from mc.engine import BfsPart, InputPart, Viol
from mc.props import tierops
from mc.props.common import IT, PT, PE, call, wellformed, canon, mk, ents


def _norm(c):
    return (c[0], "t") + c[2:]


def _mk_step(others_states):
    others = [mk(s) for s in others_states]

    def step(state, op):
        t = mk(state)
        st, r, out = call(tierops.apply, t, op, others)
        if st == "exc":
            if isinstance(r, PE):
                # the tier that is left behind after a refused / reported operation is obtainable too
                w0 = wellformed(t)
                if w0:
                    return None, 1, "ill-formed", None, [Viol("ill-formed-after-error:" + w0,
                                                              f"{op} on {state} raised {r!r} and left the receiver as {canon(t)}")]
                return None, 1, op[0] + ":" + type(r).__name__, None, []
            return None, 1, "X", None, [Viol("non-praatio-exception:" + type(r).__name__,
                                             f"{op} on {state} raised {r!r} (only praatio errors may replace a result)")]
        w = wellformed(r)
        if w:
            return None, 1, "ill-formed", None, [Viol("ill-formed:" + w, f"{op} on {state} returned {canon(r)}")]
        succ = _norm(canon(r))
        if r is not t:
            # every tier obtainable stays well-formed: editing the derived tier in place (an entry in the MIDDLE of the span) must
            # leave the source it was derived from untouched and well-formed
            before = canon(t)
            mid = (t.minTimestamp + t.maxTimestamp) / 2
            call(r.insertEntry, tierops.Interval(mid - 0.125, mid + 0.125, "probe") if r.tierType == "IntervalTier" else tierops.Point(mid, "probe"), "merge", "silence")
            w2 = wellformed(t)
            if w2 or canon(t) != before:
                return None, 2, "ill-formed", None, [Viol("source-corrupted-by-editing-derived-tier",
                                                          f"{op} on {state}: after insertEntry on the returned tier the source is {canon(t)} ({w2 or 'changed'})")]
        return succ, 1, op[0], (op[0], len(state[4]), len(succ[4])) if succ != state else None, []
    return step


def _prune_fn(maxhi, lablen):
    def prune(state):
        return state[3] > maxhi or state[2] < -1 or any(len(e[-1]) > lablen for e in state[4])
    return prune


# ------------------------------------------------------------------ deep regime
DEEP_V = (0.0, 1.0, 2.0, 3.0, 4.0)
DEEP_REF = ("I", "r", 0.0, 4.0, ((1.0, 3.0, "r"),))


def _deep_ops(state):
    kind, name, lo, hi, entries = state
    for a, b in itertools.combinations(DEEP_V, 2):
        for m in ("strict", "truncated"):
            for rb in (False, True):
                yield ("crop", a, b, m, rb)
        if lo <= a and b <= hi:
            for m in ("truncate", "categorical"):
                for sh in (False, True):
                    yield ("erase", a, b, m, sh)
        for m in ("replace", "error"):
            yield ("insert", a, b, m)
    for i in range(len(entries)):
        yield ("delete", i)
    for off in (-1.0, 1.0):
        yield ("shift", off)
    yield ("difference", 0)
    for s in DEEP_V:
        if lo <= s <= hi:
            yield ("space", s, 1.0, "split")


# ------------------------------------------------------------------ constructors
def _check_ctor(case):
    kind, entries, minT, maxT = case
    cls = IT if kind == "I" else PT
    st, r, out = call(cls, "t", list(entries), minT, maxT)
    if st == "exc":
        if isinstance(r, PE):
            return 1, type(r).__name__, ("rejected", len(entries)), []
        return 1, "X", None, [Viol("constructor-non-praatio-exception:" + type(r).__name__,
                                   f"{cls.__name__}('t', {list(entries)!r}, {minT!r}, {maxT!r}) raised {r!r}")]
    w = wellformed(r)
    if w:
        return 1, "ill-formed", None, [Viol("constructor-ill-formed:" + w,
                                            f"{cls.__name__}('t', {list(entries)!r}, {minT!r}, {maxT!r}) -> {canon(r)}")]
    msg = None
    # every given entry is present (as float times, stripped label)
    want = sorted(tuple(float(v) for v in e[:-1]) + (e[-1].strip(),) for e in entries)
    if ents(r) != want:
        msg = f"entries {ents(r)} are not the given entries normalised {want}"
    if msg:
        return 1, "!", None, [Viol("constructor-result", msg)]
    return 1, "ok", ("ok", len(entries), minT is None, maxT is None), []


def _ctor_cases(quick):
    grid = (0, 1, 2.5, "3")
    ivs = [(a, b) for a in grid for b in grid]  # includes reversed and zero-length
    labs = ("a", " b ", "")
    spans = ((None, None), (0, 3), (1, 2), (None, 5), (-1, None), (0.5, 0.75))
    for n in range(0, 3 if quick else 4):
        for combo in itertools.product(range(len(ivs)), repeat=n):
            if n == 3 and len(set(combo)) < 3 and combo[0] != combo[1]:
                continue
            ent = tuple(ivs[k] + (labs[i % 3],) for i, k in enumerate(combo))
            for sp in spans if n < 3 else spans[:2]:
                yield ("I", ent, sp[0], sp[1])
    # ulp-neighbour boundaries: (x, 0.1+0.2) followed by (0.3, y) overlaps by one ulp and must be rejected, not accepted
    U = (0.1, 0.3, 0.1 + 0.2, 0.8)
    uiv = [(a, b) for a in U for b in U if a < b]
    for n in (2, 3):
        for combo in itertools.combinations(uiv, n):
            ent = tuple(iv + ("abc"[i],) for i, iv in enumerate(combo))
            yield ("I", ent, None, None)
            yield ("I", ent, 0.1, 0.8)
    pts = (0, 1, 2.5, "3", 1)
    for n in range(0, 4):
        for combo in itertools.product(range(len(pts)), repeat=n):
            ent = tuple((pts[k], labs[i % 3]) for i, k in enumerate(combo))
            for sp in spans:
                yield ("P", ent, sp[0], sp[1])


def _check_live_types(case):
    """two or three in-place insertEntry / deleteEntry calls on ONE live tier with timestamps of several numeric types (float, int, exact
    rationals that no float represents): the constructor converts to float, insertEntry stores what it is given - still every state is well-formed"""
    kind, ops = case[:2]
    t = (IT if kind == "I" else PT)("t", [], 0.0, case[2] if len(case) > 2 else 4.0)
    viols = []
    n = 0
    for op in ops:
        n += 1
        if kind == "I":
            st, r, _ = call(t.insertEntry, tierops.Interval(op[0], op[1], "n"), op[2], "silence")
        else:
            st, r, _ = call(t.insertEntry, tierops.Point(op[0], "n"), op[1], "silence")
        if st == "exc" and not isinstance(r, PE):
            viols.append(Viol("non-praatio-exception:" + type(r).__name__, f"insertEntry sequence {ops} (step {n}) raised {r!r}"))
            break
        w = wellformed(t)
        if w:
            viols.append(Viol("ill-formed:" + w, f"after the insertEntry sequence {ops[:n]} on one live tier: {canon(t)}"))
            break
    return n, "ok", (kind, tuple(o[-1] for o in ops)), viols


def _check_entry_forms(case):
    """insertEntry is handed an entry OBJECT that was not made by calling Interval(...) / Point(...): namedtuple's own helpers `_replace` and `_make`
    (the usual way to relabel or to build entries from rows) and plain tuples / lists, with a label that carries surrounding whitespace: the tier
    stays well-formed (labels carry no surrounding whitespace) after the insertion, in every collision mode"""
    kind, how, lab, mode = case
    Interval, Point = tierops.Interval, tierops.Point
    if kind == "I":
        t = IT("t", [(0.0, 1.0, "a")], 0.0, 4.0)
        row = (1.0 if mode == "error" else 0.5, 2.0, lab)
        e = {"replace": lambda: Interval(row[0], row[1], "tmp")._replace(label=lab), "make": lambda: Interval._make(row), "tuple": lambda: row,
             "list": lambda: list(row), "call": lambda: Interval(*row)}[how]()
    else:
        t = PT("t", [(1.0, "a")], 0.0, 4.0)
        row = (2.0 if mode == "error" else 1.0, lab)
        e = {"replace": lambda: Point(row[0], "tmp")._replace(label=lab), "make": lambda: Point._make(row), "tuple": lambda: row,
             "list": lambda: list(row), "call": lambda: Point(*row)}[how]()
    if mode == "constructor":      # the same entry object handed to the constructor / to new(): "labels carry no surrounding whitespace" whatever the entry is made of
        st, t2, _ = call((IT if kind == "I" else PT), "t", [e], 0.0, 4.0)
        st3, t3, _ = call(t.new, "t", [e])
        for how2, stx, tx in (("the constructor", st, t2), ("new(entries=...)", st3, t3)):
            if stx == "exc":
                if not isinstance(tx, PE):
                    return 2, "X", None, [Viol("non-praatio-exception:" + type(tx).__name__, f"{how2} given an entry built by {how} with label {lab!r} raised {tx!r}")]
                continue
            w = wellformed(tx)
            if w:
                return 2, "!", None, [Viol("ill-formed:" + w, f"{how2} given an entry built by {how} (float times) with label {lab!r}: {canon(tx)}")]
        return 2, "ok", (kind, how, mode), []
    st, r, _ = call(t.insertEntry, e, mode, "silence")
    if st == "exc" and not isinstance(r, PE):
        return 1, "X", None, [Viol("non-praatio-exception:" + type(r).__name__, f"insertEntry(entry built by {how} with label {lab!r}, {mode!r}) raised {r!r}")]
    w = wellformed(t)
    if w:
        return 1, "!", None, [Viol("ill-formed:" + w, f"after insertEntry(entry built by {how} with label {lab!r}, {mode!r}): {canon(t)}")]
    return 1, "ok", (kind, how, mode), []


def _live_type_cases():
    from fractions import Fraction as Fr
    vals = (0, Fr(4, 3), 2, Fr(7, 3), 3.0)
    ivs = [(a, b) for a in vals for b in vals if a < b]
    for a in ivs:
        for b in ivs:
            for m1 in ("error", "replace"):
                for m2 in ("replace", "merge"):
                    yield ("I", ((a[0], a[1], m1), (b[0], b[1], m2)))
    for a in vals:
        for b in vals:
            for m2 in ("replace", "merge", "error"):
                yield ("P", ((a, "error"), (b, m2), (a, "merge")))
    # exact values that are DIFFERENT numbers and the same float (ints beyond 2**53, decimals / rationals closer together than one ulp): an
    # interval between two of them has start < end where it is checked - and must still have it where it is stored
    close = ((2 ** 53, 2 ** 53 + 1), (Fr(3, 2), Fr(3, 2) + Fr(1, 10 ** 30)), (2 ** 53 + 1, 2 ** 53 + 2), (Fr(1, 10), Fr(1, 10) + Fr(1, 10 ** 25)))
    for a, b in close:
        for m1 in ("error", "replace", "merge"):
            yield ("I", ((a, b, m1),), 2.0 ** 55)
            yield ("I", ((0.5, 1.0, "error"), (a, b, m1)), 2.0 ** 55)
            yield ("I", ((a, b, m1), (a, b, "replace")), 2.0 ** 55)


def parts(tier):
    quick = tier == "quick"
    depth = 3 if quick else 4
    ps = []
    ps.append(InputPart(
        "constructors", lambda: _ctor_cases(quick), _check_ctor,
        rule="all entry lists of <=%d intervals / <=3 points over the values (0, 1, 2.5, '3') incl. reversed, zero-length, "
             "overlapping, duplicate, string-typed and whitespace-padded entries x 6 requested spans (inside / outside the "
             "hull / absent), plus all pairs/triples of intervals on the ulp-neighbour values (0.1, 0.3, 0.1+0.2, 0.8): result is well-formed "
             "with exactly the given entries, or a praatio error" % (2 if quick else 3),
        bounds={"max_entries": 2 if quick else 3}))

    ps.append(InputPart("live-insert-sequences-numeric-types", _live_type_cases, _check_live_types,
                        rule="all pairs of insertEntry calls (intervals over {0, 4/3, 2, 7/3, 3.0} with 4/3 and 7/3 as fractions.Fraction and 0, 2 as int) and "
                             "triples for point tiers, applied in place to ONE live tier x collision modes: well-formed after every step; also intervals between two exact "
                             "values (int beyond 2**53, Fraction) that are different numbers and the same float",
                        bounds={}))

    ps.append(InputPart("entries-built-through-namedtuple-helpers",
                        lambda: ((k, how, lab, m) for k in ("I", "P") for how in ("replace", "make", "tuple", "list", "call")
                                 for lab in ("dog\n", " x", "\ty ", "plain", " ") for m in ("error", "replace", "merge", "constructor")),
                        _check_entry_forms,
                        rule="insertEntry with an entry made by Interval(...)._replace(label=...), Interval._make(row), a tuple, a list, or the constructor call "
                             "(same for Point) x labels with surrounding whitespace x 3 collision modes (colliding for replace / merge): the tier is "
                             "well-formed afterwards", bounds={}))

    V = (0.0, 0.5, 1.0, 2.0, 3.0)
    seeds_i = [("I", "t", 0.0, 3.0, ((0.0, 1.0, "a"), (1.0, 2.0, "b"))), ("I", "t", 0.0, 3.0, ((0.5, 2.0, "a"),)),
               ("I", "t", 0.0, 3.0, ())]
    seeds_p = [("P", "t", 0.0, 3.0, ((0.0, "a"), (2.0, "b"))), ("P", "t", 0.0, 3.0, ())]
    step_dy = _mk_step(tierops.OTHERS_I)
    step_dy_p = _mk_step(tierops.OTHERS_P)
    ps.append(BfsPart(
        "bfs-broad-intervals-dyadic", lambda: seeds_i,
        lambda s: tierops.menu(s, V, (0.5, 1.0), (-1.0, -0.5, 0.5, 2.0)), step_dy,
        rule="BFS over the full 16-operation menu with arguments from %s (~250 transitions per state) from 3 seed interval "
             "tiers; invariant in every state; non-trivial = distinct (operation, size before, size after) of state-changing "
             "transitions" % (V,),
        bounds={"depth": depth, "span_cap": 8, "label_length_cap": 9}, max_depth=depth, prune=_prune_fn(8, 9),
        snippet=lambda c: tierops.snippet(c[0], c[1], tierops.OTHERS_I)))
    ps.append(BfsPart(
        "bfs-broad-points-dyadic", lambda: seeds_p,
        lambda s: tierops.menu(s, V, (0.5, 1.0), (-1.0, -0.5, 0.5, 2.0)), step_dy_p,
        rule="same menu restricted to point-tier operations, from 2 seed point tiers",
        bounds={"depth": depth, "span_cap": 8, "label_length_cap": 9}, max_depth=depth, prune=_prune_fn(8, 9),
        snippet=lambda c: tierops.snippet(c[0], c[1], tierops.OTHERS_P)))

    VD = (0.1, 0.3, 0.7, 1.1, 1.3)
    seeds_d = [("I", "t", 0.1, 2.3, ((0.1, 0.2, "a"), (0.2, 0.3, "b"), (0.3, 0.7, "c"))), ("I", "t", 0.1, 2.3, ((0.2, 1.3, "a"),)),
               ("P", "t", 0.1, 2.3, ((0.2, "a"), (1.1, "b")))]
    if not quick:
        seeds_d += [("I", "t", 0.1, 2.3, ((0.1, 0.3, "a"), (0.7, 1.1, "b"))), ("I", "t", 0.1, 2.3, ()),
                    ("P", "t", 0.1, 2.3, ((0.1, "a"), (0.3, "b"), (1.3, "c")))]
    step_di = _mk_step(tierops.OTHERS_I_DEC)
    step_dp = _mk_step(tierops.OTHERS_P_DEC)

    def step_dec(state, op):
        return (step_di if state[0] == "I" else step_dp)(state, op)

    ps.append(BfsPart(
        "bfs-broad-decimal", lambda: seeds_d,
        lambda s: tierops.menu(s, VD, (0.3, 0.7), (-0.7, -0.1, 0.3, 1.7), maxdiff=0.15), step_dec,
        rule="the full menu on non-dyadic decimals %s (rounding may turn a result into a praatio error, never into an "
             "ill-formed tier)" % (VD,),
        bounds={"depth": 3, "span_cap": 8, "label_length_cap": 9}, max_depth=3, prune=_prune_fn(8, 9),
        snippet=lambda c: tierops.snippet(c[0], c[1], tierops.OTHERS_I_DEC if c[0][0] == "I" else tierops.OTHERS_P_DEC)))

    # far-from-zero grid (2**40 + ...): the constructors' safety net and every operation's arithmetic at a magnitude where a relative
    # tolerance is a real duration; equal labels included (entries 0.25 s apart compare "equal" under the library's entry tolerance)
    B = D.BIG
    VB = (B[0], B[1], B[3], B[4], B[5], B[6])
    oth_bi = (("I", "o", B[0], B[6], ((B[3], B[5], "m"),)), ("I", "o", B[0], B[6], ((B[0], B[1], "m"), (B[1], B[6], "n"))), ("I", "o", B[0], B[6], ()))
    oth_bp = (("P", "o", B[0], B[6], ((B[4], "m"),)), ("P", "o", B[0], B[6], ((B[0], "m"), (B[1], "n"))), ("P", "o", B[0], B[6], ()))
    seeds_b = [("I", "t", B[0], B[6], ((B[0], B[1], "a"), (B[1], B[4], "a"))), ("I", "t", B[0], B[6], ((B[3], B[5], "a"),)),
               ("I", "t", B[0], B[6], ((B[0], B[3], "a"), (B[4], B[5], "b"))), ("P", "t", B[0], B[6], ((B[0], "a"), (B[1], "a"), (B[5], "b")))]
    step_bi = _mk_step(oth_bi)
    step_bp = _mk_step(oth_bp)
    bdepth = 2 if quick else 3
    ps.append(BfsPart(
        "bfs-broad-far-from-zero", lambda: seeds_b,
        lambda s: tierops.menu(s, VB, (2.0 ** -7, 1.0), (-1.0, -(2.0 ** -7), 2.0 ** -7, 2.0), maxdiff=0.5),
        lambda state, op: (step_bi if state[0] == "I" else step_bp)(state, op),
        rule="the full menu from 4 seed tiers (equal labels) with all arguments on the dyadic grid 2**40 + {0, 2**-7, 0.5, 1, 2, 3}, durations and "
             "offsets {2**-7, 1, 2}: every tier obtainable is well-formed (7.8 ms overlaps are overlaps, 7.8 ms intervals are intervals)",
        bounds={"depth": bdepth, "label_length_cap": 9}, max_depth=bdepth, prune=_prune_fn(2.0 ** 41, 9),
        snippet=lambda c: tierops.snippet(c[0], c[1], oth_bi if c[0][0] == "I" else oth_bp)))

    # the size axis: one step of the full menu from long tiers, arguments at the probed entries
    size_seeds = [("I", "t", 0.0, e[-1][1] + 1.0, e) for n, layout, e in D.size_family(quick)] + \
                 [("P", "t", 0.0, n + 1.0, D.long_points(n)) for n in (D.SIZES_QUICK if quick else D.SIZES_THOROUGH)]

    def size_menu(state):
        e = state[4]
        cuts = D.size_cuts(e)
        k = len(cuts)
        V = tuple(sorted(set(c for c in (cuts[1], cuts[2], cuts[3], cuts[k // 2], cuts[k // 2 + 1], cuts[k // 2 + 2], cuts[-3], cuts[-2], cuts[-1]) if c >= 0)))
        return tierops.menu(state, V, (0.5,), (-1.0, 0.5), maxdiff=0.5)

    ps.append(BfsPart(
        "bfs-size-sweep", lambda: size_seeds, size_menu, lambda state, op: (step_dy if state[0] == "I" else step_dy_p)(state, op),
        rule="one step of the full menu from interval tiers (gapped, contiguous) and point tiers of %s entries, with arguments at / in / between the "
             "entries at the start, the middle and the end of the tier: every tier obtainable is well-formed" % (list(D.SIZES_QUICK if quick else D.SIZES_THOROUGH),),
        bounds={"depth": 1}, max_depth=1, prune=lambda st: False))

    deep_seeds = [("I", "t", 0.0, 3.0, ((0.0, 1.0, "a"), (1.0, 2.0, "b"))), ("I", "t", 0.0, 2.0, ())]
    cap = 5 if quick else 6
    ps.append(BfsPart(
        "bfs-deep-fixed-point", lambda: deep_seeds, _deep_ops, _mk_step((DEEP_REF,)),
        rule="reduced grid-preserving menu (crop strict/truncated, eraseRegion truncate/categorical, insertEntry "
             "replace/error, deleteEntry, editTimestamps +-1, difference, insertSpace split) run to the reachability fixed "
             "point under span cap %d: histories of EVERY length over this menu are covered" % cap,
        bounds={"depth": "fixed point", "span_cap": cap, "label_length_cap": 5}, max_depth=None, prune=_prune_fn(cap, 5),
        state_cap=400000))

    # history independence of the operations of this property (shared battery, see mc/props/live.py)
    from mc.props import live as _live, tierops as _tierops
    # (the full seed set runs in C13; here: the 3-entry seeds of live.py plus these)
    _hseeds = [("I", "t", 0.0, 4.0, ((0.0, 1.0, "a"), (1.0, 3.0, "b"))), ("I", "t", 0.0, 4.0, ((1.0, 2.0, "a"),)),
               ("P", "t", 0.0, 4.0, ((1.0, "x"), (3.0, "y")))]
    _hothers = {"I": _tierops.OTHERS_I, "P": _tierops.OTHERS_P}
    _hvals = (0.0, 0.5, 1.0, 2.0, 3.0, 4.5)
    ps.append(InputPart(
        "history-independence", lambda: _live.tier_history_cases(_hseeds, _hothers, _hvals),
        lambda c: _live.check_tier_history(c, _hothers, _hvals),
        rule="every (query/copy operation, in-place mutation) sequence on ONE live tier (all tiers of <=2 entries): afterwards the live "
             "tier and a fresh tier with the same fields agree under ~20 observations as receiver and as argument",
        bounds={}, chunk=16))
    # the list a constructor was handed stays the caller's: two tiers built from one list object are independent, and both stay well-formed
    from mc.props import c11 as _c11
    ps.append(InputPart("constructor-argument-independence", _c11._shared_argument_cases, _c11._check_shared_argument,
                        rule="two tiers constructed from ONE list object (items given as Interval / Point named tuples, plain tuples, lists) x every deleteEntry "
                             "and a set of insertEntry calls x 3 modes on the first tier: the second tier and the caller's list stay as they were (shared with C11)",
                        bounds={}))
    return ps
