"""C18 - zero-crossing search finds real crossings; splicing keeps audio and text in step.

Enumerated: EVERY sample sequence over {-2, 0, 1} up to length 7 (thorough: length 8 over {-2,-1,0,1}) x every target on a
sample position x timeStep in {2, 2.2, 2.5, 3, 3.5, 4 samples} and one step below 2 samples, plus off-grid targets for
termination / range; widths 1/2/4; rates 8 and 1000.  Every call runs under a watchdog timer: expiry is the violation
'non-termination', not a skipped case.  tgBoundariesToZeroCrossings over 2-tier textgrids on a dense-crossing recording;
audioSplice over interval sets x point sets x insertion points x optional replaced region x alignToZeroCrossing.
"""
import itertools
import os
import signal

from mc import domains as D
from mc.engine import InputPart, Viol
from mc.models import wavmodel as W
from mc.props.common import IT, PT, Textgrid, PE, errors, call, ents, scratch_dir
from praatio import audio, praatio_scripts

WATCHDOG_S = 2.0


class Hang(BaseException):
    pass


def _alarm(signum, frame):
    raise Hang()


def guarded(f, *a, **kw):
    """call() under a watchdog: returns ('hang', None, '') if the call does not return in time"""
    old = signal.signal(signal.SIGALRM, _alarm)
    signal.setitimer(signal.ITIMER_REAL, WATCHDOG_S)
    try:
        return call(f, *a, **kw)
    except Hang:
        return "hang", None, ""
    finally:
        signal.setitimer(signal.ITIMER_REAL, 0)
        signal.signal(signal.SIGALRM, old)


def mkwav(samples, width, rate):
    return audio.Wav(W.pack(samples, width), [1, width, rate, len(samples), "NONE", "not compressed"])


def sg(x):
    return (x > 0) - (x < 0)


def is_crossing(samples, i):
    n = len(samples)
    if not 0 <= i < n:
        return False
    return samples[i] == 0 or (i > 0 and sg(samples[i - 1]) != sg(samples[i])) or (i < n - 1 and sg(samples[i + 1]) != sg(samples[i]))


STEPS = (2, 2.2, 2.5, 3, 3.5, 4)


def _check_zc(case):
    width, rate, samples = case
    n = len(samples)
    w = mkwav(samples, width, rate)
    dur = n / rate
    viols = []
    cnt = 0
    outcomes = set()
    has = any(is_crossing(samples, i) for i in range(n))
    for ti3 in range(0, 3 * n + 1):
        ongrid = ti3 % 3 == 0
        t = (ti3 // 3) / rate if ongrid else (ti3 / 3) / rate
        for stepS in STEPS if ongrid else (2, 2.5):
            step = stepS / rate
            cnt += 1
            st, r, _ = guarded(w.findNearestZeroCrossing, t, step)
            tag = f"findNearestZeroCrossing({t!r}, {step!r}) [target sample {ti3 / 3:.3f}, step {stepS} samples] width={width} rate={rate} samples={list(samples)}"
            if st == "hang":
                viols.append(Viol("non-termination", f"{tag} did not return within {WATCHDOG_S}s"))
                return cnt, "hang", None, viols
            if st == "exc":
                if isinstance(r, errors.FindZeroCrossingError):
                    outcomes.add("none-found")
                    continue
                viols.append(Viol("zc-raised:" + type(r).__name__, f"{tag}: {r!r}; only ArgumentError (step too small) or FindZeroCrossingError are documented"))
                continue
            if not isinstance(r, (int, float)) or not (0 <= r <= dur):
                viols.append(Viol("zc-out-of-range", f"{tag} returned {r!r}, outside [0, {dur}]"))
                continue
            idx = r * rate
            if ongrid:
                if abs(idx - round(idx)) > 1e-9:
                    viols.append(Viol("zc-off-grid", f"{tag} returned {r!r} = sample {idx!r}: not on a sample position although the target is"))
                    continue
                if not is_crossing(samples, round(idx)):
                    viols.append(Viol("zc-not-a-crossing", f"{tag} returned {r!r} = sample {round(idx)}, which is neither zero nor a sign change"))
                    continue
            outcomes.add("found")
        if len(viols) > 4:
            break
    # a step of fewer than two samples is rejected
    cnt += 1
    st, r, _ = guarded(w.findNearestZeroCrossing, 0.0, 1.5 / rate)
    if st != "exc" or not isinstance(r, errors.ArgumentError):
        viols.append(Viol("small-step-accepted", f"findNearestZeroCrossing(0, 1.5 samples) rate={rate}: {st} {r!r}; ArgumentError required"))
    return cnt, "+".join(sorted(outcomes)), (width, rate, samples) if has else None, viols


def _check_zc_long(case):
    old = os.getcwd()
    try:
        return _check_zc_long_in(case)
    finally:
        os.chdir(old)


def _check_zc_long_in(case):
    """the size axis (search windows of 65 .. 257 samples on recordings of 67 .. 300 samples) and the file-backed QueryWav: many look-ups
    through ONE wav object, each result a genuine crossing"""
    n, shape, k, stepS, backend = case
    rate, width = 1000, 2
    if shape == "step":      # one sign change between k-1 and k
        samples = tuple(5 if i < k else -5 for i in range(n))
    elif shape == "zero":    # one zero sample at k, everything else positive
        samples = tuple(0 if i == k else 5 for i in range(n))
    else:                    # two sign changes
        samples = tuple(5 if (i < k or i >= k + 40) else -5 for i in range(n))
    if backend == "Wav":
        w = mkwav(samples, width, rate)
    elif backend == "QueryWav":
        fn = os.path.join(scratch_dir(), "c18-long.wav")
        W.write_riff(fn, list(samples), width, rate)
        w = audio.QueryWav(fn)
    else:
        # built from a relative name; by the time it is queried the caller works in another directory holding another recording of that name
        here = scratch_dir()
        other = os.path.join(here, "next session")
        os.makedirs(other, exist_ok=True)
        W.write_riff(os.path.join(here, "c18-rel.wav"), list(samples), width, rate)
        W.write_riff(os.path.join(other, "c18-rel.wav"), [5 if i % 2 else -5 for i in range(n)], width, rate)   # crossings everywhere
        old_cwd = os.getcwd()
        os.chdir(here)
        try:
            w = audio.QueryWav("c18-rel.wav")
            os.chdir(other)
        except Exception:
            os.chdir(old_cwd)
            raise
    step = stepS / rate
    dur = n / rate
    viols = []
    cnt = 0
    for ti in sorted(set(list(range(0, n + 1, max(1, n // 12))) + [0, 1, k - 1, k, k + 1, n - 1, n])):
        if not 0 <= ti <= n:
            continue
        t = ti / rate
        cnt += 1
        st, r, _ = guarded(w.findNearestZeroCrossing, t, step)
        tag = f"{backend}.findNearestZeroCrossing({t!r}, {step!r}) [target sample {ti}, step {stepS} samples] on {n} samples, shape {shape} at {k}"
        if st == "hang":
            viols.append(Viol("non-termination", tag))
            break
        if st == "exc":
            if not isinstance(r, errors.FindZeroCrossingError):
                viols.append(Viol("zc-raised:" + type(r).__name__, f"{tag}: {r!r}"))
            continue
        idx = r * rate
        if not (0 <= r <= dur) or abs(idx - round(idx)) > 1e-6 or not is_crossing(samples, round(idx)):
            around = samples[max(0, round(idx) - 1):round(idx) + 2] if 0 <= round(idx) <= n else ()
            viols.append(Viol("zc-not-a-crossing", f"{tag} returned {r!r} = sample {idx!r} (values around it {around}): not a genuine crossing on a sample position"))
            break
    if backend != "Wav":
        try:
            w.audiofile.close()
        except Exception:
            pass
    if backend == "QueryWav-built-elsewhere":
        os.chdir(old_cwd)
    return cnt, "ok", (n, shape, stepS, backend), viols


def _zc_long_cases(quick):
    for backend in ("Wav", "QueryWav", "QueryWav-built-elsewhere"):
        for n in ((67, 200) if quick else (67, 100, 200, 300)):
            for shape in ("step", "zero", "two"):
                for k in sorted(set((1, 2, n // 3, n // 2, n - 66 if n > 66 else 1, n - 2))):
                    if not 1 <= k < n - 1:
                        continue
                    for stepS in ((2, 65, 100.5) if quick else (2, 3, 64, 65, 66, 100.5, 128, 257)):
                        yield (n, shape, k, stepS, backend)
        # short recordings through the file-backed reader too (targets near time 0 after the reader has been used)
        if backend == "QueryWav":
            for n in (8, 12):
                for shape in ("step", "zero"):
                    for k in range(1, n - 1):
                        for stepS in (2, 3):
                            yield (n, shape, k, stepS, backend)


EDITS = (("del", 0, 2), ("del", 2, 4), ("ins", 0, (1, -2)), ("ins", 3, (0,)), ("rep", 1, 3, (1, 1)), ("rep", 0, 2, (-2, 1)), ("cat", (0, 1)))


def _check_zc_live(case):
    """look a crossing up, edit the SAME Wav object in place, look it up again: the second answer must be the answer a
    fresh Wav holding the current samples gives (a Wav is mutable; nothing about the old audio may be remembered)"""
    samples, ei = case
    rate, width = 8, 2
    n = len(samples)
    edit = EDITS[ei]
    viols = []
    cnt = 0
    for ti in range(0, n + 1):
        for stepS in (2, 3):
            t, step = ti / rate, stepS / rate
            w = mkwav(samples, width, rate)
            first = guarded(w.findNearestZeroCrossing, t, step)
            if first[0] == "hang":
                return cnt + 1, "hang", None, [Viol("non-termination", f"findNearestZeroCrossing({t},{step}) on samples {list(samples)} (width 2, rate 8) "
                                                                       f"did not return within {WATCHDOG_S}s")]
            if edit[0] == "del":
                call(w.deleteSegment, edit[1] / rate, edit[2] / rate)
            elif edit[0] == "ins":
                call(w.insert, edit[1] / rate, W.pack(edit[2], width))
            elif edit[0] == "rep":
                call(w.replaceSegment, edit[1] / rate, edit[2] / rate, W.pack(edit[3], width))
            else:
                call(w.concatenate, W.pack(edit[1], width))
            if len(w.frames) % width:
                continue
            cur = W.unpack(w.frames, width)
            if t > len(cur) / rate:
                continue
            a = guarded(w.findNearestZeroCrossing, t, step)
            b = guarded(mkwav(cur, width, rate).findNearestZeroCrossing, t, step)
            cnt += 3
            if a[0] == "hang" or b[0] == "hang":
                return cnt, "hang", None, [Viol("non-termination", f"findNearestZeroCrossing({t},{step}) after the edit {edit} of samples {list(samples)} "
                                                                   f"(current audio {cur}) did not return within {WATCHDOG_S}s")]
            ka = (a[0], a[1] if a[0] == "ok" else type(a[1]).__name__)
            kb = (b[0], b[1] if b[0] == "ok" else type(b[1]).__name__)
            if ka != kb:
                viols.append(Viol("zc-history-dependent", f"samples {list(samples)}: after findNearestZeroCrossing({t},{step}) and the in-place edit {edit} "
                                                          f"the same lookup gives {ka}; a fresh Wav holding the current samples {cur} gives {kb}"))
                return cnt, "!", None, viols
            if a[0] == "ok" and float(a[1] * rate).is_integer() and not is_crossing(cur, round(a[1] * rate)):
                viols.append(Viol("zc-not-a-crossing", f"after the edit {edit}: {a[1]} is not a crossing of the current audio {cur}"))
                return cnt, "!", None, viols
    return cnt, "ok", (samples, ei), viols


# ------------------------------------------------------------------ tgBoundariesToZeroCrossings
RATE = 1000
BASE = (3, -2, 4, -1, 5, 0, 2, -4, 1, 1, 3, 3, -4, -1, 5, -3) * 2  # 32 samples, 0.032 s
TG_GRID = (0, 8, 10, 11, 16, 24, 32)
# (a constant offset with two sign changes; one sign change; one zero sample: most boundaries are many search windows away from a crossing)
SPARSE = ((5,) * 10 + (-5,) * 12 + (5,) * 10, (7,) * 27 + (-7,) * 5, (4,) * 3 + (0,) + (4,) * 28)


def _check_tgzc(case):
    ivs, pts, adjP, adjI = case[:4]
    ivs2, pts2 = case[4] if len(case) > 4 else (None, None)  # a second interval tier and a second point tier (None: absent)
    rec = SPARSE[case[6]] if len(case) > 6 else BASE     # recordings whose crossings are far from most boundaries
    n = len(rec)
    w = mkwav(rec, 2, RATE)
    spec = [("w", "I", [(a / RATE, b / RATE, "ab"[i]) for i, (a, b) in enumerate(ivs)]),
            ("p", "P", [(t / RATE, "P%d" % i) for i, t in enumerate(pts)])]
    if pts2 is not None:
        spec.append(("q", "P", [(t / RATE, "Q%d" % i) for i, t in enumerate(pts2)]))
    if ivs2 is not None:
        spec.append(("v", "I", [(a / RATE, b / RATE, "cd"[i]) for i, (a, b) in enumerate(ivs2)]))
    end = (case[5] if len(case) > 5 else n) / RATE     # the annotation may stop before the recording does
    tg = Textgrid(0, end)
    for nm, kind, E in spec:
        tg.addTier((IT if kind == "I" else PT)(nm, E, 0, end))
    st, r, _ = guarded(praatio_scripts.tgBoundariesToZeroCrossings, tg.new(), w, adjP, adjI)
    tag = f"tgBoundariesToZeroCrossings (textgrid 0..{end}, recording 0..{n / RATE}{'' if rec is BASE else ' samples ' + str(rec)}) tiers={[(nm, [tuple(e) for e in E]) for nm, _, E in spec]} adjustPointTiers={adjP} adjustIntervalTiers={adjI}"
    if st == "hang":
        return 1, "hang", None, [Viol("non-termination", tag)]
    if st == "exc":
        if isinstance(r, PE):
            return 1, "praatio-error", None, []
        return 1, "X", None, [Viol("tgzc-raised:" + type(r).__name__, f"{tag}: {r!r}")]
    viols = []
    got = tuple(r.tierNames)
    if got != tuple(nm for nm, _, _ in spec):
        viols.append(Viol("tgzc-tier-order", f"{tag}: tiers {r.tierNames}"))
        return 1, "!", None, viols

    def cross(t):
        i = t * RATE
        return abs(i - round(i)) < 1e-6 and is_crossing(rec, round(i))
    for nm, kind, E in spec:
        if nm not in got:
            continue
        t = r.getTier(nm)
        adj = adjI if kind == "I" else adjP
        if kind == "I":
            if [e[2] for e in t.entries] != [e[2] for e in E]:
                viols.append(Viol("tgzc-labels", f"{tag}: tier {nm}: interval labels {[e[2] for e in t.entries]}"))
                break
        elif sorted(e[1] for e in t.entries) != sorted(e[1] for e in E):
            viols.append(Viol("tgzc-point-labels", f"{tag}: tier {nm}: point labels {[e[1] for e in t.entries]}"))
            break
        if not adj:
            if ents(t) != [tuple(e) for e in E]:
                viols.append(Viol("tgzc-touched", f"{tag}: tier {nm} changed although its type is not adjusted"))
                break
            continue
        for e in t.entries:
            if not all(cross(x) for x in tuple(e)[:-1]):
                viols.append(Viol("tgzc-not-a-crossing", f"{tag}: tier {nm}: entry {tuple(e)} has a time that is not a zero crossing"))
                break
        if viols:
            break
    return 1, "ok", (len(ivs), len(pts), adjP, adjI, ivs2 is not None and len(ivs2), pts2 is not None and len(pts2)), viols


# ------------------------------------------------------------------ audioSplice
MAIN = (3, -2, 4, -1, 5, -3, 2, -4, 1, -5, 3, -2, 4, -1, 5, -3) * 2  # 32 samples, crossings everywhere
SPLICE = (1, -1, 2, -2, 3, -3, 1, -1)
SP_GRID = (0, 8, 16, 24, 32)


def _check_splice(case):
    ivs, pts, align, ins, stop = case
    n = len(MAIN)
    E = [(a / RATE, b / RATE, "ab"[i]) for i, (a, b) in enumerate(ivs)]
    P = [(t / RATE, "P%d" % i) for i, t in enumerate(pts)]
    tg = Textgrid(0, n / RATE)
    tg.addTier(IT("w", E, 0, n / RATE))
    tg.addTier(PT("p", P, 0, n / RATE))
    w, sp = mkwav(MAIN, 2, RATE), mkwav(SPLICE, 2, RATE)
    st, r, _ = guarded(praatio_scripts.audioSplice, w, sp, tg, "w", "NEW", ins / RATE, None if stop is None else stop / RATE, align)
    tag = f"audioSplice intervals={ivs} points={pts} insertStart=sample {ins} insertStop={stop} alignToZeroCrossing={align}"
    if st == "hang":
        return 1, "hang", None, [Viol("non-termination", tag)]
    if st == "exc":
        if isinstance(r, PE):
            return 1, "praatio-error:" + type(r).__name__, None, []
        return 1, "X", None, [Viol("splice-raised:" + type(r).__name__, f"{tag}: {r!r}")]
    a2, tg2 = r
    viols = []
    # where the two recordings come from: the same audio with the main recording opened from a file (its params are what the wave module
    # returns) and the inserted stretch built in memory - and the other way round - gives the same audio and the same textgrid
    fnm, fns = os.path.join(scratch_dir(), "c18-splice-main.wav"), os.path.join(scratch_dir(), "c18-splice-seg.wav")
    W.write_riff(fnm, list(MAIN), 2, RATE)
    W.write_riff(fns, list(SPLICE), 2, RATE)
    for how, mk_w, mk_sp in (("the recording opened from a file, the inserted audio built in memory", lambda: audio.Wav.open(fnm), lambda: mkwav(SPLICE, 2, RATE)),
                             ("the recording built in memory, the inserted audio opened from a file", lambda: mkwav(MAIN, 2, RATE), lambda: audio.Wav.open(fns))):
        stx, rx, _ = guarded(praatio_scripts.audioSplice, mk_w(), mk_sp(), tg.new(), "w", "NEW", ins / RATE, None if stop is None else stop / RATE, align)
        if stx != "ok" or bytes(rx[0].frames) != bytes(a2.frames) or [ents(t) for t in rx[1].tiers] != [ents(t) for t in tg2.tiers]:
            viols.append(Viol("splice-depends-on-where-the-audio-comes-from",
                              f"{tag}: with {how} the call gives {rx if stx != 'ok' else 'another result'!r}; with both built in memory it succeeds"))
            return 2, "!", None, viols
    if abs(a2.duration - tg2.maxTimestamp) > 1 / RATE + 1e-9:
        viols.append(Viol("splice-durations", f"{tag}: audio lasts {a2.duration!r}, textgrid ends at {tg2.maxTimestamp!r}"))
    wt = tg2.getTier("w")
    news = [e for e in wt.entries if e[2] == "NEW"]
    if len(news) != 1:
        viols.append(Viol("splice-new-count", f"{tag}: {len(news)} intervals labelled NEW: {ents(wt)}"))
        return 1, "!", None, viols
    v = call(tg2.validate, "silence")
    if v[0] != "ok" or v[1] is not True:
        viols.append(Viol("splice-invalid-textgrid", f"{tag}: validate() is not True; textgrid max {tg2.maxTimestamp}, tiers {[(t.minTimestamp, t.maxTimestamp) for t in tg2.tiers]}"))
    got = W.unpack(a2.frames, 2)
    ns, ne = news[0][0] * RATE, news[0][1] * RATE
    p, ln = round(ns), round(ne - ns)
    sub_ok = any(got[p:p + ln] == list(SPLICE[k:k + ln]) for k in range(0, len(SPLICE) - ln + 1)) and ln > 0
    if abs(ns - p) > 1e-6 or not sub_ok or got[:p] != list(MAIN[:p]) or got[p + ln:] != list(MAIN[n - (len(got) - p - ln):]):
        viols.append(Viol("splice-new-does-not-cover-inserted-audio",
                          f"{tag}: NEW = {tuple(news[0])}, audio = {got}; the NEW interval must cover exactly the inserted samples, with the "
                          f"original audio before and after it"))
    if not align:
        if (p, ln) != (ins, len(SPLICE)) or len(got) != n + len(SPLICE) - ((stop - ins) if stop is not None else 0):
            viols.append(Viol("splice-position", f"{tag}: NEW = {tuple(news[0])}, audio length {len(got)}"))
        res = ents(wt)
        for e in E:
            if e[1] <= ins / RATE and e not in res:
                viols.append(Viol("splice-earlier-entry-changed", f"{tag}: {e} ended before the insertion point but is not in {res}"))
    labs = [e[2] for e in wt.entries if e[2] != "NEW"]
    orig = [e[2] for e in E]
    it = iter(orig)
    if not all(l in it for l in labs) or (stop is None and labs != orig):
        viols.append(Viol("splice-labels", f"{tag}: labels {labs} from {orig}"))
    plabs = [e[1] for e in tg2.getTier("p").entries]
    if stop is None and plabs != [e[1] for e in P]:
        viols.append(Viol("splice-point-labels", f"{tag}: point labels {plabs}"))
    return 1, "spliced", ("success", align, stop is None, len(ivs), len(pts)), viols


def _check_splice_order(case):
    """zero-crossing snapping is not monotone: an exact-zero sample further along the search window outranks a nearer sign change, so the START of a
    region to replace can be sent to a later crossing than its END.  audioSplice then either refuses, or returns audio and textgrid that are in step"""
    zero_at, start, stop = case
    rate = 16000
    smp = [100] * 400
    smp[99], smp[100] = 5, -3
    for i in range(101, zero_at):
        smp[i] = -50
    smp[zero_at] = 0
    for i in range(zero_at + 1, 400):
        smp[i] = 70
    w = mkwav(smp, 2, rate)
    sp = mkwav([((i * 37) % 21) - 10 for i in range(80)], 2, rate)
    dur = 400 / rate
    tg = Textgrid(0, dur)
    tg.addTier(IT("w", [(0.0, 0.004, "a"), (0.015, 0.02, "z")], 0, dur))
    tg.addTier(PT("p", [(0.002, "p"), (0.018, "q")], 0, dur))
    st, r, _ = guarded(praatio_scripts.audioSplice, w, sp, tg, "w", "NEW", start / rate, stop / rate, True)
    tag = f"audioSplice(region samples {start}..{stop}, alignToZeroCrossing=True) on a recording with a sign change at sample 100 and an exact zero at sample {zero_at}"
    if st == "hang":
        return 1, "hang", None, [Viol("non-termination", tag)]
    if st == "exc":
        if isinstance(r, PE):
            return 1, "refused", (zero_at, start, stop), []
        return 1, "X", None, [Viol("splice-raised:" + type(r).__name__, f"{tag}: {r!r}")]
    a2, tg2 = r
    viols = []
    if abs(a2.duration - tg2.maxTimestamp) > 1 / rate + 1e-9:
        viols.append(Viol("splice-durations", f"{tag}: the audio lasts {a2.duration!r} s, the textgrid ends at {tg2.maxTimestamp!r} s"))
    news = [e for e in tg2.getTier("w").entries if e[2] == "NEW"]
    # (with alignment the inserted audio is itself trimmed to its own zero crossings, so NEW is at most 80 samples long)
    if len(news) != 1 or not (0 < (news[0][1] - news[0][0]) * rate <= 80 + 1e-6):
        viols.append(Viol("splice-new-does-not-cover-inserted-audio", f"{tag}: NEW intervals {[tuple(e) for e in news]} for at most 80 inserted samples"))
    return 1, "spliced", (zero_at, start, stop), viols


def parts(tier):
    quick = tier == "quick"
    alpha = (-2, 0, 1) if quick else (-2, -1, 0, 1)
    maxlen = 7 if quick else 8

    def gen_zc():
        for n in range(1, maxlen + 1):
            for samples in itertools.product(alpha, repeat=n):
                if n == maxlen or quick or n >= maxlen - 2:
                    yield (2, 8, samples)
        for n in (1, 2, 5, 6):  # the other widths and a rate at which the default step is legal
            for samples in itertools.product((-2, 0, 1), repeat=n):
                yield (1, 8, samples)
                yield (4, 1000, samples)
        lo, hi = W.value_range(2)
        for samples in ((hi, lo, hi, lo), (lo,) * 6, (hi,) * 6 + (lo,), (0,) * 7, (5, 5, 5, 0, 5, 5, 5, 5, 5)):
            yield (2, 1000, samples)
        # high frame rates (192 kHz, 1 MHz: ultrasonic / bat-detector recordings): one sample lasts 5 us / 1 us - shorter than any "small" constant in seconds
        for samples in itertools.product((-2, 0, 1), repeat=5):
            yield (2, 192000, samples)
        for samples in itertools.product((-2, 1), repeat=6):
            yield (2, 1000000, samples)
        # values that need more than one byte: the packed bytes of two neighbouring samples contain runs of zero BYTES that are no zero SAMPLE
        # (200 = c8 00 next to 512 = 00 02; 77 next to 65536 in 32 bit) - a crossing is a property of samples
        for n in (2, 3, 4):
            for samples in itertools.product((200, 512, -768, 256), repeat=n):
                yield (2, 8, samples)
            for samples in itertools.product((77, 65536, -16777216), repeat=n):
                yield (4, 8, samples)

    def gen_tgzc():
        for ivs in D.interval_sets(TG_GRID, 2):
            # ((9, 9), (9, 9, 11): two points at one time, and points that are sent to the SAME crossing - there are as many points afterwards as before)
            for pts in ((), (10,), (9, 11), (0, 32), (8, 16, 24), (9, 9), (9, 9, 11)):
                for adjP, adjI in ((True, True), (False, True), (True, False)):
                    yield (ivs, pts, adjP, adjI)
        # two tiers of each type, in the order w, p, q, v: nothing may carry over from one tier to the next
        for ivs in D.interval_sets(TG_GRID, 2)[::3]:
            for pts in ((), (10,), (9, 11)):
                for ivs2 in ((), ((8, 16),), ((0, 10), (11, 32))):
                    for pts2 in ((), (16,), (8, 24)):
                        for adjP, adjI in ((True, True), (False, True), (True, False)):
                            yield (ivs, pts, adjP, adjI, (ivs2, pts2))

        # an annotation that stops before the recording does (sample 11 of 32; the crossing nearest to its last boundary is sample 12, beyond it)
        for end in (11, 10, 27):
            for ivs in (((0, end),), ((8, end),), ((0, 8), (8, end))):
                for pts in ((), (end,), (end - 1,)):
                    for adjP, adjI in ((True, True), (False, True), (True, False)):
                        yield (ivs, pts, adjP, adjI, (None, None), end)

        # recordings with few crossings: the nearest crossing of a boundary lies beyond the first search window (2 ms = 2 samples here) - it is found
        # all the same (or the call raises); boundaries sent to one and the same crossing may make the call raise a praatio error
        for ri in range(len(SPARSE)):
            for ivs in D.interval_sets(TG_GRID, 2):
                for pts in ((), (16,), (0, 32), (8, 24)):
                    for adjP, adjI in ((True, True), (False, True), (True, False)):
                        yield (ivs, pts, adjP, adjI, (None, None), 32, ri)

    def gen_splice():
        for ivs in D.interval_sets(SP_GRID, 2):
            for pts in ((), (8,), (16, 24)):
                for align in (False, True):
                    for ins in range(0, len(MAIN) + 1, 4 if quick else 2):
                        for stop in [None] + [s for s in range(ins + 4, len(MAIN) + 1, 8 if quick else 4)]:
                            yield (ivs, pts, align, ins, stop)

    return [
        InputPart("findNearestZeroCrossing", gen_zc, _check_zc,
                  rule="every sample sequence over %s up to length %d (width 2, rate 8) + shorter ones for widths 1/4 and rate 1000 + "
                       "extremes; each case runs every on-grid target x 6 step sizes, off-grid targets x 2 steps (termination and range), and "
                       "one too-small step, all under a %gs watchdog; non-trivial = distinct recordings that contain a crossing"
                       % (alpha, maxlen, WATCHDOG_S),
                  bounds={"alphabet": list(alpha), "max_length": maxlen}, chunk=16),
        InputPart("zero-crossing-long-windows-and-querywav", lambda: _zc_long_cases(quick), _check_zc_long,
                  rule="recordings of 67-300 samples (one sign change, one zero sample, two sign changes, at 6 positions) x search steps of 2-257 samples "
                       "(windows longer than 64 samples) x ~16 targets looked up through ONE Wav and through ONE file-backed QueryWav (and short recordings "
                       "through QueryWav): every returned time is a genuine crossing on a sample position", bounds={}, chunk=2),
        InputPart("zero-crossing-after-edit",
                  lambda: ((smp, ei) for n in (4, 5) for smp in itertools.product((-2, 0, 1), repeat=n) for ei in range(len(EDITS))),
                  _check_zc_live,
                  rule="every recording over {-2,0,1}^4..5 x 7 in-place edits x every on-grid target x 2 steps: lookup, edit the same live Wav, "
                       "lookup again = the answer of a fresh Wav with the current samples (history independence)", bounds={}, chunk=8),
        InputPart("tgBoundariesToZeroCrossings", gen_tgzc, _check_tgzc,
                  rule="interval sets (<=2) on boundaries %s x point sets x adjust flags (and textgrids with two interval and two point tiers) over a 32-sample "
                       "dense-crossing recording at rate 1000: only timestamps change, each to a crossing; tier order, counts, labels kept (a praatio error is accepted "
                       "when boundaries collapse)" % (TG_GRID,), bounds={}),
        InputPart("audioSplice-snapped-region-order", lambda: ((z, a, b) for z in (115, 120, 130) for a in (98, 100, 101, 105) for b in (104, 110, 112, 140) if a < b),
                  _check_splice_order,
                  rule="a recording with a sign change at sample 100 and an exact zero at sample 115 / 120 / 130 x regions starting at 98..105 and ending at 104..140 "
                       "with alignToZeroCrossing=True (the start may be sent to a LATER crossing than the end): audioSplice refuses with a praatio error, or audio and "
                       "textgrid are in step and there is one NEW interval of at most the 80 inserted samples", bounds={}),
        InputPart("audioSplice", gen_splice, _check_splice,
                  rule="interval sets (<=2) x point sets x insertion points x optional replaced region x alignToZeroCrossing: durations "
                       "agree within a sample, exactly one NEW interval that covers exactly the inserted samples, earlier entries "
                       "unchanged, later labels kept, validate() True; or a praatio error; non-trivial = distinct successful shapes",
                  bounds={}),
    ]
