"""C09 - time shifting and concatenation move every entry by exactly the stated amount.

Enumerated: all interval sets / point subsets on a 5-grid (incl. empty) x spans x offsets that clip
none / some / all entries x 3 reporting modes (+ the +x/-x round trip); decimal offsets; all ordered
pairs (A, B) for appendTier; appendTextgrid over all pairs of name lists x onlyMatchingNames;
Textgrid.editTimestamps.
"""
from fractions import Fraction as F

from mc import domains as D
from mc.engine import InputPart, Viol
from mc.models import ival
from mc.props.common import IT, PT, Textgrid, errors, PE, call, ents, wellformed, canon, snap_tg, fresh

RMODES = fresh(("silence", "warning", "error"))
OFFS = (-5.0, -4.0, -2.5, -2.0, -1.0, -0.5, 0.0, 0.5, 1.0, 3.0)
DOFFS = (-1.3, -0.7, -0.3, -0.1, 0.1, 0.3, 0.7, 1.7)


def _check_shift(case):
    kind, entries, lo, hi, off, exact = case
    tier = (IT if kind == "I" else PT)("t", list(entries), lo, hi)
    E = ival.fentries(entries)
    model = ival.shift_intervals if kind == "I" else ival.shift_points
    exp, elo, ehi, left = model(E, F(lo), F(hi), F(off))
    viols, summ, n = [], [], 0
    for mode in RMODES:
        n += 1
        tag = f"{'Interval' if kind == 'I' else 'Point'}Tier.editTimestamps({off!r},{mode!r})"
        st, r, out = call(tier.editTimestamps, off, mode)
        if mode == "error" and left:
            if st != "exc" or not isinstance(r, errors.OutOfBounds):
                viols.append(Viol("out-of-bounds-not-raised", f"{tag} on {entries} span ({lo},{hi}): got {st} {r!r}"))
            summ.append("OOB")
            continue
        if st == "exc":
            if exact == "loose" and isinstance(r, PE) and ival.tiny_features(exp):
                summ.append("T")  # a one-ulp interval / gap closed by rounding and was refused: legitimate
                continue
            viols.append(Viol("shift-raised:" + type(r).__name__, f"{tag} on {entries} span ({lo},{hi}) raised {r!r}"))
            summ.append("X")
            continue
        msg = None
        if mode == "silence" and out:
            msg = f"{tag}: printed {out!r} in silence mode"
        elif mode == "warning" and bool(out) != left:
            msg = f"{tag}: warning printed={bool(out)} but entries left the old span={left}"
        elif mode == "error" and out:
            msg = f"{tag}: printed {out!r} in error mode"
        msg = msg or ival.compare_entries(ents(r), exp, exact, tag) or \
            ival.compare_num(r.minTimestamp, elo, exact, tag + " minTimestamp") or \
            ival.compare_num(r.maxTimestamp, ehi, exact, tag + " maxTimestamp")
        if msg is None and (r.minTimestamp > lo or r.maxTimestamp < hi):
            msg = f"{tag}: span shrank to ({r.minTimestamp},{r.maxTimestamp})"
        if msg is None:
            w = wellformed(r)
            if w:
                msg = f"{tag}: ill-formed result ({w})"
        if msg:
            viols.append(Viol("shift-result", msg + f"  [entries {entries} span ({lo},{hi})]"))
            summ.append("!")
            continue
        summ.append(str(len(exp)))
        if mode == "silence" and exact != "loose" and len(exp) == len(E) and all(x[0] + F(off) >= 0 and x[0] >= 0 for x in E):   # nothing clipped on the way out or back
            n += 1
            st2, back, _ = call(r.editTimestamps, -off, "silence")
            if st2 == "exc":
                viols.append(Viol("roundtrip-raised:" + type(back).__name__, f"{tag} then -offset raised {back!r} on {entries}"))
            else:
                m2 = ival.compare_entries(ents(back), E, exact, tag + " then editTimestamps(-offset)")
                if m2 is None and (back.minTimestamp > lo or back.maxTimestamp < hi):
                    m2 = "round trip shrank the span"
                if m2:
                    viols.append(Viol("roundtrip-result", m2 + f"  [entries {entries} span ({lo},{hi}) offset {off}]"))
    clip = "none" if len(exp) == len(E) and all(x[0] + F(off) >= 0 for x in E) else ("all" if not exp else "some")
    return n, "/".join(summ), (kind, len(E), clip, left, (off > 0) - (off < 0)), viols


def _check_append(case):
    kind, ea, spa, eb, spb, exact = case
    cls = IT if kind == "I" else PT
    A = cls("A", list(ea), *spa)
    B = cls("B", list(eb), *spb)
    before = (canon(A), canon(B))
    st, r, out = call(A.appendTier, B)
    tag = f"appendTier A={ea} span {spa}  B={eb} span {spb}"
    if st == "exc":
        return 1, "X", None, [Viol("append-raised:" + type(r).__name__, f"{tag} raised {r!r}")]
    EA, EB = ival.fentries(ea), ival.fentries(eb)
    sh = F(spa[1])
    exp = EA + [tuple(v + sh for v in e[:-1]) + (e[-1],) for e in EB]
    msg = ival.compare_entries(ents(r), exp, exact, "appendTier") or \
        ival.compare_num(r.minTimestamp, F(spa[0]), exact, "appendTier minTimestamp") or \
        ival.compare_num(r.maxTimestamp, F(spa[1]) + F(spb[1]), exact, "appendTier maxTimestamp")
    if msg is None and r.name != "A":
        msg = "appendTier: result is not named after the receiver"
    if msg is None and ents(r)[:len(ea)] != list(ea):
        msg = "appendTier: A's entries are not bit-identical in the result"
    if msg is None:
        w = wellformed(r)
        if w:
            msg = f"appendTier: ill-formed result ({w})"
    if msg is None and (canon(A), canon(B)) != before:
        msg = "appendTier mutated an operand"
    viols = [Viol("append-result", msg + "  [" + tag + "]")] if msg else []
    return 1, f"{len(ea)}+{len(eb)}", (kind, len(ea), len(eb), spa, spb), viols


DEC_SPANS = (0.7, 1.1, 1.3, 2.2, 2.3, 3.2, 4.1, 4.6, 7.9, 12.3, 100.7)


def _check_append_decimal(case):
    """tiers annotated edge to edge (A's last entry ends at A's end, B's first starts at 0) with ordinary decimal durations: B's entries are
    moved by exactly A's end time - the floating-point sum A.max + t, bit for bit; a shift obtained in another way ((A.max + B.max) - B.max)
    is a different number for about half of such pairs and makes the seam overlap or reorder"""
    kind, a, b = case
    if kind == "I":
        A = IT("A", [(0.0, a / 2, "x"), (a / 2, a, "y")], 0.0, a)
        B = IT("B", [(0.0, b / 2, "u"), (b / 2, b, "v")], 0.0, b)
        exp = [(0.0, a / 2, "x"), (a / 2, a, "y"), (a + 0.0, a + b / 2, "u"), (a + b / 2, a + b, "v")]
    else:
        A = PT("A", [(0.0, "x"), (a, "y")], 0.0, a)
        # (B's first point not at 0: two points at one time have no time order, and the library sorts them by label)
        B = PT("B", [(b / 4, "u"), (b, "v")], 0.0, b)
        exp = [(0.0, "x"), (a, "y"), (a + b / 4, "u"), (a + b, "v")]
    st, r, _ = call(A.appendTier, B)
    tag = f"appendTier of edge-to-edge {kind} tiers spanning {a} and {b}"
    if st == "exc":
        return 1, "X", None, [Viol("append-raised:" + type(r).__name__, f"{tag} raised {r!r}")]
    viols = []
    if ents(r) != exp:
        viols.append(Viol("append-not-shifted-by-exactly-the-end-time", f"{tag}: {ents(r)}, expected {exp}"))
    elif (r.minTimestamp, r.maxTimestamp) != (0.0, a + b):
        viols.append(Viol("append-span", f"{tag}: span ({r.minTimestamp}, {r.maxTimestamp}), expected (0.0, {a + b})"))
    return 1, "ok", (kind, a, b), viols


def _check_append_mismatch(case):
    ea, eb = case
    A = IT("A", list(ea), 0.0, 4.0)
    B = PT("B", list(eb), 0.0, 4.0)
    viols = []
    for x, y in ((A, B), (B, A)):
        st, r, _ = call(x.appendTier, y)
        if st != "exc" or not isinstance(r, errors.ArgumentError):
            viols.append(Viol("append-type-mismatch-accepted", f"appendTier of {type(y).__name__} to {type(x).__name__}: {st} {r!r}"))
    return 2, "AE", None, viols


NAMESETS = ((), ("a",), ("a", "b"), ("b", "a"), ("b", "c"), ("a", "p"), ("p",), ("e", "a"), ("c", "p", "a"), ("q", "e"))


def _mk_tg(names, tag, hi, narrow=False, lo=0.0):
    """narrow: the tiers' own spans end half a second before the textgrid's (legal: addTier only ever widens the
    textgrid, and files may carry tier spans narrower than the file span)"""
    tg = Textgrid(lo, hi)
    thi = hi - 0.5 if narrow else hi
    for nm in names:
        if nm in ("p", "q"):
            tg.addTier(PT(nm, [(1.0, tag + nm)] if nm == "p" else [], lo, thi))
        elif nm == "e":
            tg.addTier(IT("e", [], lo, thi))
        else:
            tg.addTier(IT(nm, [(lo, 1.0, tag + nm), (1.0, thi, tag + nm + "2")], lo, thi))
    return tg


def _check_append_tg(case):
    NA, NB, flag, ha, hb, narrowA, narrowB = case[:7]
    loA = case[7] if len(case) > 7 else 0.0      # the receiver may start after time 0 (a cut-out of a longer recording): the result starts where A starts
    A, B = _mk_tg(NA, "A", ha, narrowA, loA), _mk_tg(NB, "B", hb, narrowB)
    snapA, snapB = snap_tg(A), snap_tg(B)
    st, R, out = call(A.appendTextgrid, B, flag)
    if st == "ok":
        # the operands are unchanged, and using the SAME receiver again gives the same result
        if snap_tg(A) != snapA or snap_tg(B) != snapB:
            return 1, "!", None, [Viol("appendTextgrid-mutated-operand", f"names {NA} + {NB} flag={flag}: an operand changed: A {snapA} -> {snap_tg(A)}")]
        st_again, R2, _ = call(A.appendTextgrid, B, flag)
        if st_again != "ok" or snap_tg(R2) != snap_tg(R):
            return 2, "!", None, [Viol("appendTextgrid-history-dependent", f"names {NA} + {NB} flag={flag}: appending a second time to the same receiver gives "
                                                                           f"{snap_tg(R2) if st_again == 'ok' else R2!r}, first time {snap_tg(R)}")]
    tag = (f"appendTextgrid names {NA} + {NB} onlyMatchingNames={flag} maxA={ha} maxB={hb} "
           f"tier spans narrower than the textgrid: A={narrowA} B={narrowB}")
    if st == "exc":
        return 1, "X", None, [Viol("appendTextgrid-raised:" + type(R).__name__, f"{tag} raised {R!r}")]
    expn = tuple(n for n in NA if n in NB) if flag else tuple(NA) + tuple(n for n in NB if n not in NA)
    msg = None
    if tuple(R.tierNames) != expn:
        msg = f"tier set/order {R.tierNames}, documented {expn}"
    elif (R.minTimestamp, R.maxTimestamp) != (loA, ha + hb):
        msg = f"textgrid span ({R.minTimestamp},{R.maxTimestamp}), expected ({loA},{ha + hb})"
    else:
        for nm in expn:
            ea = ents(A.getTier(nm)) if nm in NA else []
            eb = [tuple(v + ha for v in e[:-1]) + (e[-1],) for e in ents(B.getTier(nm))] if nm in NB else []
            t = R.getTier(nm)
            if ents(t) != ea + eb:
                msg = f"tier {nm}: entries {ents(t)}, expected {ea + eb}"
                break
            if nm in NB and (t.minTimestamp, t.maxTimestamp) != (loA, ha + hb):
                msg = f"tier {nm}: span ({t.minTimestamp},{t.maxTimestamp}), expected ({loA},{ha + hb})"
                break
            w = wellformed(t)
            if w:
                msg = f"tier {nm}: ill-formed ({w})"
                break
    viols = [Viol("appendTextgrid-result", msg + "  [" + tag + "]")] if msg else []
    return 1, "%d tiers" % len(expn), (NA, NB, flag, narrowA, narrowB), viols


def _check_tg_shift(case):
    tiers, lo, hi, off = case[:4]
    tg = Textgrid(lo, hi)
    for kind, name, entries in tiers:
        tg.addTier((IT if kind == "I" else PT)(name, list(entries), lo, hi))
    if len(case) > 4 and tiers:
        # a HISTORY on this very textgrid first: a priming read, then a mutator that exchanges a tier without changing the tier count;
        # the shift must work on the tiers the textgrid holds NOW
        prime, mut = case[4]
        if prime == "tiers":
            call(lambda: [t.name for t in tg.tiers])
        elif prime == "validate":
            call(tg.validate, "silence")
        elif prime == "shift":
            call(tg.editTimestamps, 0.5, "silence")
        elif prime == "save":
            import os as _os
            from mc.props.common import scratch_dir as _sd
            call(tg.save, _os.path.join(_sd(), "c09-prime.TextGrid"), "short_textgrid", True)
        tiers = list(tiers)
        if mut == "rename":
            call(tg.renameTier, tiers[0][1], "renamed")
            tiers[0] = (tiers[0][0], "renamed", tiers[0][2])
        elif mut == "replace":
            call(tg.replaceTier, tiers[0][1], IT("rep", [(lo, lo + 1.0, "R")], lo, hi), "silence")
            tiers[0] = ("I", "rep", ((lo, lo + 1.0, "R"),))
        else:
            call(tg.removeTier, tiers[-1][1])
            call(tg.addTier, PT("fresh", [(lo + 0.5, "F")], lo, hi), 0)
            tiers = [("P", "fresh", ((lo + 0.5, "F"),))] + tiers[:-1]
        tiers = tuple(tiers)
    models = []
    anyleft = False
    glo, ghi = F(lo), F(hi)
    for kind, name, entries in tiers:
        E = ival.fentries(entries)
        if not E:
            models.append((E, F(lo), F(hi)))
            continue
        exp, elo, ehi, left = (ival.shift_intervals if kind == "I" else ival.shift_points)(E, F(lo), F(hi), F(off))
        anyleft = anyleft or left
        models.append((exp, elo, ehi))
        glo, ghi = min(glo, elo), max(ghi, ehi)
    viols, summ, n = [], [], 0
    for mode in RMODES:
        n += 1
        tag = f"Textgrid.editTimestamps({off!r},{mode!r})"
        st, r, out = call(tg.editTimestamps, off, mode)
        if mode == "error" and anyleft:
            if st != "exc" or not isinstance(r, PE):
                viols.append(Viol("out-of-bounds-not-raised", f"{tag} on {tiers}: got {st} {r!r}"))
            summ.append("OOB")
            continue
        if st == "exc":
            viols.append(Viol("tg-shift-raised:" + type(r).__name__, f"{tag} on {tiers} raised {r!r}"))
            continue
        msg = None
        if mode == "silence" and out:
            msg = f"{tag}: printed in silence mode: {out!r}"
        if mode == "warning" and bool(out) != anyleft:
            msg = f"{tag}: warning printed={bool(out)} but left-old-span={anyleft}"
        if tuple(r.tierNames) != tuple(nm for _, nm, _ in tiers):
            msg = f"{tag}: names/order {r.tierNames}"
        for (kind, name, entries), rt, (exp, elo, ehi) in zip(tiers, r.tiers, models):
            if msg:
                break
            msg = ival.compare_entries(ents(rt), exp, True, f"{tag} tier {name}") or \
                ival.compare_num(rt.minTimestamp, elo, True, f"{tag} tier {name} min") or \
                ival.compare_num(rt.maxTimestamp, ehi, True, f"{tag} tier {name} max")
        if msg is None:
            msg = ival.compare_num(r.minTimestamp, glo, True, f"{tag} textgrid min") or \
                ival.compare_num(r.maxTimestamp, ghi, True, f"{tag} textgrid max")
        if msg:
            viols.append(Viol("tg-shift-result", msg + f"  [tiers {tiers}]"))
        summ.append(str(sum(len(m[0]) for m in models)))
    return n, "/".join(summ), (tuple(len(e) for _, _, e in tiers), anyleft, off), viols


def parts(tier):
    quick = tier == "quick"
    ps = []
    grid = D.unit_grid(5)
    sets = D.interval_sets(grid, 3)
    psets = D.point_sets(grid, 3)
    dsets = D.interval_sets(D.DEC, 2 if quick else 3)
    dpsets = D.point_sets(D.DEC, 2 if quick else 3)

    def gen_shift():
        for s in sets:
          # (second: intervals labelled with the empty string next to labelled ones - entries like any other)
          for e in (D.labelled(s),) + ((D.labelled(s, ("", "b", "")),) if 1 <= len(s) <= 2 else ()):
            for (lo, hi) in ((0.0, 4.0), (1.0, 4.0), (0.0, 6.0)):
                if e and e[0][0] < lo:
                    continue
                for off in OFFS:
                    yield ("I", e, lo, hi, off, True)
        for s in psets:
            p = D.labelled_points(s)
            for (lo, hi) in ((0.0, 4.0), (1.0, 4.0), (0.0, 6.0)):
                if p and p[0][0] < lo:
                    continue
                for off in OFFS:
                    yield ("P", p, lo, hi, off, True)
        for s in dsets:
            e = D.labelled(s)
            for off in DOFFS:
                yield ("I", e, 0.1, 2.3, off, False)
        for s in dpsets:
            p = D.labelled_points(s)
            for off in DOFFS:
                yield ("P", p, 0.1, 2.3, off, False)
        # ulp-neighbour grid with offsets that land entries exactly on, one ulp below and one ulp above time 0
        U = tuple(sorted(D.ULP))
        for s in D.interval_sets(U, 2):
            e = D.labelled(s)
            for off in (-0.1, -0.3, -(0.1 + 0.2), -0.8, 0.5):
                yield ("I", e, U[0], U[-1], off, "loose")
        for s in D.point_sets(U, 3):
            p = D.labelled_points(s)
            for off in (-0.1, -0.3, -(0.1 + 0.2), -0.8, 0.5):
                yield ("P", p, U[0], U[-1], off, "loose")

        # far-from-zero grid: an offset of 7.8 ms or 0.5 s is below 1e-14 resp. 1e-9 of the time values, but leaving the old span by that
        # much must still be reported as the reporting mode says
        B = D.BIG
        for s in D.interval_sets(B, 2):
            e = D.labelled(s)
            for off in (2.0 ** -7, 0.5, 2.0, -(2.0 ** -7), -0.5):
                yield ("I", e, B[0], B[-1], off, True)
        for s in D.point_sets(B, 2):
            p = D.labelled_points(s)
            for off in (2.0 ** -7, 0.5, 2.0, -(2.0 ** -7), -0.5):
                yield ("P", p, B[0], B[-1], off, True)

        # tiers that start before time 0 (a span of -3 .. 2): what ends up wholly before 0 is dropped and what crosses 0 is clipped whichever way,
        # and however far, the tier was moved - also by 0 and by a positive offset that does not carry an entry across 0
        NG = (-3.0, -2.0, -1.0, 0.0, 1.0, 2.0)
        for s_ in D.interval_sets(NG, 2):
            for off in (0.0, 0.5, 1.0, 2.5, 3.0, -0.5):
                yield ("I", D.labelled(s_), -3.0, 2.0, off, True)
        for s_ in D.point_sets(NG, 2):
            for off in (0.0, 0.5, 1.0, 2.5, 3.0, -0.5):
                yield ("P", D.labelled_points(s_), -3.0, 2.0, off, True)

        # the size axis: long tiers (every entry's leaving the old span must be noticed, whatever its index)
        for n, layout, e in D.size_family(quick):
            hi_ = e[-1][1]
            for off in (-1.0, -0.25, 0.25, 5.0):
                yield ("I", e, 0.0, hi_, off, True)
                yield ("I", e, 0.0, hi_ + 1.0, off, True)
        for n in (D.SIZES_QUICK if quick else D.SIZES_THOROUGH):
            p = D.long_points(n)
            for off in (-1.0, 0.25, 5.0):
                yield ("P", p, 0.0, n + 0.0, off, True)

    ps.append(InputPart(
        "shift-tiers", gen_shift, _check_shift,
        rule="all interval sets (<=3) and point subsets (<=3) of the 5-point unit grid incl. empty x 3 spans x offsets "
             "%s (bit-exact), and decimal tiers x offsets %s (1e-9); each case runs 3 reporting modes and the +x/-x round "
             "trip; also long tiers (%s entries) x 4 offsets; also tiers on the far-from-zero grid 2**40 + {0, 2**-7, ..., 4} x offsets {+-2**-7, +-0.5, 2} (bit-exact); also tiers spanning -3 .. 2 (entries before time 0) x offsets {0, 0.5, 1, 2.5, 3, -0.5}; "
             "non-trivial = distinct (type, size, clip class none/some/all, left-old-span, sign)" % (OFFS, DOFFS, list(D.SIZES_QUICK if quick else D.SIZES_THOROUGH)),
        bounds={"grid_points": 5, "max_entries": 3}))

    asets = D.interval_sets(grid, 2 if quick else 3)
    apsets = D.point_sets(grid, 2 if quick else 3)

    def gen_append():
        for sa in asets:
            for sb in asets:
                for spa in ((0.0, 4.0), (1.0, 5.0)):
                    if sa and sa[0][0] < spa[0]:
                        continue
                    for spb in ((0.0, 4.0), (0.0, 6.0)):
                        yield ("I", D.labelled(sa), spa, D.labelled(sb, "xyz"), spb, True)
        for sa in apsets:
            for sb in apsets:
                for spb in ((0.0, 4.0), (0.0, 6.0)):
                    yield ("P", D.labelled_points(sa, "abc"), (0.0, 4.0), D.labelled_points(sb), spb, True)
        for sa in dsets[::2]:
            for sb in dsets[::2]:
                yield ("I", D.labelled(sa), (0.1, 2.3), D.labelled(sb, "xyz"), (0.1, 2.3), False)

    ps.append(InputPart(
        "append-tier", gen_append, _check_append,
        rule="all ordered pairs (A,B) of interval sets / point subsets x spans of A and B; result = A's entries "
             "followed by B's shifted by A's end, span end = sum of both ends; operands unchanged",
        bounds={"max_entries_per_operand": 2 if quick else 3}))

    ps.append(InputPart(
        "append-tier-decimal-spans", lambda: ((k, a, b) for k in ("I", "P") for a in DEC_SPANS for b in DEC_SPANS if a != b), _check_append_decimal,
        rule="all ordered pairs of the %d decimal durations %s x interval / point tiers annotated edge to edge: B's entries land exactly at "
             "A.max + t (the floating-point sum, bit for bit), the span ends at A.max + B.max, nothing raises at the seam" % (len(DEC_SPANS), DEC_SPANS),
        bounds={"durations": len(DEC_SPANS)}))

    def gen_mismatch():
        for sa in asets[:12]:
            for sb in apsets[:6]:
                yield (D.labelled(sa), D.labelled_points(sb))

    ps.append(InputPart("append-tier-type-mismatch", gen_mismatch, _check_append_mismatch,
                        rule="interval/point operand mix must be rejected with ArgumentError", bounds={}))

    def gen_atg():
        for NA in NAMESETS:
            for NB in NAMESETS:
                for flag in (True, False):
                    for ha, hb in ((2.0, 3.0), (3.0, 2.0)):
                        for narrowA, narrowB in ((False, False), (True, False), (False, True), (True, True)):
                            yield (NA, NB, flag, ha, hb, narrowA, narrowB)
                    yield (NA, NB, flag, 2.0, 3.0, False, False, 0.5)      # A starts at 0.5
                    yield (NA, NB, flag, 3.0, 2.0, True, False, 0.25)

    ps.append(InputPart(
        "append-textgrid", gen_atg, _check_append_tg,
        rule="all ordered pairs of tier-name lists from %d lists (equal, overlapping, disjoint, reordered, with point and "
             "empty tiers) x onlyMatchingNames x 2 duration pairs x tier spans equal to / narrower than the textgrid span (A, B)" % len(NAMESETS), bounds={"name_lists": len(NAMESETS)}))

    tsets = D.interval_sets(grid, 2)

    def gen_tgshift():
        stride = 4 if quick else 1
        for s1 in tsets:
            for s2 in tsets[::stride]:
                for p in D.point_sets(grid, 2)[::stride]:
                    tiers = (("I", "a", D.labelled(s1)), ("P", "p", D.labelled_points(p)), ("I", "b", D.labelled(s2, "x")))
                    for off in OFFS:
                        yield (tiers, 0.0, 4.0, off)
        # textgrids with no tier at all / a single tier
        for tiers in ((), (("P", "p", D.labelled_points((1.0, 3.0))),), (("I", "a", D.labelled(((0.0, 1.0), (2.0, 4.0)))),),
                      (("P", "p", ()),), (("I", "a", ()),)):
            for off in OFFS:
                yield (tiers, 0.0, 4.0, off)
        # textgrids on the negative side of the time axis (span -3..2): also the shift by nothing drops / clips what lies before 0, in every tier
        for nE in (((-3.0, -2.0, "a"), (-1.0, 1.0, "b")), ((-3.0, -1.0, "a"),), ((0.0, 1.0, "a"),), ()):
            for nP in (((-2.0, "x"), (0.0, "y"), (1.0, "z")), ((-1.0, "x"),), ()):
                for off in (0.0, 0, -0.0, 0.5, -1.0, 1.0, 3.0):
                    yield ((("I", "a", nE), ("P", "p", nP)), -3.0, 2.0, off)
        # a history on the textgrid before the shift (prime, exchange a tier, shift)
        for tiers in ((("I", "a", D.labelled(((0.0, 1.0), (2.0, 3.0)))), ("P", "p", D.labelled_points((1.0, 3.0)))),
                      (("P", "p", D.labelled_points((2.0,))), ("I", "a", D.labelled(((1.0, 4.0),))), ("I", "b", ()))):
            for prime in ("tiers", "validate", "shift", "save", "none"):
                for mut in ("rename", "replace", "remove-add"):
                    for off in (-1.0, 0.5, 3.0):
                        yield (tiers, 0.0, 4.0, off, (prime, mut))

    ps.append(InputPart("shift-textgrid", gen_tgshift, _check_tg_shift,
                        rule="3-tier textgrids (incl. empty tiers) x offsets x 3 modes: tier-wise shift model, span hull, reporting",
                        bounds={"tiers": 3}))
    from mc.props import live as _live_hist
    ps.append(_live_hist.history_part())
    return ps
