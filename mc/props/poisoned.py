"""The property's own quick check in a process with a past (see mc/props/prelude.py): a child interpreter first executes the prelude - every
operation with every option word of every option class, rejected calls whose messages are rendered, saves in all formats, audio of all widths,
case-paired regular expressions - and then runs the check on a coarser grid (as the python -O part does).  In that child every case is
moreover executed while the calling thread is handling an exception (inside an `except` block - `try: load(cache) / except FileNotFoundError:
<library calls>` is how real scripts look), so that sys.exc_info() is non-empty on entry to every library call: a library that asks "is an
exception in flight?" to decide on a roll-back gets the wrong answer there.  The child must exit 0."""
import os
import subprocess
import sys

from mc.engine import InputPart, Viol, SRC
from mc.props.common import scratch_dir

ROOT = os.path.dirname(os.path.dirname(os.path.dirname(os.path.abspath(__file__))))


def _check(prop):
    d = os.path.join(scratch_dir(), "poisoned-" + prop)
    os.makedirs(d, exist_ok=True)
    env = dict(os.environ, PRAATIO_SRC=SRC, VERIF_EVIDENCE_DIR=d, VERIF_REPLAY_DIR=d, VERIF_CHILD="1", VERIF_LOGGING="debug", VERIF_PRELUDE="1", VERIF_IN_HANDLER="1", VERIF_INPUT_STRIDE="23",
               VERIF_INPUT_DENSE="400", VERIF_BFS_DEPTH_CAP="1", PYTHONDONTWRITEBYTECODE="1", PYTHONHASHSEED="2")
    p = subprocess.run([sys.executable, "-B", "-m", "mc.run", prop, "quick"], cwd=ROOT, env=env, stdout=subprocess.PIPE, stderr=subprocess.PIPE,
                       text=True, timeout=1500)
    lines = p.stdout.splitlines()
    if p.returncode == 0:
        n = 0
        for ln in lines:
            if ln.startswith("[" + prop + "]") and "evaluations=" in ln:
                n = int(ln.split("evaluations=")[1].split()[0])
        return max(n, 1), "ok", (prop, "after the prelude"), []
    k = next((i for i, ln in enumerate(lines) if ln.startswith("VIOLATION")), None)
    detail = " | ".join(x.strip() for x in lines[k + 1:k + 3]) if k is not None else (p.stderr or p.stdout)[-600:]
    return 1, "!", None, [Viol("fails-in-a-process-with-a-past", f"the same quick check of {prop}, run in a process that first executed the prelude (all "
                                                                 f"operations with all option words, rejected calls with rendered messages, all formats / widths), "
                                                                 f"reports: {detail[:700]}")]


def part(prop):
    if os.environ.get("VERIF_CHILD"):
        return None
    return InputPart("process-with-a-past", lambda: [prop], _check,
                     rule="the property's own quick check re-run in a child process that first executed mc/props/prelude.py (every public operation with every "
                          "option word of every option class incl. case variants, the message of every rejected call rendered, degenerate entries, all file "
                          "formats with other tier names, audio of all widths, case-paired regular expressions), on the coarser grid of the python -O part: "
                          "every case in that child runs inside an `except` block of the caller (sys.exc_info() non-empty on entry to every library call); "
                          "the child must exit 0", bounds={"stride": 23, "dense": 400, "bfs_depth": 1}, chunk=1)
