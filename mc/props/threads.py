"""Two callers at once: exhaustive exploration of thread interleavings with one preemption.

praatIO has no threads of its own, but nothing stops a program from saving (or opening) two textgrids from two threads - a batch job
with a thread pool.  The properties are stated per call; they must hold for each of two calls that overlap in time, as long as the two
calls share no object.  That is true exactly when the library keeps no mutable state outside the objects it is handed: a module-level
scratch variable, a "last result" memo, a cache filled in two steps are invisible to every sequential history and corrupt a result
only under a particular interleaving.

This module is a small stateless model checker for that situation (in the style of CHESS with a preemption bound of 1):

  * two tasks A and B, each a closure around ordinary library calls on objects of its own;
  * thread A runs under `sys.settrace`; every LINE event inside the praatio source tree is a scheduling point;
  * schedule i: A runs up to its i-th scheduling point, is switched out, B runs from start to finish, A resumes and finishes
    (plus the two sequential orders).  The roles are then swapped.  Hand-over uses two semaphores, so exactly one thread runs at
    any time and a schedule is reproduced exactly when it is run again (asserted: every schedule is checked against the event
    count of the reference run, and a divergence is a hard error);
  * oracle: under every schedule each task returns exactly what it returns when run alone.

The number of scheduling points is reported as the part's transitions.  What this does NOT cover: two preemptions (A - B - A - B), more
than two threads, and switches inside a single line (C-level atomicity is the interpreter's business, not praatIO's).
"""
import io
import os
import sys
import threading

from mc.engine import InputPart, Viol, SRC
from mc.props.common import IT, PT, Textgrid, call, snap_tg, scratch_dir
from praatio import textgrid as tgmod

_PRAATIO = os.path.join(os.path.realpath(SRC), "praatio") + os.sep


class _Sched:
    """runs taskA under a tracer; at scheduling point `switch_at` (0-based) control goes to taskB until it finishes"""

    def __init__(self, taskA, taskB, switch_at):
        self.taskA, self.taskB, self.switch_at = taskA, taskB, switch_at
        self.count = 0
        self.a_go = threading.Semaphore(0)
        self.b_go = threading.Semaphore(0)
        self.resA = self.resB = None
        self.switched = False

    def _local(self, frame, event, arg):
        if event == "line":
            if self.count == self.switch_at and not self.switched:
                self.switched = True
                self.b_go.release()      # B runs to completion ...
                self.a_go.acquire()      # ... and hands the baton back
            self.count += 1
        return self._local

    def _global(self, frame, event, arg):
        fn = frame.f_code.co_filename
        if fn.startswith(_PRAATIO) or os.path.realpath(fn).startswith(_PRAATIO):
            return self._local
        return None

    def _runA(self):
        sys.settrace(self._global)
        try:
            self.resA = call(self.taskA)
        finally:
            sys.settrace(None)
            if not self.switched:        # A finished before the switch point: B runs afterwards
                self.switched = True
                self.b_go.release()

    def _runB(self):
        self.b_go.acquire()
        try:
            self.resB = call(self.taskB)
        finally:
            self.a_go.release()

    def run(self):
        ta = threading.Thread(target=self._runA, daemon=True)
        tb = threading.Thread(target=self._runB, daemon=True)
        ta.start()
        tb.start()
        ta.join()
        tb.join()
        return self.resA, self.resB, self.count


def _norm(res):
    st, r, out = res
    return (st, repr(r) if st == "ok" else type(r).__name__, out)


def explore(mkA, mkB, tag):
    """mkA / mkB: () -> task closure on FRESH objects.  Returns (schedules, scheduling points, violations)."""
    refA = _norm(call(mkA()))
    refB = _norm(call(mkB()))
    viols = []
    nsched = npoints = 0
    for first, (mk1, mk2, ref1, ref2) in (("A", (mkA, mkB, refA, refB)), ("B", (mkB, mkA, refB, refA))):
        _, _, n = _Sched(mk1(), mk2(), -1).run()     # reference: no switch, count the scheduling points
        npoints += n
        for i in range(n + 1):
            r1, r2, cnt = _Sched(mk1(), mk2(), i).run()
            nsched += 1
            if cnt != n and _norm(r1) == ref1:
                raise RuntimeError(f"{tag}: schedule {first}@{i} saw {cnt} scheduling points, the reference run {n}: the exploration is not deterministic")
            for who, got, ref in ((first, _norm(r1), ref1), ("B" if first == "A" else "A", _norm(r2), ref2)):
                if got != ref:
                    viols.append(Viol("result-depends-on-interleaving",
                                      f"{tag}: task {first} switched out at its scheduling point {i} of {n} (the other task runs to completion, then it "
                                      f"resumes): task {who} gives {str(got)[:300]}, alone it gives {str(ref)[:300]}"))
                    return nsched, npoints, viols
    return nsched, npoints, viols


# ------------------------------------------------------------------ tasks
def _tg(variant):
    # the two textgrids share several numbers (spans, boundaries) - that is what batches of real annotation files look like
    tg = Textgrid(0.0, 3.0)
    if variant == 0:
        tg.addTier(IT("words", [(0.0, 1.0, "a"), (1.5, 2.25, "b")], 0.0, 3.0))
        tg.addTier(PT("clicks", [(0.5, "x"), (3.0, "y")], 0.0, 3.0))
    else:
        tg.addTier(IT("phones", [(0.25, 1.5, "p"), (2.25, 3.0, "q")], 0.0, 3.0))
        tg.addTier(PT("marks", [(1.0, "m"), (2.25, "n")], 0.0, 3.0))
    return tg


def _save_task(variant, fmt, blanks):
    def mk():
        tg = _tg(variant)
        fn = os.path.join(scratch_dir(), f"threads-{variant}.TextGrid")

        def task():
            tg.save(fn, fmt, blanks, None, None, 1e-8, "silence")
            with io.open(fn, "rb") as fd:
                return fd.read()
        return task
    return mk


def _open_task(variant, fmt):
    def mk():
        fn = os.path.join(scratch_dir(), f"threads-src-{variant}-{fmt}.TextGrid")
        _tg(variant).save(fn, fmt, True, None, None, 1e-8, "silence")

        def task():
            return snap_tg(tgmod.openTextgrid(fn, False, "silence"))
        return task
    return mk


def _tier_task(pi, si):
    from mc.props import compose, live
    from mc.props.common import mk, canon
    name, props, f = compose.TIER_PRODUCERS[pi]
    state = compose.SEEDS[si]

    def mkt():
        t = mk(state)
        o = [mk(x) for x in compose.OTHERS[state[0]]] + [mk(live.LATE[state[0]])]

        def task():
            r = f(t, o)
            return (canon(r), canon(t), [canon(x) for x in o])
        return task
    return mkt


def _tgop_task(pi, si):
    from mc.props import compose

    def mkt():
        tg = compose._tg_seed(si)

        def task():
            r = compose.TG_PRODUCERS[pi][2](tg)
            return (snap_tg(r), snap_tg(tg))
        return task
    return mkt


def _check(case):
    kind, fmt, extra = case
    if kind == "tier-op":
        from mc.props import compose
        name = compose.TIER_PRODUCERS[fmt][0]
        sa, sb = extra
        if any(compose.SEEDS[x][0] == "P" for x in (sa, sb)) and name in compose.ONLY_INTERVAL:
            return 0, "n/a", None, []
        n, p, v = explore(_tier_task(fmt, sa), _tier_task(fmt, sb), f"tier operation {name} in two threads on two different tiers (seeds {sa} and {sb})")
        return p, "ok" if not v else "!", (kind, name, n), v
    if kind == "tg-op":
        from mc.props import compose
        name = compose.TG_PRODUCERS[fmt][0]
        n, p, v = explore(_tgop_task(fmt, 0), _tgop_task(fmt, 1), f"textgrid operation {name} in two threads on two different textgrids")
        return p, "ok" if not v else "!", (kind, name, n), v
    if kind == "save-save":
        n, p, v = explore(_save_task(0, fmt, extra), _save_task(1, fmt, extra), f"two saves ({fmt}, includeBlankSpaces={extra}) of different textgrids to different files")
    elif kind == "open-open":
        n, p, v = explore(_open_task(0, fmt), _open_task(1, fmt), f"two openTextgrid calls ({fmt}) on different files")
    else:
        n, p, v = explore(_save_task(0, fmt, True), _open_task(1, fmt), f"a save and an openTextgrid ({fmt}) on different files")
    return p, "ok" if not v else "!", (kind, fmt, extra, n), v


FMTS = ("short_textgrid", "long_textgrid", "json", "textgrid_json")


def part(prop, tier="quick"):
    kinds = {"C01": ("save-save", "open-open", "save-open"), "C02": ("save-save",), "C03": ("open-open",), "C04": ("save-save",)}.get(prop, ())
    from mc.props import compose
    tier_cases, tg_cases = compose._cases(prop) if prop not in ("C01", "C03") else ([], [])
    tier_ops = sorted({pi for si, pi in tier_cases})
    tg_ops = sorted({pi for si, pi in tg_cases if not compose.TG_PRODUCERS[pi][0].startswith("reopened")})
    if not kinds and not tier_ops and not tg_ops:
        return None

    def gen():
        for k in kinds:
            for fmt in FMTS:
                for extra in ((True, False) if k == "save-save" else (None,)):
                    yield (k, fmt, extra)
        for pi in tier_ops:      # the same operation in both threads (that is where a function-local-turned-module-level scratch value collides)
            yield ("tier-op", pi, (0, 1))
            if tier != "quick" or len(tier_ops) < 12:
                yield ("tier-op", pi, (2, 5))
        for pi in tg_ops:
            yield ("tg-op", pi, None)
    return InputPart("two-threads-one-preemption", gen, _check,
                     rule="two library calls on disjoint objects and files in two threads (%s x 4 formats): EVERY schedule with one preemption - the "
                          "first task is switched out before each of its line-level scheduling points inside the praatio sources in turn, the other "
                          "task runs to completion, the first resumes; roles swapped; plus both sequential orders - must leave each task's result "
                          "(file bytes / opened textgrid) exactly what the task gives alone; schedules are replayed deterministically (scheduling-point "
                          "counts must match the reference run); likewise every tier / textgrid operation of this property run in both threads on two different objects" % (", ".join(kinds) or "file operations: none here"),
                     bounds={"threads": 2, "preemptions": 1, "granularity": "line events in praatio/*"}, chunk=1)
