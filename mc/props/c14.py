"""C14 - boundary adjusters move times only as far as allowed and keep labels.

Enumerated: all interval sets (<=2) on a quarter grid and all point subsets x reference tiers = all subsets of <=2 grid
points (as point tier and as interval tier) incl. empty x maxDifference in {0.25 (exactly one step: the inclusive case),
0.3, 0.5 (equidistant candidates)}; alignBoundariesAcrossTiers on 3-tier textgrids; morph over all pairs of interval sets
(<=3) x label filters.
"""
import itertools

from mc import domains as D
from mc.engine import InputPart, Viol
from mc.props.common import IT, PT, Textgrid, PE, errors, call, ents, canon, wellformed
from mc.props import live, tierops
from praatio import praatio_scripts

G = tuple(x / 4 for x in range(0, 9))  # 0 .. 2 step 0.25
MDS = (0.25, 0.3, 0.5)


def _adj(t, ref, md):
    """allowed results for timestamp t: a nearest reference time iff within md (ties: either), else t itself"""
    best = min(abs(r - t) for r in ref)
    if best <= md:
        return [r for r in ref if abs(r - t) == best]
    return [t]


def _ref_tier(kind, ref, lo=0, hi=None):
    hi = lo + 2 if hi is None else hi
    if kind == "P":
        return PT("r", [(t, "r") for t in ref], lo, hi)
    # an interval tier whose boundary times are exactly ref (pairs of consecutive times)
    ivs = [(a, b, "r") for a, b in zip(ref[0::2], ref[1::2])]
    return IT("r", ivs, lo, hi)


def _check_dejitter(case):
    kind, entries, rkind, ref, md = case[:5]
    lo = case[5] if len(case) > 5 else 0  # the whole scene moved far from zero (sums stay exact); or an explicit (lo, hi) span
    lo, hi = lo if isinstance(lo, tuple) else (lo, lo + 2)
    tier = (IT if kind == "I" else PT)("t", list(entries), lo, hi)
    if rkind in ("Pspan", "Ispan"):     # the reference tier has a span of its own (another stretch of the recording; disjoint from the subject's, touching it, ...)
        ref, rspan = ref
        rt = _ref_tier(rkind[0], ref, rspan[0], rspan[1])
        rkind = rkind[0]
    elif rkind == "twin":     # the reference is another version of the SAME tier (same name, span, labels): its times differ from the subject's by rounding noise
        rt = (IT if kind == "I" else PT)("t", list(ref), lo, hi)
    else:
        rt = _ref_tier(rkind, ref, lo, hi)
    times = sorted(set(rt.timestamps))
    before = canon(rt)
    st, r, _ = call(tier.dejitter, rt, md)
    tag = f"{'Interval' if kind == 'I' else 'Point'}Tier.dejitter(ref {rkind}{tuple(times)}, {md}) on {entries}"
    viols = []
    if canon(rt) != before:
        viols.append(Viol("reference-mutated", tag))
    if canon(tier)[4] != tuple(entries):
        viols.append(Viol("receiver-mutated", tag))
    if not times:
        # error case: any exception or an unchanged copy
        if st == "ok" and ents(r) != list(entries):
            viols.append(Viol("empty-reference-changed-tier", f"{tag}: {ents(r)}"))
        return 1, "empty-ref", None, viols
    opts = [[_adj(v, times, md) for v in e[:-1]] for e in entries]
    if st == "exc":
        if not isinstance(r, PE):
            viols.append(Viol("dejitter-raised:" + type(r).__name__, f"{tag}: {r!r}"))
            return 1, "X", None, viols
        # acceptable only if the adjustment collapses or crosses intervals; decidable when no tie is involved
        if all(len(o) == 1 for os_ in opts for o in os_):
            moved = [tuple(o[0] for o in os_) + (e[-1],) for os_, e in zip(opts, entries)]
            fine = all(m[0] < m[1] for m in moved) if kind == "I" else True
            fine = fine and all(x[-2] <= y[0] for x, y in zip(moved, moved[1:]))
            if fine:
                viols.append(Viol("dejitter-raised-although-result-is-well-formed", f"{tag}: {r!r}; expected {moved}"))
        return 1, "raised", ("raised", md), viols
    got = ents(r)
    if len(got) != len(entries) or [g[-1] for g in got] != [e[-1] for e in entries]:
        viols.append(Viol("dejitter-count-or-labels", f"{tag}: {got}"))
        return 1, "!", None, viols
    for g, os_ in zip(got, opts):
        for gv, o in zip(g[:-1], os_):
            if gv not in o:
                viols.append(Viol("dejitter-wrong-move", f"{tag}: got {got}; timestamp must be one of {o}"))
                return 1, "!", None, viols
    w = wellformed(r)
    if w:
        viols.append(Viol("dejitter-ill-formed", f"{tag}: {got} ({w})"))
    nmoved = sum(1 for g, e in zip(got, entries) for a, b in zip(g[:-1], e[:-1]) if a != b)
    exact = any(abs(min(abs(x - v) for x in times) - md) < 1e-12 for e in entries for v in e[:-1])
    tie = any(len(o) > 1 for os_ in opts for o in os_)
    return 1, "moved%d" % min(nmoved, 3), (kind, rkind, md, nmoved, exact, tie), viols


# (the last two: Praat's unnamed tier - the empty string is a name like any other - as the reference, which is the second tier, and as a subject)
ALIGN_NAMES = (("a", "ref", "p"), ("re", "ref", "f"), ("refs", "ref", "e"), ("word", "words", "or"), ("a", "", "p"), ("", "ref", "0"))


def _check_align(case):
    s1, pts, ref, md = case[:4]
    # tier names: unrelated ones, and names that are contained in / contain the reference tier's name ("word" next to "words")
    NA, NR, NP = ALIGN_NAMES[case[4] if len(case) > 4 else 0]
    tg = Textgrid(0, 2)
    tg.addTier(IT(NA, list(D.labelled(s1)), 0, 2))
    tg.addTier(PT(NR, [(t, "r") for t in ref], 0, 2))
    tg.addTier(PT(NP, list(D.labelled_points(pts)), 0, 2))
    orig = {t.name: canon(t) for t in tg.tiers}
    tgc = tg.new()
    st, r, _ = call(praatio_scripts.alignBoundariesAcrossTiers, tgc, NR, md)
    tag = f"alignBoundariesAcrossTiers(tg, {NR!r}, {md}) with reference points {ref} on tiers {NA!r}={s1} {NP!r}={pts}"
    if st == "exc":
        if isinstance(r, PE) or not ref:
            # the call works on the caller's textgrid tier by tier; when one tier cannot be adjusted the textgrid still holds every tier, in
            # order, each with its entry count and labels ("entry count, order and labels never change"), and the reference tier as it was
            viols = []
            if tuple(tgc.tierNames) != (NA, NR, NP):
                viols.append(Viol("align-failed-and-lost-tiers", f"{tag} raised {type(r).__name__}; the textgrid now holds {tuple(tgc.tierNames)}"))
            else:
                if canon(tgc.getTier(NR)) != orig[NR]:
                    viols.append(Viol("align-reference-changed", f"{tag} raised {type(r).__name__}; the reference tier changed"))
                for nm in (NA, NP):
                    got = ents(tgc.getTier(nm))
                    if [g[-1] for g in got] != [e[-1] for e in orig[nm][4]]:
                        viols.append(Viol("align-failed-and-changed-labels", f"{tag} raised {type(r).__name__}; tier {nm} now {got}, was {orig[nm][4]}"))
            return 1, "raised", None, viols
        return 1, "X", None, [Viol("align-raised:" + type(r).__name__, f"{tag}: {r!r}")]
    viols = []
    if tuple(r.tierNames) != (NA, NR, NP):
        viols.append(Viol("align-tier-order", f"{tag}: {r.tierNames}"))
        return 1, "!", None, viols
    if canon(r.getTier(NR)) != orig[NR]:
        viols.append(Viol("align-reference-changed", tag))
    for nm in (NA, NP):
        before = orig[nm][4]
        got = ents(r.getTier(nm))
        if len(got) != len(before) or [g[-1] for g in got] != [e[-1] for e in before]:
            viols.append(Viol("align-count-or-labels", f"{tag}: tier {nm}: {got}"))
            continue
        for g, e in zip(got, before):
            for gv, v in zip(g[:-1], e[:-1]):
                if ref and gv not in _adj(v, sorted(ref), md):
                    viols.append(Viol("align-wrong-move", f"{tag}: tier {nm}: {got}; {v} may become one of {_adj(v, sorted(ref), md)}"))
        if wellformed(r.getTier(nm)):
            viols.append(Viol("align-ill-formed", f"{tag}: tier {nm}: {got}"))
    return 1, "ok", (len(s1), len(pts), len(ref), md), viols


class _LabelSet(frozenset):
    """a filter that is a callable OBJECT: a set of labels with `__call__` = membership.  An empty one is a perfectly good filter (it selects
    nothing) that happens to be falsy"""

    def __call__(self, label):
        return label in self


FILTERS = (None, "ac", "", "ac", "ac", "ac", "")  # 3: the callback answers with a re.Match / None, 4: with a count (truthy / falsy values, as filter() accepts)


def _check_morph(case):
    ea, eb, fi = case[:3]
    lo, hi = case[3] if len(case) > 3 else (0, 5)  # the source tier's own span (it need not start at 0)
    ta = IT("t", list(ea), lo, hi)
    tb = IT("u", list(eb), 0, 4)
    if FILTERS[fi] is None:
        filt = None
    elif fi == 3:
        import re as _re
        filt = lambda l, keep=FILTERS[fi]: _re.match("[%s]" % keep, l)
    elif fi == 4:
        filt = lambda l, keep=FILTERS[fi]: sum(1 for ch in keep if ch == l)
    elif fi in (5, 6):      # a callable object (a truthy one, and an empty = falsy one)
        filt = _LabelSet(FILTERS[fi])
    else:
        filt = lambda l, keep=FILTERS[fi]: l in keep
    before = (canon(ta), canon(tb))
    st, r, _ = call(ta.morph, tb, filt)
    tag = f"morph source={ea} span=({lo},{hi}) target={eb} filter={FILTERS[fi]!r}{' (answering with a Match object)' if fi == 3 else  ' (answering with a count)' if fi == 4 else ' (a callable set object, falsy when empty)' if fi in (5, 6) else ''}"
    viols = []
    if (canon(ta), canon(tb)) != before:
        viols.append(Viol("morph-mutated-operand", tag))
    if len(ea) != len(eb):
        if st != "exc" or not isinstance(r, errors.SafeZipException):
            viols.append(Viol("morph-count-mismatch-accepted", f"{tag}: {st} {r!r}; SafeZipException required"))
        return 1, "SafeZip", ("mismatch",), viols
    if not ea:
        if st == "ok" and ents(r):
            viols.append(Viol("morph-empty", f"{tag}: {ents(r)}"))
        return 1, "empty", None, viols
    if st == "exc":
        viols.append(Viol("morph-raised:" + type(r).__name__, f"{tag}: {r!r}"))
        return 1, "X", None, viols
    got = ents(r)
    msg = None
    if len(got) != len(ea) or [g[2] for g in got] != [e[2] for e in ea]:
        msg = "count or labels changed"
    elif got[0][0] != ea[0][0]:
        msg = f"first start moved to {got[0][0]}"
    else:
        for g, a, b in zip(got, ea, eb):
            sel = filt is None or filt(a[2])
            want = (b[1] - b[0]) if sel else (a[1] - a[0])
            if (g[1] - g[0]) != want:
                msg = f"interval {a} has duration {g[1] - g[0]}, expected {want} ({'its counterpart in the target' if sel else 'unchanged'})"
        for (g1, g2), (a1, a2) in zip(zip(got, got[1:]), zip(ea, ea[1:])):
            if (g2[0] - g1[1]) != (a2[0] - a1[1]):
                msg = f"gap between {a1} and {a2} changed from {a2[0] - a1[1]} to {g2[0] - g1[1]}"
        if msg is None and ((r.maxTimestamp - got[-1][1]) != (hi - ea[-1][1]) or r.minTimestamp != lo):
            msg = f"trailing gap / span: result span ({r.minTimestamp},{r.maxTimestamp}), last end {got[-1][1]}"
    if msg is None and wellformed(r):
        msg = "ill-formed result: " + wellformed(r)
    if msg:
        viols.append(Viol("morph-result", f"{tag}: {msg}; got {got}"))
    nsel = sum(1 for a in ea if filt is None or filt(a[2]))
    return 1, "morphed", (len(ea), nsel, tuple(a[1] - a[0] for a in ea) != tuple(b[1] - b[0] for b in eb)), viols


def parts(tier):
    quick = tier == "quick"
    sets = D.interval_sets(G, 2)
    psets = D.point_sets(G, 2 if quick else 3)
    refs = [tuple(c) for n in range(0, 3) for c in itertools.combinations(G, n)]
    irefs = [tuple(c) for n in (0, 2, 4) for c in itertools.combinations(G[::2] if quick else G, n)]

    def gen_dej():
        for s in sets:
            e = D.labelled(s, "ab")
            for ref in refs:
                for md in MDS:
                    yield ("I", e, "P", ref, md)
            for ref in irefs:
                for md in MDS:
                    yield ("I", e, "I", ref, md)
        for s in psets:
            p = D.labelled_points(s)
            for ref in refs:
                for md in MDS:
                    yield ("P", p, "P", ref, md)
            for ref in irefs[::3]:
                yield ("P", p, "I", ref, 0.25)
        # the size axis: LONG reference tiers (12 .. 258 timestamps) and receivers whose entries sit far down the reference list
        for nref in ((12, 17, 33, 258) if quick else (11, 12, 16, 17, 33, 64, 100, 258, 300)):
            ref = tuple(float(k) for k in range(nref))
            span = (0.0, float(nref))
            for k in D.probe_indices(nref - 1):
                for e in (((k + 0.125, k + 0.875, "a"),), ((k + 0.125, k + 0.5, "a"), (k + 0.5, k + 1.125, "b")), ((0.125, 0.875, "a"), (k + 0.125, k + 0.875, "b"))):
                    if e[-1][1] > nref or (len(e) == 2 and e[0][1] > e[1][0]):
                        continue
                    for md in (0.125, 0.25):
                        yield ("I", e, "P", ref, md, span)
                        if nref % 2 == 0:
                            yield ("I", e, "I", ref, md, span)
                for md in (0.125, 0.25):
                    yield ("P", ((k + 0.125, "x"), (k + 0.875, "y")), "P", ref, md, span)
            # a long receiver against a long reference
            long_e = tuple((i + 0.125, i + 0.875, "w%d" % i) for i in range(nref - 1))
            yield ("I", long_e, "P", ref, 0.25, span)
            yield ("P", tuple((i + 0.125, "p%d" % i) for i in range(nref - 1)), "P", ref, 0.125, span)
        # the reference is a re-computed version of the subject itself: same name, span and labels, every time equal or one rounding step away
        # (0.1+0.2 vs 0.3, 0.1+0.7 vs 0.8) - "approximately equal" tiers are not equal tiers, the subject is still snapped to the reference
        U = sorted(D.ULP)
        twins = [(((U[2], U[4], "a"),), ((U[1], U[3], "a"),)), (((U[1], U[3], "a"),), ((U[2], U[4], "a"),)),
                 (((U[0], U[2], "a"), (U[3], U[5], "b")), ((U[0], U[1], "a"), (U[4], U[5], "b"))),
                 (((U[0], U[1], "a"), (U[1], U[3], "b")), ((U[0], U[2], "a"), (U[2], U[4], "b")))]
        for e, tw in twins:
            for md in (0.001, 0.25):
                yield ("I", e, "twin", tw, md, (U[0], U[5]))
        for e, tw in (((((U[2], "x"), (U[4], "y"))), ((U[1], "x"), (U[3], "y"))), ((((U[1], "x"), (U[3], "y"))), ((U[2], "x"), (U[4], "y")))):
            for md in (0.001, 0.25):
                yield ("P", e, "twin", tw, md, (U[0], U[5]))
        # the reference tier covers ANOTHER stretch than the subject (spans disjoint, a gap of 0.125 between them, or touching): what decides is the
        # distance between timestamps, not whether the declared spans overlap
        for e, sp in ((((0.5, 1.875, "a"),), (0.0, 1.875)), (((0.25, 1.0, "a"), (1.0, 1.9375, "b")), (0.0, 2.0)), (((2.125, 3.0, "a"),), (2.125, 4.0))):
            for ref, rsp in (((2.0, 3.0), (2.0, 4.0)), ((2.0, 2.5), (2.0625, 3.0)), ((1.0, 2.0), (0.0, 2.0)), ((0.0, 2.0), (0.0, 2.0625))):
                if rsp[0] <= ref[0] and ref[-1] <= rsp[1]:
                    for md in (0.125, 0.25):
                        yield ("I", e, "Pspan", (ref, rsp), md, sp)
                        yield ("I", e, "Ispan", (ref, rsp), md, sp)
                        yield ("P", tuple((x[0], x[2]) for x in e), "Pspan", (ref, rsp), md, sp)
        # the same scene at 2**40 s: maxDifference is an absolute duration, whatever the magnitude of the times
        B0 = D.BIG0
        for s in sets[::3]:
            e = tuple((a + B0, b + B0, l) for a, b, l in D.labelled(s, "ab"))
            for ref in refs[::2]:
                for md in (0.25, 0.5):
                    yield ("I", e, "P", tuple(r + B0 for r in ref), md, B0)
        for s in psets[::2]:
            p = tuple((t + B0, l) for t, l in D.labelled_points(s))
            for ref in refs[::2]:
                yield ("P", p, "P", tuple(r + B0 for r in ref), 0.25, B0)

    def gen_align():
        stride = 5 if quick else 1
        for s1 in sets[::stride]:
            for pts in D.point_sets(G[::2], 2):
                for ref in refs:
                    for md in (0.25, 0.3):
                        yield (s1, pts, ref, md)
        for s1 in sets[::stride * 3]:
            for pts in D.point_sets(G[::2], 2):
                for ref in refs:
                    for ni in (1, 2, 3, 4, 5):
                        yield (s1, pts, ref, 0.25, ni)
        # jitter of one unit in the last place (0.1 + 0.2 against 0.3): a timestamp within maxDifference of a reference time BECOMES that time - a
        # tier that differs from its aligned form only by such amounts is not "already aligned"
        U3, U8 = 0.1 + 0.2, 0.7999999999999999
        for s1, pts, ref in ((((U3, 1.0),), (U3,), (0.3, 1.0)), (((0.25, U8),), (U8, 1.5), (0.8, 1.5)), (((U3, U8), (U8, 1.5)), (U3, U8), (0.3, 0.8, 1.5)),
                             (((U3, 1.0),), (0.5,), (0.3, 1.0)), (((0.5, 1.0),), (U3,), (0.3, 1.0)), (((0.3, 1.0),), (0.3,), (U3, 1.0))):
            for md in (0.25, 1e-9, 1e-12):
                for ni in (0, 3):
                    yield (s1, pts, ref, md, ni)

    sets3 = D.interval_sets(D.unit_grid(5), 3)

    def gen_morph():
        for A in sets3:
            for B in sets3:
                for fi in range(len(FILTERS)):
                    if fi >= 3 and (len(A) + len(B)) % 2:
                        continue
                    yield (D.labelled(A, "abc"), D.labelled(B, "xyz"), fi)
        # the size axis: long source and target tiers (the cumulative shift runs through every entry)
        for n in (10, 11, 17, 33, 100, 258):
            A = tuple((a, b) for a, b, _ in D.long_intervals(n, True))
            B = tuple((a, b) for a, b, _ in D.long_intervals(n, False))
            for fi in (0, 1):
                yield (D.labelled(A, "abc"), D.labelled(B, "xyz"), fi, (0.0, A[-1][1] + 1.0))
                yield (D.labelled(B, "abc"), D.labelled(A, "xyz"), fi, (0.0, B[-1][1] + 0.5))
            yield (D.labelled(A, "abc"), D.labelled(B[:-1], "xyz"), 0, (0.0, A[-1][1] + 1.0))
        # source tiers whose span does not start at 0 (negative start; start at the first interval; start after 0)
        for A in sets3:
            if not A:
                continue
            for B in sets3[::3]:
                if len(A) != len(B):
                    continue
                for span in ((-2.0, 5), (A[0][0], 6), (A[0][0] / 2, 5.5)):
                    if span[0] == 0:
                        continue
                    for fi in (0, 1):
                        yield (D.labelled(A, "abc"), D.labelled(B, "xyz"), fi, span)

    hseeds = [("I", "t", 0.0, 4.0, D.labelled(x)) for x in D.interval_sets((0.0, 1.25, 2.0, 3.0), 2)[::2]] + \
             [("P", "t", 0.0, 4.0, D.labelled_points(x)) for x in D.point_sets((0.0, 1.25, 3.0), 2)]
    hothers = {"I": tierops.OTHERS_I, "P": tierops.OTHERS_P}
    hvals = (0.0, 0.75, 1.0, 2.25, 3.0)
    reuse = InputPart(
        "reference-reuse", lambda: live.tier_history_cases(hseeds, hothers, hvals),
        lambda c: live.check_tier_history(c, hothers, hvals),
        rule="one live tier is used as dejitter reference / receiver, mutated in place (every deleteEntry / insertEntry), and used again: "
             "the result must equal the result with a freshly built tier holding the same entries (the reference's CURRENT timestamps decide)",
        bounds={"seed_tiers": len(hseeds)}, chunk=16)
    return [
        reuse,
        InputPart("dejitter", gen_dej, _check_dejitter,
                  rule="all interval sets (<=2) / point subsets on the quarter grid [0,2] x all reference tiers with <=2 (point) or 0/2/4 "
                       "(interval) boundary times x maxDifference in {0.25 = exactly one grid step, 0.3, 0.5}: every timestamp moves to a "
                       "nearest reference time iff within maxDifference (ties either); count, order, labels fixed; reference untouched; "
                       "non-trivial = distinct (types, maxDifference, number moved, exactly-at-threshold, tie)", bounds={"grid_step": 0.25}),
        InputPart("alignBoundariesAcrossTiers", gen_align, _check_align,
                  rule="3-tier textgrids (interval, reference point tier, point) x references x maxDifference: every non-reference tier is "
                       "dejittered, the reference tier is untouched, tier order kept (a praatio error from the spacing guard is accepted); also tiers "
                       "whose timestamps differ from the reference times by one unit in the last place (0.1 + 0.2 against 0.3)",
                  bounds={}),
        InputPart("morph", gen_morph, _check_morph,
                  rule="all ordered pairs of interval sets (<=3) on a 5-grid x filters {None, labels a/c, none} (source span 0..5, and spans starting "
                       "below 0, at and before the first interval): durations of selected "
                       "intervals = the target's, labels, gaps, first start and trailing gap preserved; unequal counts raise SafeZipException",
                  bounds={}),
    ]
