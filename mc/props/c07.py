"""C07 - eraseRegion blanks exactly the region and shrinks time by exactly its length.

Enumerated: all interval sets on a grid (distinct labels and all-equal labels, because the
re-join of a straddling interval looks at labels) x all regions on the grid/half-grid inside the
span (plus degenerate a >= b) x 3 collision modes x doShrink, on the dyadic grid (bit-exact) and
on non-dyadic decimals (structural + 1e-9, never an exception); point tiers; Textgrid.eraseRegion.
"""
from fractions import Fraction as F

from mc import domains as D
from mc.engine import InputPart, Viol
from mc.models import ival
from mc.props.common import IT, PT, Textgrid, errors, PE, call, ents, order_type, cmp3, wellformed, fresh

MODES = fresh(("truncate", "categorical", "error"))


def _check_iv(case, exact):
    entries, lo, hi, a, b = case
    tier = IT("t", list(entries), lo, hi)
    E = ival.fentries(entries)
    viols, summ, n = [], [], 0
    for mode in MODES:
        for sh in (False, True):
            n += 1
            tag = f"eraseRegion({a!r},{b!r},{mode!r},{sh})"
            st, r, _ = call(tier.eraseRegion, a, b, mode, sh)
            if a >= b:
                if st != "exc" or not isinstance(r, PE):
                    viols.append(Viol("degenerate-region-not-rejected", f"{tag} -> {st} {r!r}"))
                summ.append("R")
                continue
            try:
                exp, elo, ehi = ival.erase_intervals(E, F(lo), F(hi), F(a), F(b), mode, sh)
            except ival.Collision:
                if st != "exc" or not isinstance(r, errors.CollisionError):
                    viols.append(Viol("collision-not-raised", f"{tag} on {entries}: expected CollisionError, got {st} {r!r}"))
                summ.append("C")
                continue
            if st == "exc":
                viols.append(Viol("erase-raised:" + type(r).__name__, f"{tag} on {entries} span ({lo},{hi}) raised {r!r}"))
                summ.append("X")
                continue
            msg = ival.compare_entries(ents(r), exp, exact, tag) or \
                ival.compare_num(r.minTimestamp, elo, exact, tag + " minTimestamp") or \
                ival.compare_num(r.maxTimestamp, ehi, exact, tag + " maxTimestamp")
            if msg is None:
                # the annotation outside the region is unchanged: untouched entries are bit-identical
                got = ents(r)
                for s, e, l in entries:
                    if e <= a and (s, e, l) not in got:
                        msg = f"{tag}: entry {(s, e, l)} before the region was changed: {got}"
                    if not sh and s >= b and (s, e, l) not in got:
                        msg = f"{tag}: entry {(s, e, l)} after the region was changed without shrinking: {got}"
            if msg is None:
                w = wellformed(r)
                if w:
                    msg = f"{tag}: ill-formed result ({w}): {ents(r)} span ({r.minTimestamp},{r.maxTimestamp})"
            if msg:
                viols.append(Viol("erase-result", msg + f"  [tier {entries} span ({lo},{hi})]"))
            summ.append(str(len(exp)))
    return n, "/".join(summ), (order_type(entries, (a, b)), cmp3(a, b), len(set(e[2] for e in entries))), viols


def _check_pt(case, exact):
    pts, lo, hi, a, b = case
    tier = PT("p", list(pts), lo, hi)
    P = ival.fentries(pts)
    viols, summ, n = [], [], 0
    for mode in MODES:
        for sh in (False, True):
            n += 1
            tag = f"PointTier.eraseRegion({a!r},{b!r},{mode!r},{sh})"
            st, r, _ = call(tier.eraseRegion, a, b, mode, sh)
            if a >= b:
                if st != "exc" or not isinstance(r, PE):
                    viols.append(Viol("degenerate-region-not-rejected", f"{tag} -> {st} {r!r}"))
                summ.append("R")
                continue
            if st == "exc":
                viols.append(Viol("erase-raised:" + type(r).__name__, f"{tag} on {pts} raised {r!r}"))
                summ.append("X")
                continue
            exp, elo, ehi = ival.erase_points(P, F(lo), F(hi), F(a), F(b), sh)
            msg = ival.compare_entries(ents(r), exp, exact, tag) or \
                ival.compare_num(r.minTimestamp, elo, exact, tag + " min") or \
                ival.compare_num(r.maxTimestamp, ehi, exact, tag + " max")
            if msg is None:
                w = wellformed(r)
                if w:
                    msg = f"{tag}: ill-formed result ({w}): {ents(r)} span ({r.minTimestamp},{r.maxTimestamp})"
            if msg:
                viols.append(Viol("erase-result", msg + f"  [points {pts}]"))
            summ.append(str(len(exp)))
    return n, "/".join(summ), (order_type(pts, (a, b)), cmp3(a, b)), viols


def _check_tg(case, exact):
    tiers, lo, hi, a, b = case
    tg = Textgrid(lo, hi)
    spans = []
    for t in tiers:
        kind, name, entries = t[:3]
        tlo, thi = t[3] if len(t) > 3 else (lo, hi)  # a tier's own span may be narrower than the textgrid's
        spans.append((tlo, thi))
        tg.addTier((IT if kind == "I" else PT)(name, list(entries), tlo, thi))
    tiers = tuple(t[:3] for t in tiers)
    uniform = all(sp == (lo, hi) for sp in spans)
    viols, summ, n = [], [], 0
    for sh in (False, True):
        n += 1
        tag = f"Textgrid.eraseRegion({a!r},{b!r},{sh})"
        st, r, _ = call(tg.eraseRegion, a, b, sh)
        if a >= b:
            if st != "exc" or not isinstance(r, errors.ArgumentError):
                viols.append(Viol("degenerate-region-not-rejected", f"{tag} -> {st} {r!r}"))
            summ.append("R")
            continue
        if st == "exc":
            viols.append(Viol("erase-raised:" + type(r).__name__, f"{tag} on {tiers} raised {r!r}"))
            summ.append("X")
            continue
        msg = None
        if tuple(r.tierNames) != tuple(nm for _, nm, _ in tiers):
            msg = f"{tag}: tier names/order {r.tierNames}"
        cnt = 0
        ehi_tg = F(hi) - (F(b) - F(a)) if sh else F(hi)
        for (kind, name, entries), rt, (tlo, thi) in zip(tiers, r.tiers, spans):
            if msg:
                break
            E = ival.fentries(entries)
            if kind == "I":
                exp, elo, ehi = ival.erase_intervals(E, F(tlo), F(thi), F(a), F(b), "truncate", sh)
            else:
                exp, elo, ehi = ival.erase_points(E, F(tlo), F(thi), F(a), F(b), sh)
            cnt += len(exp)
            msg = ival.compare_entries(ents(rt), exp, exact, f"{tag} tier {name}") or \
                ival.compare_num(rt.minTimestamp, elo, exact, f"{tag} tier {name} min") or \
                ival.compare_num(rt.maxTimestamp, ehi, exact, f"{tag} tier {name} max")
        if msg is None:
            msg = ival.compare_num(r.minTimestamp, F(lo), exact, f"{tag} textgrid min") or \
                ival.compare_num(r.maxTimestamp, ehi_tg, exact, f"{tag} textgrid max")
        if msg is None and uniform:
            v = call(r.validate, "silence")
            if v[0] != "ok" or v[1] is not True:
                msg = f"{tag}: validate() is not True on the result"
        if msg:
            viols.append(Viol("tg-erase-result", msg + f"  [tiers {tiers} spans {spans}]"))
        summ.append(str(cnt))
    return n, "/".join(summ), (tuple(order_type(e, (a, b)) for _, _, e in tiers), cmp3(a, b)), viols


def _snippet(case):
    entries, lo, hi, a, b = case
    return ("from praatio import textgrid\n"
            f"t = textgrid.IntervalTier('t', {list(entries)!r}, {lo!r}, {hi!r})\n"
            "for mode in ('truncate', 'categorical', 'error'):\n"
            "    for shrink in (False, True):\n"
            "        try:\n"
            f"            r = t.eraseRegion({a!r}, {b!r}, mode, shrink)\n"
            "            print(mode, shrink, r.entries, r.minTimestamp, r.maxTimestamp)\n"
            "        except Exception as e:\n"
            "            print(mode, shrink, 'raised', repr(e))\n")


def parts(tier):
    quick = tier == "quick"
    ps = []
    npts, maxn = (7, 3) if quick else (8, 4)
    grid = D.unit_grid(npts)
    lo, hi = grid[0], grid[-1]
    win = D.half_grid(lo, hi)
    sets = D.interval_sets(grid, maxn)

    def gen_dy():
        for s in sets:
            variants = ([D.labelled(s, "abc"), D.labelled(s, "a")] if len(s) > 1 else [D.labelled(s, "abc")]) + [D.labelled(s, ("", "b")), D.labelled(s, ("a", ""))][:len(s)]  # (also intervals labelled with the empty string)
            if len(s) > 2:
                variants.append(D.labelled(s, "ab"))
            for e in variants:
                for a in win:
                    for b in win:
                        if a < b or (a == b and a in (lo, 1.5)) or (a, b) == (2.0, 1.0):
                            yield (e, lo, hi, a, b)

    ps.append(InputPart(
        "erase-intervals-dyadic", gen_dy, lambda c: _check_iv(c, True),
        rule="all sets of <=%d intervals on the %d-point unit grid with distinct / equal / alternating labels x all "
             "in-span regions on the half grid (+ degenerate representatives); each case runs 3 modes x shrink; "
             "non-trivial = distinct order type of boundaries vs (a,b) x number of distinct labels" % (maxn, npts),
        bounds={"grid_points": npts, "max_intervals": maxn, "oracle": "bit-exact"}, snippet=_snippet))

    dgrid = D.DEC
    dwin = tuple(sorted(set(D.DEC + D.DEC_EDGES)))
    dsets = D.interval_sets(dgrid, 3 if quick else 4)

    def gen_dec():
        for s in dsets:
            variants = [D.labelled(s, "abc")] + ([D.labelled(s, "a")] if len(s) > 1 else [])
            for e in variants:
                for a in dwin:
                    for b in dwin:
                        if a < b:
                            yield (e, dgrid[0], dgrid[-1], a, b)

    ps.append(InputPart(
        "erase-intervals-decimal", gen_dec, lambda c: _check_iv(c, False),
        rule="interval sets on the non-dyadic grid %s x regions from %s; a well-formed tier and an in-span region "
             "must never fail because of rounding; structural + 1e-9 comparison with the exact-rational model" % (dgrid, dwin),
        bounds={"max_intervals": 3 if quick else 4, "oracle": "structural+1e-9"}, snippet=_snippet))

    pgrid = D.unit_grid(5)
    pwin = D.half_grid(0, 4)

    def gen_pt():
        for s in D.point_sets(pgrid, 3 if quick else 4):
            p = D.labelled_points(s)
            for a in pwin:
                for b in pwin:
                    if a < b or (a == b == 1.0) or (a, b) == (2.0, 1.0):
                        yield (p, 0.0, 4.0, a, b)
        for s in D.point_sets(D.DEC, 2 if quick else 3):
            p = D.labelled_points(s)
            for a in dwin:
                for b in dwin:
                    if a < b:
                        yield (p, 0.1, 2.3, a, b)

    ps.append(InputPart("erase-points", gen_pt, lambda c: _check_pt(c, c[1] == 0.0),
                        rule="all point subsets x all in-span regions (unit grid exact, decimal grid 1e-9)",
                        bounds={"max_points": 3 if quick else 4}))

    ugrid = tuple(sorted(D.ULP))

    def gen_ulp():
        for s in D.interval_sets(ugrid, 2 if quick else 3):
            for e in ([D.labelled(s, "abc")] + ([D.labelled(s, "a")] if len(s) > 1 else [])):
                for a in ugrid:
                    for b in ugrid:
                        if a < b:
                            yield (e, ugrid[0], ugrid[-1], a, b)
        for lo, hi, g in D.ulp_spans()[1:]:      # spans whose end / start has its ulp neighbour inside
            for s in D.interval_sets(g, 2):
                for a in g:
                    for b in g:
                        if a < b:
                            yield (D.labelled(s, "abc"), lo, hi, a, b)

    ps.append(InputPart("erase-intervals-ulp", gen_ulp, lambda c: _check_iv(c, False),
                        rule="interval sets and regions on the ulp-neighbour grid %s: boundaries and region edges one ulp apart" % (ugrid,),
                        bounds={"oracle": "structural+1e-9"}, snippet=_snippet))

    def gen_pt_ulp():
        for s in D.point_sets(ugrid, 3):
            for labs in ("xyz", "x"):
                p = D.labelled_points(s, labs)
                for a in ugrid:
                    for b in ugrid:
                        if a < b:
                            yield (p, ugrid[0], ugrid[-1], a, b)
        for lo, hi, g in D.ulp_spans()[1:]:
            for s in D.point_sets(g, 3):
                for a in g:
                    for b in g:
                        if a < b:
                            yield (D.labelled_points(s, "xyz"), lo, hi, a, b)

    ps.append(InputPart("erase-points-ulp", gen_pt_ulp, lambda c: _check_pt(c, False),
                        rule="point subsets (distinct and equal labels) and regions on the ulp-neighbour grid", bounds={}))

    bgrid = D.BIG

    def gen_big():
        for s in D.interval_sets(bgrid, 2 if quick else 3):
            for e in ([D.labelled(s, "abc")] + ([D.labelled(s, "a")] if len(s) > 1 else [])):
                for a in bgrid:
                    for b in bgrid:
                        if a < b:
                            yield (e, bgrid[0], bgrid[-1], a, b)

    ps.append(InputPart("erase-intervals-far-from-zero", gen_big, lambda c: _check_iv(c, True),
                        rule="interval sets (distinct and equal labels) and regions on the dyadic grid 2**40 + {0, 2**-7, 0.25, 0.5, 1, 2, 3, 4}, "
                             "bit-exact: entries after the region move by exactly end-start, nothing is snapped to a 'close' value",
                        bounds={"oracle": "bit-exact"}, snippet=_snippet))

    def gen_pt_big():
        for s in D.point_sets(bgrid, 3):
            for labs in ("xyz", "x"):
                p = D.labelled_points(s, labs)
                for a in bgrid:
                    for b in bgrid:
                        if a < b:
                            yield (p, bgrid[0], bgrid[-1], a, b)

    ps.append(InputPart("erase-points-far-from-zero", gen_pt_big, lambda c: _check_pt(c, True),
                        rule="point subsets (distinct and equal labels) and regions on the far-from-zero grid, bit-exact", bounds={}))

    def gen_size():
        for n, layout, e in D.size_family(quick):
            hi = e[-1][1] + 1.0
            for a, b in D.size_windows(D.size_cuts(e)):
                if a >= 0.0:
                    yield (e, 0.0, hi, a, b)
        for n in (D.SIZES_QUICK if quick else D.SIZES_THOROUGH):
            p = D.long_points(n, labels=("x",) if n % 2 else None)
            for a, b in D.size_windows(D.size_cuts(p), near=4, far=2):
                yield ("P", p, 0.0, n + 1.0, a, b)

    ps.append(InputPart("erase-size-sweep", gen_size, lambda c: _check_pt(c[1:], True) if c[0] == "P" else _check_iv(c, True),
                        rule="interval tiers of %s entries (gapped and contiguous) and point tiers of those sizes x regions whose edges lie just before / at / "
                             "inside / at the end of the entries at both ends, at n/4, n/2, 3n/4 and at indices 8-10, 15-16, 255-257: exact model, bit for bit"
                             % (list(D.SIZES_QUICK if quick else D.SIZES_THOROUGH),), bounds={}, chunk=4))

    tgrid = D.unit_grid(5)
    tsets = D.interval_sets(tgrid, 2)
    tpts = D.point_sets(tgrid, 2)
    twin = D.half_grid(0, 4)

    def gen_tg():
        stride = 3 if quick else 1
        for s1 in tsets:
            for s2 in tsets[::stride]:
                for p in tpts[::stride]:
                    tiers = (("I", "a", D.labelled(s1)), ("P", "p", D.labelled_points(p)), ("I", "b", D.labelled(s2, "x")))
                    for a in twin:
                        for b in twin:
                            if a < b or (a == b == 1.0):
                                yield (tiers, 0.0, 4.0, a, b)
        # textgrids with no tier at all / a single tier: the textgrid-level region check and span arithmetic on their own
        for tiers in ((), (("P", "p", D.labelled_points((1.0, 3.0))),), (("I", "a", D.labelled(((0.0, 1.0), (2.0, 4.0)))),),
                      (("P", "p", ()),), (("I", "a", ()),)):
            for a in twin:
                for b in twin:
                    if 0.0 <= a <= 4.0 and 0.0 <= b <= 4.0:
                        yield (tiers, 0.0, 4.0, a, b)
        # a textgrid that is LONGER than every one of its tiers (and tiers of different lengths): regions inside the shortest tier
        short_sets = D.interval_sets((0.0, 1.0, 2.0), 2)
        for s1 in short_sets:
            for s2 in D.interval_sets((0.0, 1.0, 2.0, 3.0), 2)[::3]:
                ta = ("I", "short", D.labelled(s1), (0.0, 2.0))
                tb = ("I", "mid", D.labelled(s2, "x"), (0.0, 3.0))
                tp = ("P", "p", D.labelled_points((1.0, 2.0)), (0.0, 2.0))
                for order in ((ta, tb, tp), (tp, tb, ta)):
                    for a in (0.0, 0.5, 1.0):
                        for b in (1.0, 1.5, 2.0):
                            if a < b:
                                yield (order, 0.0, 4.0, a, b)
        dsets2 = D.interval_sets(D.DEC[:5], 2)
        for s1 in dsets2[::2]:
            for s2 in dsets2[::5]:
                tiers = (("I", "a", D.labelled(s1)), ("P", "p", D.labelled_points((0.2, 0.7))), ("I", "b", D.labelled(s2, "x")))
                for a in dwin:
                    for b in dwin:
                        if 0.1 <= a < b <= 1.1:
                            yield (tiers, 0.1, 1.1, a, b)

    ps.append(InputPart("erase-textgrid", gen_tg, lambda c: _check_tg(c, c[1] == 0.0),
                        rule="3-tier textgrids x regions x shrink: tier-wise model comparison, textgrid span, validate() True",
                        bounds={"tiers": 3}))
    from mc.props import live as _live_hist
    ps.append(_live_hist.history_part())
    return ps
