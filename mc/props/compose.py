"""Composition: results as operands.

The per-property harnesses inspect what an operation RETURNS (entries, span, name); the history battery (live.py) inspects the
RECEIVER after in-place mutations.  Neither notices a returned object that looks right but carries something wrong inside (a
private attribute copied from the source, entries stored as plain tuples / lists / in another order behind a sorting accessor,
a stale reporter, a shared reference) and that only a SECOND operation trips over.  This module closes that gap by exhaustive
enumeration of two-step pipelines: for every producer X (every operation that returns a tier or a textgrid) on every seed, the
result R and an object R' rebuilt from R's observable fields through the public constructors must be indistinguishable under a
battery of consumers Y - as receiver, as argument, written to a file in the four formats and read back, and mutated in place.
"""
import io
import os

from mc.engine import InputPart, Viol
from mc.props import live
from mc.props.common import IT, PT, Textgrid, call, canon, mk, snap_tg, scratch_dir, constants
from praatio import textgrid as tgmod

Interval = constants.Interval
Point = constants.Point

SEEDS = live.SEEDS3 + [
    ("I", "t", 0.0, 4.0, ((0.5, 1.5, "a"), (2.0, 2.5, "b"))),
    ("I", "t", 1.0, 5.0, ((1.0, 2.0, "a"), (2.0, 3.0, ""), (4.0, 5.0, "c"))),
    ("P", "t", 0.0, 4.0, ((0.5, "x"), (0.5, "x2"), (3.5, "z"))),
    ("I", "t", 0.0, 4.0, ()),
    ("P", "t", 0.0, 4.0, ()),
]
OTHERS = {
    "I": (("I", "o", 0.0, 4.0, ((0.25, 1.25, "p"), (2.0, 3.5, "q"))), ("I", "o2", 0.0, 4.0, ((1.0, 2.0, "r"),)),
          ("I", "o3", 0.0, 5.0, ((0.0, 1.0, "s"), (1.0, 2.0, "u"), (4.0, 5.0, "v")))),
    "P": (("P", "o", 0.0, 4.0, ((0.25, "p"), (2.0, "q"))), ("P", "o2", 0.0, 4.0, ((1.0, "r"),)), ("P", "o3", 0.0, 5.0, ((0.0, "s"), (3.0, "u")))),
}

# producer name -> properties whose operation it is (every producer also belongs to C05: reachable tiers, and C13: copies)
TIER_PRODUCERS = [
    ("new", ("C15",), lambda t, o: t.new()),
    ("new-renamed", ("C15",), lambda t, o: t.new("r")),
    ("crop-strict", ("C06",), lambda t, o: t.crop(0.5, 3.0, "strict", False)),
    ("crop-truncated-rebased", ("C06",), lambda t, o: t.crop(0.75, 3.25, "truncated", True)),
    ("crop-lax", ("C06",), lambda t, o: t.crop(0.75, 2.25, "lax", False)),
    ("crop-lax-rebased", ("C06",), lambda t, o: t.crop(0.75, 2.25, "lax", True)),
    ("crop-empty", ("C06",), lambda t, o: t.crop(1.6, 1.9, "strict", True)),
    ("crop-whole-span", ("C06",), lambda t, o: t.crop(t.minTimestamp, t.maxTimestamp, "strict", False)),
    ("crop-whole-span-lax", ("C06",), lambda t, o: t.crop(t.minTimestamp, t.maxTimestamp, "lax", False)),
    ("erase-in-a-gap-keep", ("C07",), lambda t, o: t.eraseRegion(1.6, 1.9, "truncate", False)),
    ("erase-at-the-end-keep", ("C07",), lambda t, o: t.eraseRegion(t.maxTimestamp - 0.125, t.maxTimestamp, "categorical", False)),
    ("space-at-the-end", ("C08",), lambda t, o: t.insertSpace(t.maxTimestamp, 0.5, "stretch")),
    ("shift-by-zero", ("C09",), lambda t, o: t.editTimestamps(0.0, "silence")),
    ("append-empty", ("C09",), lambda t, o: t.appendTier(t.new(entries=[]))),
    ("union-with-empty", ("C10",), lambda t, o: t.union(t.new(entries=[]))),
    ("difference-with-empty", ("C10",), lambda t, o: t.difference(t.new(entries=[]))),
    ("dejitter-nothing-near", ("C14",), lambda t, o: t.dejitter(o[0], 0.0)),
    ("erase-shrink", ("C07",), lambda t, o: t.eraseRegion(0.5, 1.0, "truncate", True)),
    ("erase-keep", ("C07",), lambda t, o: t.eraseRegion(0.75, 2.25, "truncate", False)),
    ("erase-categorical", ("C07",), lambda t, o: t.eraseRegion(0.75, 2.25, "categorical", True)),
    ("space-split", ("C08",), lambda t, o: t.insertSpace(0.75, 0.5, "split")),
    ("space-stretch", ("C08",), lambda t, o: t.insertSpace(2.25, 1.0, "stretch")),
    ("space-no-change", ("C08",), lambda t, o: t.insertSpace(2.25, 1.0, "no_change")),
    ("shift-right", ("C09",), lambda t, o: t.editTimestamps(0.5, "silence")),
    ("shift-left-clipping", ("C09",), lambda t, o: t.editTimestamps(-0.75, "silence")),
    ("append", ("C09",), lambda t, o: t.appendTier(o[0])),
    ("append-to-other", ("C09",), lambda t, o: o[0].appendTier(t)),
    ("union", ("C10",), lambda t, o: t.union(o[0])),
    ("union-into-other", ("C10",), lambda t, o: o[1].union(t)),
    ("difference", ("C10",), lambda t, o: t.difference(o[0])),
    ("intersection", ("C10",), lambda t, o: t.intersection(o[0])),
    ("mergeLabels", ("C10",), lambda t, o: t.mergeLabels(o[0])),
    ("dejitter", ("C14",), lambda t, o: t.dejitter(o[0], 0.3)),
    ("morph", ("C14",), lambda t, o: t.morph(IT("m", [(i * 1.0, i * 1.0 + 0.5, "m") for i in range(len(t.entries))], 0.0, 6.0))),
    ("insert-in-place", ("C11",), lambda t, o: (t.insertEntry(Interval(1.25, 1.75, "n") if t.tierType == constants.INTERVAL_TIER else Point(1.25, "n"),
                                                                  "merge", "silence"), t)[1]),
    ("replace-in-place", ("C11",), lambda t, o: (t.insertEntry(Interval(0.5, 2.25, "n") if t.tierType == constants.INTERVAL_TIER else Point(0.5, "n"),
                                                                   "replace", "silence"), t)[1]),
    ("delete-in-place", ("C11",), lambda t, o: (t.deleteEntry(t.entries[0]), t)[1]),
]
ONLY_INTERVAL = {"difference", "intersection", "mergeLabels", "morph", "difference-with-empty"}


def _norm(x):
    st, r, out = x
    if st == "exc":
        return ("raised", type(r).__name__)
    if isinstance(r, Textgrid):
        return ("tg", snap_tg(r), out)
    if hasattr(r, "entries") and hasattr(r, "tierType"):
        return ("tier", canon(r), out)
    return ("val", repr(r), out)


def _file_forms(tg, tag):
    """the four written forms of a textgrid (bytes), and what the reader makes of each"""
    out = {}
    fn = os.path.join(scratch_dir(), "compose.TextGrid")
    for fmt in ("short_textgrid", "long_textgrid", "json", "textgrid_json"):
        for blanks in (True, False):
            st, r, _ = call(tg.save, fn, fmt, blanks, None, None, None, "silence")
            if st == "exc":
                out[f"{tag}save:{fmt}:{blanks}"] = ("raised", type(r).__name__)
                continue
            with io.open(fn, "rb") as fd:
                out[f"{tag}save:{fmt}:{blanks}"] = fd.read()
            out[f"{tag}reopen:{fmt}:{blanks}"] = _norm(call(tgmod.openTextgrid, fn, True, "silence"))
    return out


def _tier_consumers(r, others):
    """observations of a tier: the shared battery of live.py plus attribute access, a textgrid around it, its written forms and
    in-place edits (last, on the object itself)"""
    isI = r.tierType == constants.INTERVAL_TIER
    obs = dict(live.observe_tier(r, others))
    obs["attributes"] = repr([(e.start, e.end, e.label) if isI else (e.time, e.label) for e in r.entries])
    obs["entry-types"] = repr(sorted({type(e).__name__ for e in r.entries} | {type(v).__name__ for e in r.entries for v in e[:-1]}))
    obs["span-types"] = repr((type(r.minTimestamp).__name__, type(r.maxTimestamp).__name__))
    obs["eq-rebuilt"] = repr((r == mk(canon(r)), mk(canon(r)) == r))
    tg = Textgrid(r.minTimestamp, r.maxTimestamp)
    st = call(tg.addTier, r, None, "silence")
    obs["addTier"] = _norm(st) if st[0] == "exc" else ("ok", snap_tg(tg))
    if st[0] == "ok":
        obs.update(_file_forms(tg, ""))
        for nm, f in (("tg-crop", lambda: tg.crop(0.5, 2.5, "truncated", True)), ("tg-erase", lambda: tg.eraseRegion(0.5, 1.5, True)),
                      ("tg-space", lambda: tg.insertSpace(1.0, 0.5, "split")), ("tg-shift", lambda: tg.editTimestamps(-0.5, "silence")),
                      ("tg-new", lambda: tg.new()), ("tg-validate", lambda: tg.validate("silence"))):
            obs[nm] = _norm(call(f))
    # in-place edits of the result itself
    e1 = Interval(1.1, 1.3, "k") if isI else Point(1.1, "k")
    for mode in ("merge", "replace"):
        obs["then-insert-" + mode] = (_norm(call(r.insertEntry, e1, mode, "silence")), canon(r))
    if r.entries:
        obs["then-delete"] = (_norm(call(r.deleteEntry, r.entries[-1])), canon(r))
    obs["then-validate"] = _norm(call(r.validate, "silence"))
    return obs


def _check_tier(case):
    si, pi = case
    state = SEEDS[si]
    name, props, f = TIER_PRODUCERS[pi]
    if state[0] == "P" and name in ONLY_INTERVAL:
        return 0, "n/a", None, []
    if name == "delete-in-place" and not state[4]:
        return 0, "n/a", None, []

    def others():
        return [mk(s) for s in OTHERS[state[0]]] + [mk(live.LATE[state[0]])]
    res = {}
    viols = []
    for which in ("result", "rebuilt"):
        t, o = mk(state), others()
        st, r, _ = call(f, t, o)
        if st == "exc":
            return 1, "raised", (state[0], name, "raised"), []
        sources = [t] + o
        before = [canon(x) for x in sources]
        inplace = name.endswith("-in-place")
        if which == "rebuilt":
            try:
                r = mk(canon(r))
            except Exception:  # not constructible from its own fields: reported by C05
                return 1, "unconstructible", None, []
        elif not inplace and any(r is x for x in sources):
            viols.append(Viol("result-is-an-operand", f"{name} on {state} returned one of its operands, not a new tier"))
        res[which] = _tier_consumers(r, others())
        if which == "result" and not inplace and not viols:
            after = [canon(x) for x in sources]
            if after != before:
                k = [i for i in range(len(before)) if before[i] != after[i]][0]
                viols.append(Viol("result-entangled-with-source",
                                  f"{name} on {state}: using and then editing the RETURNED tier changed {'the receiver' if k == 0 else 'operand %d' % k}: "
                                  f"{before[k]} -> {after[k]}"))
    if viols:
        return 2, "!", None, viols
    a, b = res["result"], res["rebuilt"]
    for k in a:
        if a[k] != b.get(k):
            viols.append(Viol("result-differs-from-rebuilt:" + k.split(":")[0],
                              f"{name} on {state}: fed into {k!r} the returned tier gives {str(a[k])[:300]} but a tier built from the same name, "
                              f"span and entries gives {str(b.get(k))[:300]}"))
            break
    return len(a) * 2, "ok", (state[0], name), viols


# ------------------------------------------------------------------ textgrids
def _tg_seed(i):
    tg = Textgrid(0.0, 4.0)
    if i == 0:
        tg.addTier(mk(SEEDS[0]).new("a"))
        tg.addTier(mk(SEEDS[2]).new("p"))
        tg.addTier(mk(SEEDS[3]).new("b"))
    elif i == 1:
        tg.addTier(mk(SEEDS[6]).new("e"))
        tg.addTier(mk(SEEDS[1]).new("a"))
        tg.addTier(mk(SEEDS[7]).new("q"))
    elif i == 2:
        tg.addTier(mk(SEEDS[5]).new("p"))
    return tg


def _read_all(tg):
    """what any caller does between two edits: look at the textgrid"""
    return (tg.tiers, tg.tierNames, len(tg.tiers), [t.name for t in tg.tiers], tg.minTimestamp, tg.maxTimestamp)


def _assembled(i, how):
    """the textgrid of _tg_seed(i) - same names, order, spans, entries - put together by another sequence of public calls, with the caller
    looking at it (tiers, tierNames) between the steps"""
    plain = _tg_seed(i)
    tiers = [t.new() for t in plain.tiers]
    tg = Textgrid(plain.minTimestamp, plain.maxTimestamp)
    _read_all(tg)
    if how == "inserted-at-the-front":          # last tier first, every other one put in front of it with tierIndex=0
        for t in reversed(tiers):
            tg.addTier(t, 0)
            _read_all(tg)
    elif how == "inserted-by-position":         # first and last appended, the others inserted at their position
        for t in tiers[:1] + tiers[2:]:
            tg.addTier(t)
            _read_all(tg)
        if len(tiers) > 1:
            tg.addTier(tiers[1], 1)
            _read_all(tg)
    elif how == "with-a-tier-removed-again":
        for k, t in enumerate(tiers):
            if k == 1:
                tg.addTier(IT("scratch tier", [(0.0, 1.0, "tmp")], plain.minTimestamp, plain.maxTimestamp))
                _read_all(tg)
            tg.addTier(t)
            _read_all(tg)
        if len(tiers) < 2:
            tg.addTier(IT("scratch tier", [(0.0, 1.0, "tmp")], plain.minTimestamp, plain.maxTimestamp))
            _read_all(tg)
        tg.removeTier("scratch tier")
        _read_all(tg)
    elif how == "renamed-into-place":
        for k, t in enumerate(tiers):
            tg.addTier(t.new("working name %d" % k))
            _read_all(tg)
        for k, t in enumerate(tiers):
            tg.renameTier("working name %d" % k, t.name)
            _read_all(tg)
    elif how == "replaced-into-place":
        for t in tiers:
            tg.addTier(t.new(t.name, []))
            _read_all(tg)
        for t in tiers:
            tg.replaceTier(t.name, t)
            _read_all(tg)
    else:
        raise ValueError(how)
    return tg


ASSEMBLIES = ("inserted-at-the-front", "inserted-by-position", "with-a-tier-removed-again", "renamed-into-place", "replaced-into-place")


def _check_assembly(si, name, f):
    """the producer on the same textgrid assembled in other ways: same result, same state of the receiver afterwards"""
    def run(tg):
        st, r, out = call(f, tg)
        if st == "exc":
            return ("raised", type(r).__name__), snap_tg(tg)
        return (snap_tg(r) if isinstance(r, Textgrid) else repr(r), out), snap_tg(tg)
    plain = _tg_seed(si)
    want0 = snap_tg(plain)
    want = run(plain)
    for how in ASSEMBLIES:
        try:
            tg = _assembled(si, how)
        except Exception as e:
            return Viol("assembly-raised", f"building seed textgrid {si} {want0} {how} raised {e!r}")
        if snap_tg(tg) != want0:
            return Viol("assembly-history-visible", f"seed textgrid {si} built {how} is {snap_tg(tg)}, built by appending its tiers {want0}")
        got = run(tg)
        if got != want:
            return Viol("result-depends-on-how-the-textgrid-was-assembled",
                        f"textgrid {name} on seed {si} {want0}: when the textgrid was built {how} (the caller reading tg.tiers / tg.tierNames between the "
                        f"steps) the result and the receiver afterwards are {str(got)[:400]}; when built by appending the tiers: {str(want)[:400]}")
    return None


def _other_tg():
    tg = Textgrid(0.0, 3.0)
    tg.addTier(IT("a", [(0.5, 1.0, "oa")], 0.0, 3.0))
    tg.addTier(PT("z", [(2.0, "oz")], 0.0, 3.0))
    return tg


def _reopened(tg, fmt):
    fn = os.path.join(scratch_dir(), "compose-src.TextGrid")
    tg.save(fn, fmt, True, None, None, None, "silence")
    return tgmod.openTextgrid(fn, False, "silence")


TG_PRODUCERS = [
    ("new", ("C13", "C15"), lambda tg: tg.new()),
    ("crop-truncated-rebased", ("C06",), lambda tg: tg.crop(0.75, 3.25, "truncated", True)),
    ("crop-lax", ("C06",), lambda tg: tg.crop(0.75, 2.25, "lax", False)),
    ("crop-strict-rebased", ("C06",), lambda tg: tg.crop(0.5, 3.0, "strict", True)),
    ("crop-whole-span", ("C06",), lambda tg: tg.crop(0.0, 4.0, "strict", False)),
    ("crop-whole-span-lax", ("C06",), lambda tg: tg.crop(0.0, 4.0, "lax", False)),
    ("crop-wider-than-span", ("C06",), lambda tg: tg.crop(-1.0, 5.0, "truncated", False)),
    ("erase-outside-keep", ("C07",), lambda tg: tg.eraseRegion(4.5, 5.5, False)),
    ("erase-in-a-gap-keep", ("C07",), lambda tg: tg.eraseRegion(1.6, 1.9, False)),
    ("space-at-the-end", ("C08",), lambda tg: tg.insertSpace(4.0, 0.5, "stretch")),
    ("shift-by-zero", ("C09",), lambda tg: tg.editTimestamps(0.0, "silence")),
    ("erase-shrink", ("C07",), lambda tg: tg.eraseRegion(0.5, 1.0, True)),
    ("erase-keep", ("C07",), lambda tg: tg.eraseRegion(0.75, 2.25, False)),
    ("space-split", ("C08",), lambda tg: tg.insertSpace(0.75, 0.5, "split")),
    ("space-stretch", ("C08",), lambda tg: tg.insertSpace(2.25, 1.0, "stretch")),
    ("shift-right", ("C09",), lambda tg: tg.editTimestamps(0.5, "silence")),
    ("shift-left-clipping", ("C09",), lambda tg: tg.editTimestamps(-0.75, "silence")),
    ("appendTextgrid", ("C09",), lambda tg: tg.appendTextgrid(_other_tg(), False)),
    ("appendTextgrid-matching", ("C09",), lambda tg: tg.appendTextgrid(_other_tg(), True)),
    ("mergeTiers", ("C10", "C12"), lambda tg: tg.mergeTiers()),
    ("mergeTiers-keep-others", ("C10", "C12"), lambda tg: tg.mergeTiers([n for n in tg.tierNames if tg.getTier(n).tierType == constants.INTERVAL_TIER][:2], True)),
    ("reopened-short", ("C01", "C03"), lambda tg: _reopened(tg, "short_textgrid")),
    ("reopened-long", ("C01", "C03"), lambda tg: _reopened(tg, "long_textgrid")),
    ("reopened-json", ("C01", "C03"), lambda tg: _reopened(tg, "json")),
    ("reopened-textgrid-json", ("C01", "C03"), lambda tg: _reopened(tg, "textgrid_json")),
    ("mutated-in-place", ("C12",), lambda tg: (tg.renameTier(tg.tierNames[0], "ren"), tg.addTier(IT("add", [(0.0, 1.0, "x")], 0.0, 4.0), 0),
                                              tg.removeTier(tg.tierNames[-1]), tg)[-1]),
]


def _rebuild_tg(snap):
    names, lo, hi, tiers = snap
    tg = Textgrid(lo, hi)
    for c in tiers:
        tg.addTier(mk(c), None, "silence")
    tg.minTimestamp, tg.maxTimestamp = lo, hi
    return tg


def _tg_consumers(r):
    obs = {"snap": snap_tg(r)}
    obs["tier-types"] = repr([(type(t).__name__, sorted({type(e).__name__ for e in t.entries})) for t in r.tiers])
    obs.update(_file_forms(r, ""))
    menu = [("crop", lambda: r.crop(0.5, 2.5, "truncated", True)), ("crop-lax", lambda: r.crop(1.25, 2.75, "lax", False)),
            ("erase", lambda: r.eraseRegion(0.5, 1.5, True)), ("space", lambda: r.insertSpace(1.0, 0.5, "split")),
            ("space-error", lambda: r.insertSpace(0.5, 0.5, "error")),
            ("shift", lambda: r.editTimestamps(-0.5, "silence")), ("shift-warning", lambda: r.editTimestamps(2.5, "warning")),
            ("append", lambda: r.appendTextgrid(_other_tg(), False)), ("appended-to", lambda: _other_tg().appendTextgrid(r, True)),
            ("merge", lambda: r.mergeTiers()), ("new", lambda: r.new()), ("validate", lambda: r.validate("warning")),
            ("eq", lambda: (r == _rebuild_tg(snap_tg(r)), _rebuild_tg(snap_tg(r)) == r, len(r), list(r.tierNames))),
            ("getTier", lambda: [canon(r.getTier(n)) for n in r.tierNames])]
    for nm, f in menu:
        obs[nm] = _norm(call(f))
    # every tier of the result as a stand-alone operand
    for i, t in enumerate(r.tiers):
        for nm, f in (("tier-crop", lambda t=t: t.crop(0.5, 2.5, "truncated", True)), ("tier-new", lambda t=t: t.new()),
                      ("tier-shift", lambda t=t: t.editTimestamps(0.25, "warning")), ("tier-validate", lambda t=t: t.validate("warning")),
                      ("tier-space", lambda t=t: t.insertSpace(1.0, 0.5, "stretch"))):
            obs[f"{nm}[{i}]"] = _norm(call(f))
    # then mutators on the result itself, in order
    def edit_all():
        for t in r.tiers:
            t.insertEntry(Interval(1.1, 1.3, "k") if t.tierType == constants.INTERVAL_TIER else Point(1.1, "k"), "replace", "silence")
    steps = [("edit-tiers-in-place", edit_all),
             ("rename", lambda: r.renameTier(r.tierNames[0], "zz")), ("add", lambda: r.addTier(PT("added", [(1.0, "x")], 0.0, 9.0), 1, "warning")),
             ("replace", lambda: r.replaceTier(r.tierNames[-1], IT("rep", [(0.0, 1.0, "y")], 0.0, 2.0), "warning")),
             ("remove", lambda: r.removeTier(r.tierNames[0]))]
    for nm, f in steps:
        if not r.tierNames:
            break
        obs["then-" + nm] = (_norm(call(f)), snap_tg(r))
    obs.update(_file_forms(r, "then-"))
    return obs


def _check_tg(case):
    si, pi = case
    name, props, f = TG_PRODUCERS[pi]
    res = {}
    viols = []
    # shifting, appending and merging may hand tier OBJECTS of the source on to the result (an entry-less tier is not copied): for
    # those only the source's own names, order and span are compared afterwards, for the others its whole content
    may_share = name.startswith(("shift", "append", "merge"))
    for which in ("result", "rebuilt"):
        tg = _tg_seed(si)
        st, r, _ = call(f, tg)
        if st == "exc":
            return 1, "raised", (si, name, "raised"), []
        before = snap_tg(tg)
        inplace = name.endswith("-in-place")
        if which == "rebuilt":
            try:
                r = _rebuild_tg(snap_tg(r))
            except Exception:
                return 1, "unconstructible", None, []
        elif not inplace and r is tg:
            viols.append(Viol("result-is-the-receiver", f"textgrid {name} on seed {si} returned the receiver itself, not a new textgrid"))
        res[which] = _tg_consumers(r)
        if which == "result" and not inplace and not viols:
            after = snap_tg(tg)
            if (after[:3] != before[:3]) if may_share else (after != before):
                viols.append(Viol("result-entangled-with-source",
                                  f"textgrid {name} on seed {si}: using and then editing the RETURNED textgrid (rename / add / replace / remove tiers"
                                  f"{'' if may_share else ', edit a tier in place'}) changed the source: {before} -> {after}"))
    if not viols:
        v = _check_assembly(si, name, f)
        if v is not None:
            viols.append(v)
    if viols:
        return 2, "!", None, viols
    a, b = res["result"], res["rebuilt"]
    for k in a:
        if a[k] != b.get(k):
            viols.append(Viol("result-differs-from-rebuilt:" + k.split(":")[0].split("[")[0],
                              f"textgrid {name} on seed {si} {snap_tg(_tg_seed(si))}: fed into {k!r} the returned textgrid gives {str(a[k])[:300]} but a "
                              f"textgrid built from the same names, spans and entries gives {str(b.get(k))[:300]}"))
            break
    return len(a) * 2, "ok", (si, name), viols


GENERAL = ("C05", "C13")   # every producer: reachable objects are well-formed / copies are independent


def _cases(prop):
    tier = [(si, pi) for pi, (nm, props, f) in enumerate(TIER_PRODUCERS) if prop in props or prop in GENERAL for si in range(len(SEEDS))]
    tg = [(si, pi) for pi, (nm, props, f) in enumerate(TG_PRODUCERS) if prop in props or prop in GENERAL or prop == "C12" for si in range(3)]
    return tier, tg


def _check(case):
    kind, c = case
    return _check_tier(c) if kind == "tier" else _check_tg(c)


def part(prop):
    tier, tg = _cases(prop)
    if not tier and not tg:
        return None
    return InputPart("results-as-operands", lambda: [("tier", c) for c in tier] + [("tg", c) for c in tg], _check,
                     rule="two-step pipelines: every producer of this property (operations returning a tier / textgrid; %d tier cases on %d seed "
                          "tiers, %d textgrid cases on 3 seed textgrids) -> the returned object and an object rebuilt from its name, spans and "
                          "entries through the public constructors agree under ~80 consumers: the ~30 observations of the history battery as "
                          "receiver and argument, attribute access and stored types, equality both ways, a textgrid around it, the 8 written "
                          "forms (bytes) and what the reader makes of them, textgrid-level crop / erase / insertSpace / shift / append / merge, "
                          "every tier as a stand-alone operand, and in-place edits afterwards" % (len(tier), len(SEEDS), len(tg)),
                     bounds={"tier_cases": len(tier), "textgrid_cases": len(tg)}, chunk=4)
