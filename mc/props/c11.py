"""C11 - insertEntry / deleteEntry follow the selected collision policy exactly.

Explicit-state BFS from every small seed tier; a transition is one real insertEntry / deleteEntry call on a
tier rebuilt from the canonical state; a list model is advanced in lock step and compared after every step.
"""
from fractions import Fraction as F

from mc import domains as D
from mc.engine import BfsPart, InputPart, Viol
from mc.models import ival
from mc.props.common import IT, PT, errors, PE, call, ents, wellformed, canon, mk, constants, fresh

Interval = constants.Interval
Point = constants.Point
CMODES = fresh(("error", "replace", "merge"))
RMODES = fresh(("silence", "warning"))
LABCAP = 7


def _ops_iv(vals):
    def ops(state):
        for a in vals:
            for b in vals:
                for m in CMODES:
                    for rp in RMODES:
                        yield ("ins", a, b, m, rp)
        for i in range(len(state[4])):
            yield ("del", i)
        yield ("delabs", 0)
        yield ("delabs", 1)
        yield ("delabs", 2)
    return ops


def _step_iv(state, op, t=None):
    kind, name, lo, hi, entries = state
    if t is None:
        t = mk(state)
    E = ival.fentries(entries)
    viols = []
    # exact rationals that no float represents may legitimately come back as the nearest float (the tier constructors convert to float)
    exact = not any(isinstance(v, F) for v in list(op[1:3]) + [x for e in entries for x in e[:2]])
    if op[0] == "ins":
        _, a, b, mode, rp = op[:5]
        lab = op[5] if len(op) > 5 else "n"
        new = (a, b, lab)
        # the public API accepts Interval objects and plain tuples; 'replace' uses a tuple with a padded label
        arg = (a, b, " " + lab + " ") if mode == "replace" else Interval(*new)
        st, r, out = call(t.insertEntry, arg, mode, rp)
        tag = f"insertEntry({tuple(arg)},{mode!r},{rp!r}) on {entries} span ({lo},{hi})"
        after = canon(t)
        if a >= b:
            if st != "exc" or not isinstance(r, PE):
                viols.append(Viol("degenerate-entry-accepted", f"{tag}: {st} {r!r} -> {after}"))
            elif after != state:
                viols.append(Viol("changed-on-failure", f"{tag} raised {r!r} but the tier changed to {after}"))
            return None, 1, "degenerate", None, viols
        try:
            exp, elo, ehi, coll = ival.insert_interval(E, F(lo), F(hi), (F(a), F(b), lab), mode)
        except ival.Collision:
            if st != "exc" or not isinstance(r, errors.CollisionError):
                viols.append(Viol("collision-not-raised", f"{tag}: expected CollisionError, got {st} {r!r}"))
            elif after != state:
                viols.append(Viol("changed-on-failure", f"{tag} raised CollisionError but the tier changed to {after}"))
            return None, 1, "CollisionError", ("coll-err", len(entries)), viols
        if st == "exc":
            viols.append(Viol("insert-raised:" + type(r).__name__, f"{tag} raised {r!r}"))
            return None, 1, "X", None, viols
        msg = ival.compare_entries(ents(t), exp, exact, "entries after insert") or \
            ival.compare_num(t.minTimestamp, elo, exact, "minTimestamp") or \
            ival.compare_num(t.maxTimestamp, ehi, exact, "maxTimestamp")
        if msg is None:
            if rp == "silence" and out:
                msg = f"printed {out!r} in silence mode"
            elif rp == "warning" and bool(out) != coll:
                msg = f"warning printed={bool(out)} but collision={coll}"
        if msg is None:
            w = wellformed(t)
            if w:
                msg = f"ill-formed tier after insert ({w})"
        if msg:
            viols.append(Viol("insert-result", msg + f"  [{tag}] -> {after}"))
            return None, 1, "!", None, viols
        ncoll = sum(1 for x in E if x[0] < F(b) and x[1] > F(a))
        return after, 1, f"ins-{mode}-coll{min(ncoll, 3)}", (mode, ncoll, a < lo, b > hi, len(entries)), viols
    if op[0] == "del":
        target = t.entries[op[1]]
        st, r, out = call(t.deleteEntry, target)
        tag = f"deleteEntry({tuple(target)}) on {entries}"
        exp = [e for k, e in enumerate(E) if k != op[1]]
        if st == "exc":
            viols.append(Viol("delete-raised:" + type(r).__name__, f"{tag} raised {r!r}"))
            return None, 1, "X", None, viols
        msg = ival.compare_entries(ents(t), exp, exact, "entries after delete")
        if msg is None and (t.minTimestamp, t.maxTimestamp) != (lo, hi):
            msg = f"span changed to ({t.minTimestamp},{t.maxTimestamp})"
        if msg:
            viols.append(Viol("delete-result", msg + f"  [{tag}]"))
            return None, 1, "!", None, viols
        return canon(t), 1, "del", ("del", len(entries), op[1]), viols
    # delete an absent entry: must raise, tier unchanged
    if op[1] == 0:
        target = Interval(0.25, 0.75, "zz")
    elif op[1] == 1 and entries:
        target = Interval(entries[0][0], entries[0][1], entries[0][2] + "?")
    elif op[1] == 2 and entries:
        # an entry that differs from a present one by MORE than the library's equality tolerance for entries (1e-9 relative)
        target = Interval(entries[0][0], entries[0][1] + max(0.25, abs(entries[0][1]) * 2.0 ** -24), entries[0][2])
    else:
        return None, 0, "skip", None, viols
    st, r, out = call(t.deleteEntry, target)
    if st != "exc":
        viols.append(Viol("absent-delete-accepted", f"deleteEntry({tuple(target)}) on {entries} did not raise -> {canon(t)}"))
    elif canon(t) != state:
        viols.append(Viol("changed-on-failure", f"deleteEntry({tuple(target)}) raised but the tier changed to {canon(t)}"))
    return None, 1, "absent", None, viols


def _ops_pt(vals):
    def ops(state):
        for a in vals:
            for m in CMODES:
                for rp in RMODES:
                    yield ("ins", a, m, rp)
        for i in range(len(state[4])):
            yield ("del", i)
        yield ("delabs", 0)
        yield ("delabs", 1)
    return ops


def _step_pt(state, op, t=None):
    kind, name, lo, hi, entries = state
    if t is None:
        t = mk(state)
    P = ival.fentries(entries)
    viols = []
    if op[0] == "ins":
        _, a, mode, rp = op[:4]
        lab = op[4] if len(op) > 4 else "n"
        new = (a, lab)
        st, r, out = call(t.insertEntry, (a, " " + lab + "\n") if mode == "replace" else Point(*new), mode, rp)
        tag = f"PointTier.insertEntry({new},{mode!r},{rp!r}) on {entries} span ({lo},{hi})"
        after = canon(t)
        try:
            exp, elo, ehi, coll = ival.insert_point(P, F(lo), F(hi), (F(a), lab), mode)
        except ival.Collision:
            if st != "exc" or not isinstance(r, errors.CollisionError):
                viols.append(Viol("collision-not-raised", f"{tag}: expected CollisionError, got {st} {r!r}"))
            elif after != state:
                viols.append(Viol("changed-on-failure", f"{tag} raised CollisionError but the tier changed to {after}"))
            return None, 1, "CollisionError", ("coll-err", len(entries)), viols
        if st == "exc":
            viols.append(Viol("insert-raised:" + type(r).__name__, f"{tag} raised {r!r}"))
            return None, 1, "X", None, viols
        msg = ival.compare_entries(ents(t), exp, True, "points after insert") or \
            ival.compare_num(t.minTimestamp, elo, True, "minTimestamp") or \
            ival.compare_num(t.maxTimestamp, ehi, True, "maxTimestamp")
        if msg is None:
            if rp == "silence" and out:
                msg = f"printed {out!r} in silence mode"
            elif rp == "warning" and bool(out) != coll:
                msg = f"warning printed={bool(out)} but collision={coll}"
        if msg is None:
            w = wellformed(t)
            if w:
                msg = f"ill-formed tier after insert ({w})"
        if msg:
            viols.append(Viol("insert-result", msg + f"  [{tag}] -> {after}"))
            return None, 1, "!", None, viols
        return after, 1, f"ins-{mode}-coll{int(coll)}", (mode, coll, a < lo, a > hi, len(entries)), viols
    if op[0] == "del":
        target = t.entries[op[1]]
        st, r, out = call(t.deleteEntry, target)
        exp = [e for k, e in enumerate(P) if k != op[1]]
        if st == "exc":
            viols.append(Viol("delete-raised:" + type(r).__name__, f"deleteEntry({tuple(target)}) on {entries} raised {r!r}"))
            return None, 1, "X", None, viols
        msg = ival.compare_entries(ents(t), exp, True, "points after delete")
        if msg is None and (t.minTimestamp, t.maxTimestamp) != (lo, hi):
            msg = f"span changed to ({t.minTimestamp},{t.maxTimestamp})"
        if msg:
            viols.append(Viol("delete-result", msg + f"  [deleteEntry({tuple(target)}) on {entries}]"))
            return None, 1, "!", None, viols
        return canon(t), 1, "del", ("del", len(entries), op[1]), viols
    if op[1] == 0:
        target = Point(0.25, "zz")
    elif entries:
        target = Point(entries[0][0], entries[0][1] + "?")
    else:
        return None, 0, "skip", None, viols
    st, r, out = call(t.deleteEntry, target)
    if st != "exc":
        viols.append(Viol("absent-delete-accepted", f"deleteEntry({tuple(target)}) on {entries} did not raise"))
    elif canon(t) != state:
        viols.append(Viol("changed-on-failure", f"deleteEntry({tuple(target)}) raised but the tier changed"))
    return None, 1, "absent", None, viols


def _check_live(case, ops_fn, step_fn):
    """op1, op2 (, op3) applied to ONE live tier; the list model (through the canonical state) in lock step"""
    state0, op1 = case
    viols = []
    n = 0
    t0 = mk(state0)
    s1, k, o, nt, v = step_fn(state0, op1, t=t0)
    state1 = canon(t0)
    for op2 in ops_fn(state1):
        t = mk(state0)
        step_fn(state0, op1, t=t)
        s2, k, o, nt, v = step_fn(state1, op2, t=t)
        n += 1 + k
        if v:
            for x in v:
                x["msg"] = f"after {op1} on a live tier built from {state0}: " + x["msg"]
            viols.extend(v)
            break
    return n, "ok", (op1[0], len(state0[4])), viols


# labels are arbitrary text: characters that are special to printf / str.format / regular expressions / the file formats
SPECIAL = ("%", "50%", "%s", "%d %d", "%(x)s", "{", "}", "{0}", "{x}", "\\", "\\n", "\\1", '"', "'", "a-b", "-", "(", "[a", "a b", "\u00e9", "")


def _check_labels(case):
    """one insertEntry (and the deletion of what it left behind) with special-character labels, against the list model"""
    kind, old, lab, mode, rp, geo = case
    if kind == "I":
        state = ("I", "t%", 0.0, 4.0, ((1.0, 3.0, old),))
        op = ("ins",) + ((2.0, 4.0), (3.0, 4.0), (1.0, 3.0))[geo] + (mode, rp, lab)
        succ, n, outcome, nontriv, viols = _step_iv(state, op)
    else:
        state = ("P", "t%", 0.0, 4.0, ((1.0, old),))
        op = ("ins", (1.0, 2.0)[geo % 2], mode, rp, lab)
        succ, n, outcome, nontriv, viols = _step_pt(state, op)
    if succ is not None and not viols:
        for i in range(len(succ[4])):
            _s, k, _o, _n, v = (_step_iv if kind == "I" else _step_pt)(succ, ("del", i))
            n += k
            viols += v
    return n, outcome, (kind, mode, geo, old == lab), viols


def _check_nudged_reinsert(case):
    """'replace' with an entry that is ALMOST the one it collides with (same label, a boundary moved by less than the tolerance the entries' own
    == applies: a boundary re-measured, a drag of a few nanoseconds): the tier afterwards holds the NEW entry, to the last bit, and its span
    contains it"""
    kind, base, which, delta, lab, hi = case
    if kind == "I":
        old = (base, base + 1.0, "a")
        new = (old[0] + (delta if which == "start" else 0.0), old[1] + (delta if which == "end" else 0.0), lab)
        t = IT("t", [(0.0, 0.5, "z"), old] if base >= 0.5 else [old], 0.0, hi)
    else:
        old = (base, "a")
        new = (base + delta, lab)
        t = PT("t", [old], 0.0, hi)
    st, r, _ = call(t.insertEntry, new, "replace", "silence")
    got = [tuple(e) for e in t.entries]
    collides = (kind == "I" and new[0] < old[1] and new[1] > old[0]) or (kind == "P" and new[0] == old[0])
    want = [e for e in got if e[-1] == "z"] + ([new] if collides else sorted([old, new]))
    viols = []
    if st == "exc":
        viols.append(Viol("insert-raised:" + type(r).__name__, f"insertEntry({new!r}, 'replace', 'silence') on a tier holding {old!r}: {r!r}"))
    elif got != want or not (t.minTimestamp <= new[0] and new[-2] <= t.maxTimestamp):
        viols.append(Viol("nudged-entry-not-stored", f"insertEntry({new!r}, 'replace', 'silence') on a tier holding {old!r} (span 0..{hi}): the tier now holds {got} with span "
                                                     f"({t.minTimestamp!r}, {t.maxTimestamp!r}); expected {want}"))
    return 1, "ok", (kind, which, delta > 0, lab), viols


def _nudged_cases():
    for base in (1.0, 3600.0, 0.0):
        for rel in (5e-10, -5e-10, 1e-12, -1e-12, 2e-9):
            delta = rel * max(base + 1.0, 1.0)
            for which in ("start", "end"):
                if base == 0.0 and which == "start" and delta < 0:
                    continue
                for lab in ("a", "b"):
                    for hi in (base + 1.0, base + 2.0):
                        yield ("I", base, which, delta, lab, hi)
        for rel in (5e-10, 1e-12):
            yield ("P", base, "time", rel * max(base, 1.0), "a", base + 2.0)


def _label_cases():
    for kind in ("I", "P"):
        for old in SPECIAL:
            for lab in SPECIAL:
                if old == "" and lab == "":
                    continue
                for mode in CMODES:
                    for rp in RMODES:
                        for geo in ((0, 1, 2) if kind == "I" else (0, 1)):
                            yield (kind, old, lab, mode, rp, geo)


def _check_shared_argument(case):
    """two tiers constructed from ONE list object (canonical Interval / Point items, as a caller building several tiers from one
    annotation would hand over): every insert / delete on the first leaves the second tier and the caller's list as they were"""
    kind, form, op = case
    if kind == "I":
        raw = [(0.0, 1.0, "a"), (1.0, 2.0, "b"), (3.0, 4.0, "c")]
        L = [Interval(*e) for e in raw] if form == "namedtuples" else ([list(e) for e in raw] if form == "lists" else list(raw))
        t1, t2 = IT("w", L, 0.0, 5.0), IT("p", L, 0.0, 5.0)
    else:
        raw = [(0.5, "a"), (1.5, "b"), (3.5, "c")]
        L = [Point(*e) for e in raw] if form == "namedtuples" else ([list(e) for e in raw] if form == "lists" else list(raw))
        t1, t2 = PT("w", L, 0.0, 5.0), PT("p", L, 0.0, 5.0)
    snapshot = [tuple(e) for e in L]
    before2 = canon(t2)
    if op[0] == "del":
        st, r, _ = call(t1.deleteEntry, t1.entries[op[1]])
    elif kind == "I":
        st, r, _ = call(t1.insertEntry, Interval(op[1], op[2], "n"), op[3], "silence")
    else:
        st, r, _ = call(t1.insertEntry, Point(op[1], "n"), op[2], "silence")
    viols = []
    if canon(t2) != before2:
        viols.append(Viol("tiers-share-entries", f"two tiers built from one list ({form}): {op} on the first changed the second to {canon(t2)[4]}"))
    if [tuple(e) for e in L] != snapshot:
        viols.append(Viol("constructor-argument-mutated", f"{op} on a tier changed the list it was constructed from ({form}): {L}"))
    return 1, "ok", (kind, form, op[0]), viols


def _shared_argument_cases():
    for form in ("namedtuples", "tuples", "lists"):
        for i in range(3):
            yield ("I", form, ("del", i))
            yield ("P", form, ("del", i))
        for m in CMODES:
            for a, b in ((2.0, 3.0), (0.5, 1.5), (4.0, 5.0), (-1.0, 0.0)):
                yield ("I", form, ("ins", a, b, m))
            for a in (2.5, 0.5, 4.5):
                yield ("P", form, ("ins", a, m))


def _prune(state):
    return any(len(e[-1]) > LABCAP for e in state[4])


TIER_LOOPS = ("delete-every-entry", "delete-labelled-a", "replace-by-relabelled", "insert-a-late-copy")


def _tier_loop_body(t, e, body):
    isI = t.tierType == constants.INTERVAL_TIER
    if body == "delete-every-entry":
        t.deleteEntry(e)
    elif body == "delete-labelled-a":
        if e[-1] == "a":
            t.deleteEntry(e)
    elif body == "replace-by-relabelled":
        t.insertEntry(Interval(e[0], e[1], e[2] + "'") if isI else Point(e[0], e[1] + "'"), "replace", "silence")
    elif body == "insert-a-late-copy":
        t.insertEntry(Interval(e[0] + 10.0, e[1] + 10.0, e[2]) if isI else Point(e[0] + 10.0, e[1]), "error", "silence")


def _check_tier_edit_while_iterating(case):
    """insertEntry / deleteEntry issued from inside `for entry in tier:` (or over tier.entries): the loop runs over the entries the tier held when
    it started, and the result is that of the same edits issued one after the other"""
    state, body, how = case
    ref = mk(state)
    for e in tuple(ref.entries):
        _tier_loop_body(ref, e, body)
    t = mk(state)

    def loop():
        for e in (t if how == "iter" else t.entries):
            _tier_loop_body(t, e, body)
    st, r, _ = call(loop)
    tag = f"tier {state}: `{body}` for every entry, issued inside a loop over {'the tier' if how == 'iter' else 'tier.entries'}"
    if st == "exc":
        return 1, "X", None, [Viol("edit-while-iterating-raised:" + type(r).__name__, f"{tag} raised {r!r}; tier now {canon(t)}")]
    if canon(t) != canon(ref):
        return 1, "!", None, [Viol("edit-while-iterating-differs", f"{tag}: {canon(t)}, the same edits one after the other give {canon(ref)}")]
    return len(state[4]), "ok", (state[0], len(state[4]), body, how), []


def _check_span_exact(case):
    """an insertion that reaches beyond the span: the span afterwards is EXACTLY the hull of the old span and the new entry - the new bound
    is the entry's own bound (copied), not a number computed from it (old + (end - old) differs from end in the last bit for some pairs)"""
    side, old, new, mode = case
    viols = []
    for kind in ("I", "P"):
        if side == "max":       # span [0, old], entry ending / lying at new > old
            t = IT("t", [(0.0, old, "a")], 0.0, old) if kind == "I" else PT("t", [(old, "a")], 0.0, old)
            e = Interval((old + new) / 2 if mode == "error" else old / 2, new, "n") if kind == "I" else Point(new, "n")
            want = (0.0, new)
        else:                   # span [old, 10], entry starting / lying at new < old
            t = IT("t", [(old, 10.0, "a")], old, 10.0) if kind == "I" else PT("t", [(old, "a")], old, 10.0)
            e = Interval(new, (old + new) / 2 if mode == "error" else (old + 10.0) / 2, "n") if kind == "I" else Point(new, "n")
            want = (new, 10.0)
        st, r, _ = call(t.insertEntry, e, mode, "silence")
        if st == "exc":
            viols.append(Viol("insert-raised:" + type(r).__name__, f"{kind} span {side} {old}: insertEntry({tuple(e)}, {mode!r}) raised {r!r}"))
            continue
        if (t.minTimestamp, t.maxTimestamp) != want:
            viols.append(Viol("span-not-exactly-the-hull", f"{kind} tier spanning {'[0, %r]' % old if side == 'max' else '[%r, 10]' % old}: after insertEntry({tuple(e)}, "
                                                           f"{mode!r}) the span is ({t.minTimestamp!r}, {t.maxTimestamp!r}), expected {want}"))
        elif wellformed(t):
            viols.append(Viol("ill-formed-after-insert", f"{kind} {side} {old} {new} {mode}: {wellformed(t)}"))
    return 2, "ok", (side, mode), viols


def _span_exact_cases(quick):
    vals = [round(0.1 * k, 1) for k in range(1, 100)]
    step = 1
    for mode in ("error", "merge", "replace"):
        for i, a in enumerate(vals):
            for b in vals[i + 1:]:
                if quick and mode != "error" and (int(round(a * 10)) + int(round(b * 10))) % 3:
                    continue
                yield ("max", a, b, mode)
                yield ("min", b, a, mode)


def parts(tier):
    quick = tier == "quick"
    grid = D.unit_grid(5)
    ivals = D.half_grid(-1, 5) if not quick else (-1.0, 0.0, 0.5, 1.0, 1.5, 2.0, 3.0, 4.0, 5.0)
    seeds_iv = [("I", "t", 0.0, 4.0, D.labelled(s)) for s in D.interval_sets(grid, 2)]
    pvals = D.half_grid(-1, 5)
    seeds_pt = [("P", "t", 0.0, 4.0, D.labelled_points(s)) for s in D.point_sets(grid, 2)]
    depth = 2 if quick else 3
    ps = [
        BfsPart("insert-delete-intervals", lambda: seeds_iv, _ops_iv(ivals), _step_iv,
                rule="BFS from all %d tiers of <=2 intervals on a 5-grid; transitions = insertEntry((a,b,'n'), mode, reporting) "
                     "for every a,b in %s (incl. a>=b, outside the span) x 3 modes x 2 reporting modes, deleteEntry of every "
                     "present entry and of 3 absent ones; list model compared after every transition; non-trivial = distinct "
                     "(mode, number of colliding entries, grows-left, grows-right, size)" % (len(seeds_iv), ivals),
                bounds={"depth": depth, "label_length_cap": LABCAP, "values": len(ivals)}, max_depth=depth, prune=_prune),
        BfsPart("insert-delete-points", lambda: seeds_pt, _ops_pt(pvals), _step_pt,
                rule="BFS from all point tiers of <=2 points; insertEntry((t,'n')) for every t on the half grid [-1,5] x 3 modes "
                     "x 2 reporting modes, deleteEntry present/absent; list model after every transition",
                bounds={"depth": depth + 1, "label_length_cap": LABCAP}, max_depth=depth + 1, prune=_prune),
    ]
    ugrid = tuple(sorted(D.ULP))
    useeds = [("I", "t", ugrid[0], ugrid[-1], D.labelled(x)) for x in D.interval_sets(ugrid, 2)]
    ps.append(BfsPart("insert-delete-intervals-ulp", lambda: useeds, _ops_iv(ugrid), _step_iv,
                      rule="one insertEntry / deleteEntry step from every tier of <=2 intervals on the ulp-neighbour grid %s with all entries on "
                           "that grid: overlaps of one ulp are collisions, touches are not" % (ugrid,),
                      bounds={"depth": 1}, max_depth=1, prune=_prune))
    upseeds = [("P", "t", ugrid[0], ugrid[-1], D.labelled_points(x, "x")) for x in D.point_sets(ugrid, 3)]
    ps.append(BfsPart("insert-delete-points-ulp", lambda: upseeds, _ops_pt(ugrid), _step_pt,
                      rule="the same for equally labelled point tiers on the ulp-neighbour grid (deleteEntry must remove the point given)",
                      bounds={"depth": 1}, max_depth=1, prune=_prune))
    bgrid = D.BIG
    bseeds = [("I", "t", bgrid[0], bgrid[-1], D.labelled(x, labs)) for x in D.interval_sets(bgrid, 2 if quick else 3) for labs in ("abc", "a")
              if len(x) > 1 or labs == "abc"]
    ps.append(BfsPart("insert-delete-intervals-far-from-zero", lambda: bseeds, _ops_iv(bgrid), _step_iv,
                      rule="one insertEntry / deleteEntry step from every tier of <=%d intervals (distinct labels, and all labels equal) on the dyadic grid "
                           "2**40 + {0, 2**-7, 0.25, 0.5, 1, 2, 3, 4}: at this magnitude entries 0.25 s apart are 'equal' under a 1e-9 relative tolerance, "
                           "but only the colliding entries may be touched" % (2 if quick else 3), bounds={"depth": 1}, max_depth=1, prune=_prune))
    bpseeds = [("P", "t", bgrid[0], bgrid[-1], D.labelled_points(x, labs)) for x in D.point_sets(bgrid, 3) for labs in ("xyz", "x")]
    ps.append(BfsPart("insert-delete-points-far-from-zero", lambda: bpseeds, _ops_pt(bgrid), _step_pt,
                      rule="the same for point tiers (<=3 points, distinct and equal labels) on the far-from-zero grid", bounds={"depth": 1}, max_depth=1,
                      prune=_prune))
    # the size axis: long tiers; one insertEntry (windows at the probed entries, up to all entries colliding at once) or deleteEntry
    def size_ops(state):
        e = state[4]
        cuts = D.size_cuts(e)
        n = len(e)
        for a, b in D.size_windows(cuts, near=4 if n < 100 else 2, far=2):
            for m in CMODES:
                yield ("ins", a, b, m, RMODES[(int(a * 4) + int(b * 4)) % 2])
        for i in D.probe_indices(n):
            yield ("del", i)
        yield ("delabs", 0)
        yield ("delabs", 1)

    size_seeds = [("I", "t", 0.0, e[-1][1] + 1.0, e) for n, layout, e in D.size_family(quick)]
    ps.append(BfsPart("insert-delete-size-sweep", lambda: size_seeds, size_ops, _step_iv,
                      rule="one insertEntry / deleteEntry step from interval tiers of %s entries (gapped and contiguous): new entries whose edges lie just "
                           "before / at / inside / at the end of the entries at both ends, at n/4, n/2, 3n/4 and at indices 8-10, 15-16, 255-257 (colliding "
                           "with 0 .. all entries at once) x 3 modes; deletion of each probed entry" % (list(D.SIZES_QUICK if quick else D.SIZES_THOROUGH),),
                      bounds={"depth": 1}, max_depth=1, prune=lambda st: False))

    def size_ops_pt(state):
        n = len(state[4])
        for i in D.probe_indices(n):
            for m in CMODES:
                yield ("ins", state[4][i][0], m, RMODES[i % 2])
                yield ("ins", state[4][i][0] + 0.25, m, RMODES[i % 2])
            yield ("del", i)
        yield ("delabs", 0)

    size_seeds_pt = [("P", "t", 0.0, n + 1.0, D.long_points(n)) for n in (D.SIZES_QUICK if quick else D.SIZES_THOROUGH)]
    ps.append(BfsPart("insert-delete-points-size-sweep", lambda: size_seeds_pt, size_ops_pt, _step_pt,
                      rule="the same for point tiers of those sizes (insert at / between the probed points, delete each probed point)",
                      bounds={"depth": 1}, max_depth=1, prune=lambda st: False))
    live_iv = [("I", "t", 0.0, 4.0, ()), ("I", "t", 0.0, 4.0, ((1.0, 2.0, "a"),)), ("I", "t", 0.0, 4.0, ((0.0, 1.0, "a"), (1.0, 3.0, "b")))]
    live_vals = (-1.0, 0.0, 0.5, 1.0, 2.0, 3.0, 5.0)
    ps.append(InputPart("live-sequences-intervals", lambda: ((s0, op1) for s0 in live_iv for op1 in _ops_iv(live_vals)(s0)),
                        lambda c: _check_live(c, _ops_iv(live_vals), _step_iv),
                        rule="every pair (op1, op2) of insertEntry / deleteEntry calls on ONE live interval tier from 3 seed tiers, list model in "
                             "lock step (hidden state in the tier object would make the second step disagree)", bounds={"sequence_length": 2}, chunk=2))
    # timestamps of other numeric types (the constructor converts to float, insertEntry stores what it is given): exact rationals that no
    # float represents, and ints
    frac_vals = (0, F(4, 3), 2, F(7, 3), 3.0)
    ps.append(InputPart("live-sequences-rational-timestamps", lambda: ((s0, op1) for s0 in live_iv[:2] for op1 in _ops_iv(frac_vals)(s0)),
                        lambda c: _check_live(c, _ops_iv(frac_vals), _step_iv),
                        rule="every pair (op1, op2) of insertEntry / deleteEntry calls on ONE live interval tier with timestamps given as fractions.Fraction "
                             "(4/3, 7/3) and int next to float: the list model in lock step", bounds={"sequence_length": 2}, chunk=2))
    live_pt = [("P", "t", 0.0, 4.0, ()), ("P", "t", 0.0, 4.0, ((1.0, "a"), (3.0, "b")))]
    ps.append(InputPart("live-sequences-points", lambda: ((s0, op1) for s0 in live_pt for op1 in _ops_pt(pvals)(s0)),
                        lambda c: _check_live(c, _ops_pt(pvals), _step_pt),
                        rule="the same for point tiers", bounds={"sequence_length": 2}, chunk=2))
    ps.append(InputPart("replace-by-a-nudged-copy", _nudged_cases, _check_nudged_reinsert,
                        rule="'replace' with an entry that differs from the one it collides with by 1e-12 .. 2e-9 (relative) in one boundary, at 1 s, 3600 s and 0, with "
                             "the same and with another label, the tier ending at / after the entry: the tier holds the new entry bit for bit and its span contains it",
                        bounds={}))
    ps.append(InputPart("special-character-labels", _label_cases, _check_labels,
                        rule="one insertEntry (overlapping / touching / identical extent; same / other time) on a one-entry tier, then deleteEntry of "
                             "every entry left, for every ordered pair of labels from %d texts that contain printf, str.format, regex, escape and "
                             "quote characters (and the tier name 't%%'), x 3 collision modes x 2 reporting modes, against the list model" % len(SPECIAL),
                        bounds={"labels": len(SPECIAL), "entries": 1}))
    ps.append(InputPart("constructor-argument-independence", _shared_argument_cases, _check_shared_argument,
                        rule="two tiers constructed from ONE list object (items given as Interval / Point named tuples, plain tuples, lists) x every deleteEntry "
                             "and a set of insertEntry calls x 3 modes on the first tier: the second tier and the caller's list stay as they were", bounds={}))
    ps.append(InputPart("edits-issued-while-iterating",
                        lambda: ((st, b, h) for st in (seeds_iv + [("I", "t", 0.0, 4.0, ((0.0, 1.0, "a"), (1.0, 2.0, "a"), (2.0, 3.0, "b"), (3.0, 4.0, "a")))]
                                                       + seeds_pt + [("P", "t", 0.0, 4.0, ((0.0, "a"), (1.0, "a"), (2.0, "b"), (3.0, "a")))])
                                 for b in TIER_LOOPS for h in ("iter", "entries")),
                        _check_tier_edit_while_iterating,
                        rule="all seed tiers (and two 4-entry tiers) x %d loop bodies (delete / delete some / replace / insert per entry) x the loop written over "
                             "the tier itself and over .entries: same result as the same edits issued one after the other" % len(TIER_LOOPS), bounds={}))
    ps.append(InputPart("span-after-insert-exact-decimal-grid", lambda: _span_exact_cases(quick), _check_span_exact,
                        rule="every ordered pair (old bound, new bound) of the one-decimal values 0.1 .. 9.9 (4851 pairs) x both ends of the span x "
                             "interval and point tiers x collision modes: after an insertion reaching beyond the span, the span is exactly "
                             "(bit for bit) the hull of the old span and the new entry, and the tier contains its entries", bounds={"values": 99}, chunk=64))
    from mc.props import live as _live_hist
    ps.append(_live_hist.history_part())
    return ps
