"""C04 - saving adds only blanks and absorbs only sub-threshold slivers.

Enumerated: interval tiers built from a sequence of 1-5 segments, each in {ordinary labelled, ordinary gap, labelled
sliver, gap sliver} (at least one ordinary), sliver lengths from SLV around the 1e-8 default threshold (and 0.05 / 0.059
for the 0.06 threshold), at base times {0, 0.3, 1} x minimumIntervalLength in {None, 1e-8, 0.06} x span overrides
{none, equal, below, above, both, inside the data} x 4 formats x includeBlankSpaces.  The written file is decoded by the
independent reader and judged by a declarative oracle that accepts absorption into either neighbour.
"""
import itertools
import os
from fractions import Fraction as F

from mc import domains as D
from mc.props import c01 as _c01
from mc.engine import InputPart, Viol
from mc.models import praatfmt
from mc.props.common import IT, Textgrid, PE, call, scratch_dir, fresh
from mc.props.c01 import teq

FMTS = fresh(("short_textgrid", "long_textgrid", "json", "textgrid_json"))
OVERRIDES = ("none", "equal", "below", "above", "both", "inside-min", "inside-max", "just-below", "just-above", "lead-gap-mid", "lead-gap-end", "trail-gap-mid", "trail-gap-start")
ORD = 0.25
# (the second interval tier is named with quotation marks in it: a tier name is data, and the four forms spell a quotation mark differently)
T2NAME = 'the "second" tier'


def build(seq, base, slens, labsuffix=""):
    if isinstance(base, tuple):
        # ("end", E): the tier is laid out from its END backwards, so that boundaries lie a sliver BELOW the whole number E
        lens = []
        si = 0
        for k in seq:
            if k in "LG":
                lens.append(ORD)
            else:
                lens.append(slens[si])
                si += 1
        bounds = [base[1]]
        for ln in reversed(lens):
            bounds.append(bounds[-1] - ln)
        bounds.reverse()
        ents, segs = [], []
        li = 0
        for i, k in enumerate(seq):
            s, e = bounds[i], bounds[i + 1]
            lab = None
            if k in "Ll":
                lab = ("L%d" if k == "L" else "s%d") % li + labsuffix + labsuffix
                li += 1
                ents.append((s, e, lab))
            segs.append((k, s, e, lab))
        return ents, segs, bounds[0], bounds[-1]
    t = base
    ents, segs = [], []
    si = li = 0
    for k in seq:
        if k in "LG":
            ln = ORD
        else:
            ln = slens[si]
            si += 1
        s, e = t, t + ln
        t = e
        lab = None
        if k in "Ll":
            lab = ("L%d" if k == "L" else "s%d") % li + labsuffix
            li += 1
            ents.append((s, e, lab))
        segs.append((k, s, e, lab))
    return ents, segs, base, t


def sliver_class(s, e, T):
    """'yes' / 'no' / 'maybe' (within 4 ulp of the threshold, where float rounding of end-start decides)"""
    if T is None:
        return "no" if F(e) > F(s) else "yes"
    d = F(e) - F(s)
    if d == T:
        return "no"  # exactly the threshold is "at least that long" (and the float subtraction is exact then)
    band = 4 * F(2) ** -52 * max(abs(F(e)), F(1, 10 ** 300))
    if abs(d - T) <= band:
        return "maybe"
    return "yes" if d < T else "no"


def check(case):
    seq, slens, base, thr = case[:4]
    ents, segs, lo, hi = build(seq, base, slens, case[4] if len(case) > 4 else "")
    if any(not (s < e) for s, e, _ in ents):
        return 0, "degenerate-float", None, []
    tier = IT("t", list(ents), lo, hi)
    tg = Textgrid()
    tg.addTier(tier)
    # a point tier and a SECOND interval tier with the same content: every interval tier is treated alike
    from mc.props.common import PT as _PT
    tg.addTier(_PT("p", [(lo, "pt")], lo, hi))
    tg.addTier(IT(T2NAME, list(ents), lo, hi))
    T = F(thr) if thr is not None else None
    fn = os.path.join(scratch_dir(), "c04.TextGrid")
    viols = []
    n = 0
    oc = set()
    first_end = ents[0][1] if ents else hi
    for ov in OVERRIDES:
        omin = omax = None
        if ov == "equal":
            omin, omax = lo, hi
        elif ov in ("below", "both"):
            omin = lo - 1.0
        if ov in ("above", "both"):
            omax = hi + 1.0
        if ov == "just-below":  # the leading blank is itself a sliver
            omin = lo - 5e-9
        if ov == "just-above":
            omax = hi + 5e-9
        if ov.startswith("lead-gap"):  # the requested span starts inside / at the end of an unlabelled leading stretch
            if not segs or segs[0][0] != "G":
                continue
            omin = (segs[0][1] + segs[0][2]) / 2 if ov.endswith("mid") else segs[0][2]
        if ov.startswith("trail-gap"):
            if not segs or segs[-1][0] != "G":
                continue
            omax = (segs[-1][1] + segs[-1][2]) / 2 if ov.endswith("mid") else segs[-1][1]
        if ov.startswith("inside") and not ents:
            continue
        if ov == "inside-min":
            omin = (ents[0][0] + ents[0][1]) / 2
        if ov == "inside-max":
            omax = (ents[-1][0] + ents[-1][1]) / 2
        if omin is not None and omax is not None and not omin < omax:
            continue
        fmin = lo if omin is None else omin
        fmax = hi if omax is None else omax
        if not fmin < fmax:
            continue  # a requested span without positive length is not a span
        if not ov.startswith("inside") and not any(k in "LG" and min(e_, fmax) - max(s_, fmin) > ORD / 4 for k, s_, e_, _ in segs) \
                and not (fmin < lo - 0.5 or fmax > hi + 0.5):
            continue  # nothing ordinary is left inside the requested span: outside C04's "mixing ordinary intervals" domain
        for blanks in (True, False):
            for fmt in (FMTS if ov in ("none", "both") else (FMTS[0], FMTS[3]) if blanks else (FMTS[1],)):
                n += 1
                cfg = f"save({fmt}, includeBlankSpaces={blanks}, min={omin!r}, max={omax!r}, minimumIntervalLength={thr!r}) [{ov}]"
                rejecting = ov.startswith("inside") and blanks
                target = fn + ".rejected" if rejecting else fn  # a fresh path: what a rejected save leaves there is looked at
                if rejecting and os.path.exists(target):
                    os.remove(target)
                st, r, _ = call(tg.save, target, fmt, blanks, omin, omax, thr, "silence")
                if rejecting:
                    if st != "exc" or not isinstance(r, PE):
                        viols.append(Viol("inconsistent-span-not-rejected", f"{cfg} of {ents}: {st} {r!r}; an entry falls outside the requested span"))
                    elif os.path.exists(target):
                        # "raises INSTEAD OF writing an inconsistent file": whatever is at the path now must be a consistent textgrid
                        with open(target, encoding="utf-8") as fd:
                            left = fd.read()
                        try:
                            dl = praatfmt.decode(left, fmt)
                            bad = [e for t in dl["tiers"] if t["class"] == "IntervalTier" for e in t["entries"]
                                   if e[0] < dl["xmin"] - 1e-9 or e[1] > dl["xmax"] + 1e-9]
                            why = f"entries {bad[:2]} outside its span ({dl['xmin']},{dl['xmax']})" if bad else None
                        except praatfmt.FormatError as e:
                            why = f"not a textgrid ({e})"
                        except Exception as e:  # decoder structure differs: treat an undecodable remainder as inconsistent
                            why = f"undecodable ({type(e).__name__}: {e})"
                        if why:
                            viols.append(Viol("rejected-save-left-inconsistent-file", f"{cfg} of {ents}: raised {r!r} but left a file of "
                                                                                      f"{len(left)} characters at the (fresh) target path: {why}"))
                    oc.add("R")
                    continue
                if st == "exc":
                    viols.append(Viol("save-raised:" + type(r).__name__, f"{cfg} of {ents} span ({lo},{hi}) raised {r!r}"))
                    continue
                with open(fn, encoding="utf-8") as fd:
                    text = fd.read()
                try:
                    d = praatfmt.decode(text, fmt)
                except praatfmt.FormatError as e:
                    viols.append(Viol("independent-reader-rejects", f"{cfg}: {e}"))
                    continue
                if not (teq(fmin, d["xmin"]) and teq(fmax, d["xmax"])):
                    viols.append(Viol("file-span", f"{cfg}: file span ({d['xmin']!r},{d['xmax']!r}), requested ({fmin!r},{fmax!r})"))
                    continue
                if [t["name"] for t in d["tiers"]] != ["t", "p", T2NAME]:
                    viols.append(Viol("tiers", f"{cfg}: tiers {[t['name'] for t in d['tiers']]}"))
                    continue
                for ti in (0, 2):
                    W = [tuple(x) for x in d["tiers"][ti]["entries"]]
                    tname = d["tiers"][ti]["name"]
                    if not blanks:
                        if len(W) != len(ents) or any(w[2] != e[2] or not teq(e[0], w[0]) or not teq(e[1], w[1]) for w, e in zip(W, ents)):
                            viols.append(Viol("not-verbatim", f"{cfg}: tier {tname}: entries {W} are not the in-memory entries {ents}"))
                        oc.add("V")
                        continue
                    msg = _judge(W, segs, lo, hi, fmin, fmax, T)
                    if msg:
                        viols.append(Viol("absorption", f"{cfg}: tier {tname}: {msg}\n   written {W}\n   segments {segs}"))
                    oc.add("P")
    ns = sum(1 for k in seq if k in "lg")
    return n, "".join(sorted(oc)), (seq, thr, tuple(sliver_class(s, e, T) for k, s, e, _ in segs if k in "lg")), viols


def _judge(W, segs, lo, hi, fmin, fmax, T):
    # partition of the requested span (numbers as decoded: near-integers may be printed as integers)
    if not W:
        return "no intervals written"
    if not teq(fmin, W[0][0]) or not teq(fmax, W[-1][1]):
        return f"written intervals cover ({W[0][0]!r},{W[-1][1]!r}), requested span is ({fmin!r},{fmax!r})"
    for a, b in zip(W, W[1:]):
        if a[1] != b[0]:
            return f"{'gap' if a[1] < b[0] else 'overlap'} between {a!r} and {b!r}"
    for a in W:
        if not a[0] < a[1]:
            return f"interval {a!r} has no positive length"
    # the segments as seen through the requested span (an override may only cut into unlabelled stretches here)
    allsegs = []
    for k, s_, e_, lab in segs:
        s2, e2 = max(s_, fmin), min(e_, fmax)
        if s2 < e2:
            allsegs.append((k, s2, e2, lab))
    if fmin < lo:
        allsegs.insert(0, ("G", fmin, lo, None))
    if fmax > hi:
        allsegs.append(("G", hi, fmax, None))
    cls = [(k, s, e, lab, sliver_class(s, e, T)) for k, s, e, lab in allsegs]
    if any(c[4] == "maybe" for c in cls):
        return None  # indifferent band: float rounding of end-start decides
    kept = [(s, e, lab) for k, s, e, lab, sl in cls if lab is not None and sl == "no"]
    wl = [w for w in W if w[2] != ""]
    if [w[2] for w in wl] != [k[2] for k in kept]:
        return f"labels written {[w[2] for w in wl]}, expected exactly the labelled intervals at least the threshold long {[k[2] for k in kept]}"
    for w, (s, e, lab) in zip(wl, kept):
        idx = [i for i, c in enumerate(cls) if c[3] == lab][0]
        j = idx
        while j > 0 and cls[j - 1][4] == "yes":
            j -= 1
        lmin = cls[j][1]
        j = idx
        while j < len(cls) - 1 and cls[j + 1][4] == "yes":
            j += 1
        rmax = cls[j][2]
        ws, we = float(w[0]), float(w[1])
        if not (_le(lmin, ws) and _le(ws, s) and _le(e, we) and _le(we, rmax)):
            return (f"interval {lab!r} written as ({w[0]!r},{w[1]!r}); its boundaries may only move into an adjacent sliver "
                    f"chain: start in [{lmin!r},{s!r}], end in [{e!r},{rmax!r}]")
    for w in W:
        if sliver_class(w[0], w[1], T) == "yes":
            return f"written interval {w!r} is shorter than the threshold"
    return None


def _le(a, b):
    return a <= b or teq(a, b) or teq(b, a)


def gen(quick):
    kinds = "LGlg"
    slv = (1e-12, 9.9e-9, 1e-8, 1.1e-8) if quick else D.SLV
    maxn = 4 if quick else 5
    for n in range(1, maxn + 1):
        for seq in itertools.product(kinds, repeat=n):
            if not any(k in "LG" for k in seq):
                continue
            ns = sum(k in "lg" for k in seq)
            if ns > 3:
                continue
            seqs = "".join(seq)
            for base in (0.0, 0.3, 1.0):
                lens = slv if ns <= 2 else slv[::2]  # three slivers: every second length (keeps 1e-12, 9.9e-9 / 1e-8, ...)
                for slens in itertools.product(lens, repeat=ns):
                    for thr in (None, 1e-8):
                        yield (seqs, slens, base, thr)
                if ns:
                    for slens in itertools.product((0.05, 0.059) if ns <= 2 else (0.05,), repeat=ns):
                        yield (seqs, slens, base, 0.06)
                if n <= 2 and base == 0.0:
                    # a tier on the NEGATIVE side whose first boundary lies a few ulps above a whole number (1.1 - 4.1 = -2.9999999999999996): the writer prints
                    # it as it is - not as -2 (truncation of a value taken for whole by floor) and not as -3
                    for nb in (-2.9999999999999996, -0.9999999999999999, -100.99999999999999):
                        for slens in itertools.product((1e-12, 1.1e-8), repeat=ns):
                            yield (seqs, slens, nb, 1e-8)
                if ns and ns <= 2 and n <= 3:
                    # thresholds FINER than the library's default resolution (1e-9, 0): the caller's threshold is the threshold - a 5e-9 interval is
                    # not a sliver under 1e-9, and under 0 nothing is
                    for slens in itertools.product((5e-9, 5e-10), repeat=ns):
                        for thr in (1e-9, 0):
                            yield (seqs, slens, base, thr)
                        if not quick:
                            yield (seqs, slens, base, None)
            # labels with many quote characters / hundreds of characters (the label is written with the interval, whatever its length)
            if n <= 2 and ns <= 1:
                # ... and labels that are NOT in Unicode normalisation form C (a base letter followed by a combining mark, conjoining jamo, the
                # ANGSTROM / OHM signs): canonically equivalent to another string, but the label is written exactly as it is
                for suffix in (' "a" "b" "c" "d" "e"', ' ' + '"' * 30, " " + "x" * 9000, " e\u0301 a\u0303", " \u1112\u1161\u11ab \u212b\u2126", " \u00e9 \ufb01"):
                    for slens in itertools.product((1e-12, 1.1e-8), repeat=ns):
                        yield (seqs, slens, 0.3, 1e-8, suffix)
            # laid out backwards from a whole number: boundaries a sliver BELOW 1, 100 and 4096 (numbers that are nearly but not quite integral)
            if ns and n <= (3 if quick else 4):
                for base in (("end", 1.0), ("end", 100.0), ("end", 4096.0)):
                    for slens in itertools.product((1e-12, 9.9e-9, 1.1e-8) if ns == 1 else (1e-12, 1.1e-8), repeat=ns):
                        for thr in (None, 1e-8):
                            yield (seqs, slens, base, thr)


def gen_long(quick):
    """the size axis: tiers of 11 .. 300 segments (two- and three-digit interval indices), slivers at every position class"""
    cyc = (1e-12, 9.9e-9, 1.1e-8)
    for unit in ("Ll", "LG", "LgL", "GlL", "LlgL"):
        for reps in ((6, 40) if quick else (4, 6, 17, 40, 100)):
            seqs = unit * reps
            ns = sum(k in "lg" for k in seqs)
            for rot in range(3):
                slens = tuple(cyc[(i + rot) % 3] for i in range(ns))
                for base in (0.0, 0.3):
                    for thr in (None, 1e-8):
                        yield (seqs, slens, base, thr)


def _snippet(case):
    seq, slens, base, thr = case[:4]
    ents, segs, lo, hi = build(seq, base, slens, case[4] if len(case) > 4 else "")
    return ("from praatio import textgrid\n"
            f"tg = textgrid.Textgrid(); tg.addTier(textgrid.IntervalTier('t', {ents!r}, {lo!r}, {hi!r}))\n"
            f"tg.save('/tmp/x.json', 'textgrid_json', True, None, None, {thr!r}, 'silence')\n"
            "print(open('/tmp/x.json').read())\n")


# ------------------------------------------------------------------ a threshold coarser than every interval
COARSE_TIERS = (
    # (entries, tier span): every labelled interval and every unlabelled stretch is shorter than the threshold 0.06
    (((0.5, 0.52, "a"), (0.52, 0.54, "b")), (0.5, 0.54)),
    (((0.51, 0.53, "a"),), (0.5, 0.54)),
    (((0.0, 0.03, "a"), (0.04, 0.05, "b")), (0.0, 0.05)),
    ((), (0.5, 0.54)),
    (((1.0, 1.05, "a"),), (1.0, 1.05)),
)


def _check_coarse(case):
    """nothing in the tier is as long as the threshold: C04's promises about labelled intervals 'at least that long' are empty, what remains is the
    file's shape - the requested span is the file's span and, with blank filling on, the written intervals of every interval tier cover exactly that span,
    in order, without holes, each of positive length (what they are labelled is not judged here)"""
    ti, ov, fmt, thr = case
    ents, (lo, hi) = COARSE_TIERS[ti]
    tg = Textgrid()
    tg.addTier(IT("t", list(ents), lo, hi))
    omin = {"below": lo - 0.01, "both": lo - 0.01, "far-below": lo - 1.0}.get(ov)
    omax = {"above": hi + 0.01, "both": hi + 0.01, "far-above": hi + 1.0}.get(ov)
    fmin = lo if omin is None else omin
    fmax = hi if omax is None else omax
    fn = os.path.join(scratch_dir(), "c04-coarse.TextGrid")
    cfg = f"save({fmt}, includeBlankSpaces=True, min={omin!r}, max={omax!r}, minimumIntervalLength={thr!r}) of {ents} span ({lo},{hi})"
    st, r, _ = call(tg.save, fn, fmt, True, omin, omax, thr, "silence")
    if st == "exc":
        return 1, "!", None, [Viol("save-raised:" + type(r).__name__, f"{cfg} raised {r!r}")]
    with open(fn, encoding="utf-8") as fd:
        text = fd.read()
    try:
        d = praatfmt.decode(text, fmt)
    except praatfmt.FormatError as e:
        return 1, "!", None, [Viol("independent-reader-rejects", f"{cfg}: {e}")]
    if not (teq(fmin, d["xmin"]) and teq(fmax, d["xmax"])):
        return 1, "!", None, [Viol("file-span", f"{cfg}: file span ({d['xmin']!r},{d['xmax']!r}), requested ({fmin!r},{fmax!r})")]
    W = [tuple(x) for x in d["tiers"][0]["entries"]]
    ok = bool(W) and teq(W[0][0], fmin) and teq(W[-1][1], fmax) and all(teq(a[1], b[0]) for a, b in zip(W, W[1:])) and all(w[0] < w[1] for w in W)
    if not ok:
        return 1, "!", None, [Viol("written-intervals-do-not-cover-the-span", f"{cfg}: written intervals {W} are not a partition of the requested span [{fmin!r}, {fmax!r}]")]
    return 1, "ok", (ti, ov, thr), []


def _coarse_cases():
    for ti in range(len(COARSE_TIERS)):
        for ov in ("none", "below", "above", "both", "far-below", "far-above"):
            for fmt in FMTS:
                for thr in (0.06, 10.0, 1e-8, None):
                    yield (ti, ov, fmt, thr)


def parts(tier):
    quick = tier == "quick"
    return [InputPart(
        "slivers", lambda: gen(quick), check,
        rule="all segment sequences over {ordinary labelled, ordinary gap, labelled sliver, gap sliver} of length <=%d with at least "
             "one ordinary segment and <=3 slivers x sliver lengths x base times {0,0.3,1} (and, laid out backwards from their end, tiers ending at 1, 100, 4096 so that boundaries lie a sliver below a whole number) x thresholds {None,1e-8,0.06} (and the finer thresholds 1e-9 and 0 with slivers of 5e-9 / 5e-10), plus labels with 10 / 30 quote characters and of 9000 characters; each case "
             "runs 13 span overrides (none, equal, below/above/both by 1 s, just below/above by a sliver, inside an unlabelled leading/trailing stretch, inside the data) x includeBlankSpaces x formats (all 4 for 'none'/'both', short + textgrid_json otherwise), on a textgrid with two identical interval tiers and a point tier; non-trivial = distinct (sequence, threshold, exact sliver "
             "classification)" % (4 if quick else 5),
        bounds={"max_segments": 4 if quick else 5, "sliver_lengths": list((1e-12, 9.9e-9, 1e-8, 1.1e-8) if quick else D.SLV)},
        snippet=_snippet, chunk=8),
        InputPart("slivers-long-tiers", lambda: gen_long(quick), check,
                  rule="the size axis: tiers of 12-160 (thorough up to 400) segments built by repeating 5 units (ordinary / sliver patterns) with sliver lengths "
                       "cycling through {1e-12, 9.9e-9, 1.1e-8} x base times {0, 0.3} x thresholds {None, 1e-8}; the same oracle and the same 13 overrides",
                  bounds={}, snippet=_snippet, chunk=1),
        InputPart("threshold-coarser-than-every-interval", _coarse_cases, _check_coarse,
                  rule="tiers in which every labelled interval and every unlabelled stretch is shorter than minimumIntervalLength (0.06, 10; and 1e-8 / None for "
                       "comparison) x 6 span overrides x 4 formats, blank filling on: the file's span is the requested span and the written intervals "
                       "partition it (in order, no hole, positive lengths)", bounds={}),
        _c01.residue_part(quick)]
