"""The operation menu over tiers shared by C05 (reachability / invariant) and C13 (non-mutation).

An op is a literal tuple; ``apply(t, op)`` calls the real method on the real tier ``t``.  Mutators
(insertEntry / deleteEntry) are applied to ``t`` itself - callers that need a successor *state* pass a
``t.new()`` copy.
"""
import itertools

from mc.props.common import IT, PT, constants, fresh

Interval = constants.Interval
Point = constants.Point

# fixed second operands (kept non-empty for dejitter / morph: an empty reference is an "error case", C14)
OTHERS_I = (
    ("I", "o", 0.0, 3.0, ((0.5, 2.0, "m"),)),
    ("I", "o", 0.0, 3.0, ((0.0, 1.0, "m"), (1.0, 3.0, "n"))),
    ("I", "o", 0.0, 3.0, ()),
)
OTHERS_P = (
    ("P", "o", 0.0, 3.0, ((1.0, "m"),)),
    ("P", "o", 0.0, 3.0, ((0.0, "m"), (3.0, "n"))),
    ("P", "o", 0.0, 3.0, ()),
)
OTHERS_I_DEC = (
    ("I", "o", 0.1, 2.3, ((0.2, 1.1, "m"),)),
    ("I", "o", 0.1, 2.3, ((0.1, 0.3, "m"), (0.3, 1.3, "n"))),
    ("I", "o", 0.1, 2.3, ()),
)
OTHERS_P_DEC = (
    ("P", "o", 0.1, 2.3, ((0.7, "m"),)),
    ("P", "o", 0.1, 2.3, ((0.1, "m"), (2.3, "n"))),
    ("P", "o", 0.1, 2.3, ()),
)

CROP_MODES = fresh(("strict", "lax", "truncated"))
ERASE_MODES = fresh(("truncate", "categorical", "error"))
SPACE_MODES = fresh(("stretch", "split", "no_change", "error"))
INS_MODES = fresh(("error", "replace", "merge"))


def menu(state, V, durs, offs, maxdiff=0.5, n_others=3):
    """All enabled operations for a state.  Regions for eraseRegion / insertSpace are kept inside the current
    span (those operations' stated domain)."""
    kind, name, lo, hi, entries = state
    isI = kind == "I"
    for a, b in itertools.combinations(V, 2):
        for m in CROP_MODES:
            for rb in (False, True):
                yield ("crop", a, b, m, rb)
        if lo <= a and b <= hi:
            for m in ERASE_MODES:
                for sh in (False, True):
                    yield ("erase", a, b, m, sh)
    for s in V:
        if lo <= s <= hi:
            for d in durs:
                for m in SPACE_MODES:
                    yield ("space", s, d, m)
    for off in offs:
        yield ("shift", off)
    if isI:
        for a, b in itertools.combinations(V, 2):
            for m in INS_MODES:
                yield ("insert", a, b, m)
        # an interval without duration, at every grid value (inside the span, at its end, beyond it): refused, wherever it lies
        for a in V:
            for m in INS_MODES:
                yield ("insert", a, a, m)
    else:
        for a in V:
            for m in INS_MODES:
                yield ("insert", a, m)
    if isI:
        # the reporting mode 'error' is accepted by the option check as well: replace / merge then raise AFTER editing
        for a, b in ((V[0], V[2]), (V[1], V[3]), (V[2], V[4])):
            for m in INS_MODES[1:]:
                yield ("inserterr", a, b, m)
    for i in range(min(len(entries), 2)):
        yield ("delete", i)
    for i in range(n_others):
        yield ("union", i)
        yield ("append", i)
        if i < 2:
            yield ("dejitter", i, maxdiff)
        if isI:
            yield ("difference", i)
            yield ("intersection", i)
            yield ("mergeLabels", i)
            if i < 2:
                yield ("morph", i)
    yield ("new",)
    yield ("newname",)


def apply(t, op, others):
    """Returns the resulting tier (the receiver itself for mutators)."""
    k = op[0]
    if k == "crop":
        return t.crop(op[1], op[2], op[3], op[4])
    if k == "erase":
        return t.eraseRegion(op[1], op[2], op[3], op[4])
    if k == "space":
        return t.insertSpace(op[1], op[2], op[3])
    if k == "shift":
        return t.editTimestamps(op[1], "silence")
    if k == "insert":
        # 'replace' goes through the plain-tuple path with a whitespace-padded label (the public API accepts both)
        if len(op) == 4:
            t.insertEntry((op[1], op[2], " n\t") if op[3] == "replace" else Interval(op[1], op[2], "n"), op[3], "silence")
        else:
            t.insertEntry((op[1], " n ") if op[2] == "replace" else Point(op[1], "n"), op[2], "silence")
        return t
    if k == "inserterr":
        t.insertEntry(Interval(op[1], op[2], "n"), op[3], "error")
        return t
    if k == "delete":
        t.deleteEntry(t.entries[op[1]])
        return t
    if k == "new":
        return t.new()
    if k == "newname":
        return t.new(name="u")
    o = others[op[1]]
    if k == "union":
        return t.union(o)
    if k == "append":
        return t.appendTier(o)
    if k == "dejitter":
        return t.dejitter(o, op[2])
    if k == "difference":
        return t.difference(o)
    if k == "intersection":
        return t.intersection(o)
    if k == "mergeLabels":
        return t.mergeLabels(o)
    if k == "morph":
        return t.morph(o)
    raise ValueError(op)


def is_mutator(op):
    return op[0] in ("insert", "inserterr", "delete")


def snippet(state, op, others_states):
    kind, name, lo, hi, entries = state
    cls = "IntervalTier" if kind == "I" else "PointTier"
    lines = ["from praatio import textgrid", "from praatio.utilities.constants import Interval, Point",
             f"t = textgrid.{cls}({name!r}, {list(entries)!r}, {lo!r}, {hi!r})"]
    k = op[0]
    if k in ("union", "append", "dejitter", "difference", "intersection", "mergeLabels", "morph"):
        ok, on, olo, ohi, oe = others_states[op[1]]
        ocls = "IntervalTier" if ok == "I" else "PointTier"
        lines.append(f"o = textgrid.{ocls}({on!r}, {list(oe)!r}, {olo!r}, {ohi!r})")
    call = {
        "crop": lambda: f"r = t.crop({op[1]!r}, {op[2]!r}, {op[3]!r}, {op[4]!r})",
        "erase": lambda: f"r = t.eraseRegion({op[1]!r}, {op[2]!r}, {op[3]!r}, {op[4]!r})",
        "space": lambda: f"r = t.insertSpace({op[1]!r}, {op[2]!r}, {op[3]!r})",
        "shift": lambda: f"r = t.editTimestamps({op[1]!r}, 'silence')",
        "insert": lambda: (f"t.insertEntry(Interval({op[1]!r}, {op[2]!r}, 'n'), {op[3]!r}, 'silence'); r = t" if len(op) == 4
                           else f"t.insertEntry(Point({op[1]!r}, 'n'), {op[2]!r}, 'silence'); r = t"),
        "delete": lambda: f"t.deleteEntry(t.entries[{op[1]}]); r = t",
        "inserterr": lambda: f"t.insertEntry(Interval({op[1]!r}, {op[2]!r}, 'n'), {op[3]!r}, 'error'); r = t",
        "new": lambda: "r = t.new()",
        "newname": lambda: "r = t.new(name='u')",
        "union": lambda: "r = t.union(o)", "append": lambda: "r = t.appendTier(o)",
        "dejitter": lambda: f"r = t.dejitter(o, {op[2]!r})", "difference": lambda: "r = t.difference(o)",
        "intersection": lambda: "r = t.intersection(o)", "mergeLabels": lambda: "r = t.mergeLabels(o)",
        "morph": lambda: "r = t.morph(o)",
    }[k]()
    lines += [call, "print(r.entries, r.minTimestamp, r.maxTimestamp, r.validate('silence'))"]
    return "\n".join(lines) + "\n"
