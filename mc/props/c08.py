"""C08 - insertSpace opens exactly the requested gap and eraseRegion undoes it.

Enumerated: all interval sets on a grid x all s on the grid/half-grid in [lo, hi] x durations x
4 collision modes (dyadic: bit-exact; decimal: structural + 1e-9, no exception), the composition
insertSpace(s,d,m).eraseRegion(s,s+d,'truncate',True) for m in {stretch, split}; point tiers;
Textgrid.insertSpace.
"""
from fractions import Fraction as F

from mc import domains as D
from mc.engine import InputPart, Viol
from mc.models import ival
from mc.props.common import IT, PT, Textgrid, errors, PE, call, ents, order_type, wellformed, fresh

MODES = fresh(("stretch", "split", "no_change", "error"))


def _check_iv(case, exact):
    entries, lo, hi, s0, d = case
    tier = IT("t", list(entries), lo, hi)
    E = ival.fentries(entries)
    viols, summ, n = [], [], 0
    for mode in MODES:
        n += 1
        tag = f"insertSpace({s0!r},{d!r},{mode!r})"
        st, r, _ = call(tier.insertSpace, s0, d, mode)
        try:
            exp, elo, ehi = ival.insert_space_intervals(E, F(lo), F(hi), F(s0), F(d), mode)
        except ival.Collision:
            if st != "exc" or not isinstance(r, PE):
                viols.append(Viol("straddler-not-rejected", f"{tag} on {entries}: expected a praatio error, got {st} {r!r}"))
            summ.append("R")
            continue
        if st == "exc":
            if exact == "loose" and isinstance(r, PE) and ival.tiny_features(exp):
                summ.append("T")  # a one-ulp interval / gap closed by rounding and was refused: legitimate
                continue
            viols.append(Viol("insertSpace-raised:" + type(r).__name__, f"{tag} on {entries} span ({lo},{hi}) raised {r!r}"))
            summ.append("X")
            continue
        got = ents(r)
        msg = ival.compare_entries(got, exp, exact, tag) or \
            ival.compare_num(r.minTimestamp, elo, exact, tag + " minTimestamp") or \
            ival.compare_num(r.maxTimestamp, ehi, exact, tag + " maxTimestamp")
        if msg is None:
            for s, e, l in entries:  # entries ending at or before s are unchanged (bit-identical)
                if e <= s0 and (s, e, l) not in got:
                    msg = f"{tag}: entry {(s, e, l)} ending at or before s was changed: {got}"
        if msg is None:
            w = wellformed(r)
            if w:
                msg = f"{tag}: ill-formed result ({w}): {got} span ({r.minTimestamp},{r.maxTimestamp})"
        if msg:
            viols.append(Viol("insertSpace-result", msg + f"  [tier {entries} span ({lo},{hi})]"))
            summ.append("!")
            continue
        summ.append(str(len(exp)))
        if mode in ("stretch", "split") and exact != "loose":
          # when the opened gap is unlabelled, every erase mode is a legal inverse (nothing collides), not only 'truncate'
          gap_blank = not any(e[0] < s0 + d and e[1] > s0 for e in got)
          for emode in ("truncate", "error", "categorical") if gap_blank else ("truncate",):
            n += 1
            st2, back, _ = call(r.eraseRegion, s0, s0 + d, emode, True)
            if st2 == "exc":
                viols.append(Viol("inverse-raised:" + type(back).__name__,
                                  f"{tag}.eraseRegion({s0!r},{s0 + d!r},{emode!r},True) on {entries} raised {back!r}"))
                continue
            gb = ival.label_function(ents(back))
            eb = ival.label_function(E)
            msg = ival.compare_entries(gb, eb, exact, tag + " then eraseRegion: label function") or \
                ival.compare_num(back.minTimestamp, F(lo), exact, "inverse minTimestamp") or \
                ival.compare_num(back.maxTimestamp, F(hi), exact, "inverse maxTimestamp")
            if msg is None:
                w = wellformed(back)
                if w:
                    msg = f"inverse: ill-formed ({w})"
            if msg:
                viols.append(Viol("inverse-result", msg + f"  [tier {entries} span ({lo},{hi}) s={s0} d={d} mode={mode} erase mode={emode}]"))
    return n, "/".join(summ), (order_type(entries, (s0,)), d), viols


def _check_pt(case, exact):
    pts, lo, hi, s0, d = case
    tier = PT("p", list(pts), lo, hi)
    P = ival.fentries(pts)
    viols, summ, n = [], [], 0
    for mode in MODES:
        n += 1
        tag = f"PointTier.insertSpace({s0!r},{d!r},{mode!r})"
        st, r, _ = call(tier.insertSpace, s0, d, mode)
        if st == "exc":
            viols.append(Viol("insertSpace-raised:" + type(r).__name__, f"{tag} on {pts} raised {r!r}"))
            continue
        exp, elo, ehi = ival.insert_space_points(P, F(lo), F(hi), F(s0), F(d))
        msg = ival.compare_entries(ents(r), exp, exact, tag) or \
            ival.compare_num(r.minTimestamp, elo, exact, tag + " min") or \
            ival.compare_num(r.maxTimestamp, ehi, exact, tag + " max")
        if msg is None:
            w = wellformed(r)
            if w:
                msg = f"{tag}: ill-formed ({w})"
        if msg:
            viols.append(Viol("insertSpace-result", msg + f"  [points {pts}]"))
        summ.append(str(len(exp)))
    return n, "/".join(summ), (order_type(pts, (s0,)), d), viols


def _check_tg(case, exact):
    tiers, lo, hi, s0, d = case
    tg = Textgrid(lo, hi)
    spans = []
    for t in tiers:
        kind, name, entries = t[:3]
        tlo, thi = t[3] if len(t) > 3 else (lo, hi)  # a tier's own span may be narrower than the textgrid's
        spans.append((tlo, thi))
        tg.addTier((IT if kind == "I" else PT)(name, list(entries), tlo, thi))
    tiers = tuple(t[:3] for t in tiers)
    uniform = all(sp == (lo, hi) for sp in spans)
    viols, summ, n = [], [], 0
    for mode in MODES:
        n += 1
        tag = f"Textgrid.insertSpace({s0!r},{d!r},{mode!r}) tier spans {spans}"
        st, r, _ = call(tg.insertSpace, s0, d, mode)
        exps = []
        rejected = False
        for (kind, name, entries), (tlo, thi) in zip(tiers, spans):
            E = ival.fentries(entries)
            try:
                if kind == "I":
                    exps.append(ival.insert_space_intervals(E, F(tlo), F(thi), F(s0), F(d), mode))
                else:
                    exps.append(ival.insert_space_points(E, F(tlo), F(thi), F(s0), F(d)))
            except ival.Collision:
                rejected = True
        if rejected:
            if st != "exc" or not isinstance(r, PE):
                viols.append(Viol("straddler-not-rejected", f"{tag} on {tiers}: got {st} {r!r}"))
            summ.append("R")
            continue
        if st == "exc":
            if exact == "loose" and isinstance(r, PE) and any(k == "I" and ival.tiny_features(x[0]) for (k, _, _), x in zip(tiers, exps)):
                summ.append("T")  # a one-ulp interval / gap closed by rounding and was refused: legitimate (as at tier level)
                continue
            viols.append(Viol("insertSpace-raised:" + type(r).__name__, f"{tag} on {tiers} raised {r!r}"))
            continue
        msg = None
        if tuple(r.tierNames) != tuple(nm for _, nm, _ in tiers):
            msg = f"{tag}: tier names/order {r.tierNames}"
        for (kind, name, entries), rt, (exp, elo, ehi) in zip(tiers, r.tiers, exps):
            if msg:
                break
            msg = ival.compare_entries(ents(rt), exp, exact, f"{tag} tier {name}") or \
                ival.compare_num(rt.minTimestamp, elo, exact, f"{tag} tier {name} min") or \
                ival.compare_num(rt.maxTimestamp, ehi, exact, f"{tag} tier {name} max")
        if msg is None:
            msg = ival.compare_num(r.minTimestamp, F(lo), exact, f"{tag} textgrid min") or \
                ival.compare_num(r.maxTimestamp, F(hi) + F(d), exact, f"{tag} textgrid max")
        if msg is None and uniform:
            v = call(r.validate, "silence")
            if v[0] != "ok" or v[1] is not True:
                msg = f"{tag}: validate() is not True on the result"
        if msg:
            viols.append(Viol("tg-insertSpace-result", msg + f"  [tiers {tiers}]"))
        summ.append(str(sum(len(x[0]) for x in exps)))
    return n, "/".join(summ), (tuple(order_type(e, (s0,)) for _, _, e in tiers), d, uniform), viols


def _snippet(case):
    entries, lo, hi, s0, d = case
    return ("from praatio import textgrid\n"
            f"t = textgrid.IntervalTier('t', {list(entries)!r}, {lo!r}, {hi!r})\n"
            "for mode in ('stretch', 'split', 'no_change', 'error'):\n"
            "    try:\n"
            f"        r = t.insertSpace({s0!r}, {d!r}, mode)\n"
            "        print(mode, r.entries, r.minTimestamp, r.maxTimestamp)\n"
            "        if mode in ('stretch', 'split'):\n"
            f"            b = r.eraseRegion({s0!r}, {s0!r} + {d!r}, 'truncate', True)\n"
            "            print('   inverse', b.entries, b.maxTimestamp)\n"
            "    except Exception as e:\n"
            "        print(mode, 'raised', repr(e))\n")


def parts(tier):
    quick = tier == "quick"
    ps = []
    npts, maxn = (7, 3) if quick else (8, 4)
    grid = D.unit_grid(npts)
    lo, hi = grid[0], grid[-1]
    S = D.half_grid(lo, hi)
    durs = (0.5, 1.0, 2.0)
    sets = D.interval_sets(grid, maxn)

    def gen_dy():
        for s in sets:
            variants = [D.labelled(s, "abc")] + ([D.labelled(s, "a")] if len(s) > 1 else [])
            # (intervals whose label is the empty string - what openTextgrid(includeEmptyIntervals=True) puts into a tier - are intervals like any other)
            variants += [D.labelled(s, ("", "b")), D.labelled(s, ("a", ""))][:len(s)]
            for e in variants:
                for s0 in S:
                    for d in durs:
                        yield (e, lo, hi, s0, d)

    ps.append(InputPart(
        "insertSpace-intervals-dyadic", gen_dy, lambda c: _check_iv(c, True),
        rule="all sets of <=%d intervals on the %d-point unit grid (distinct and equal labels) x every s on the half "
             "grid in the span x d in %s; each case runs the 4 modes and the erase inverse for stretch/split; "
             "non-trivial = distinct order type of boundaries vs s x d" % (maxn, npts, durs),
        bounds={"grid_points": npts, "max_intervals": maxn, "oracle": "bit-exact"}, snippet=_snippet))

    dgrid = D.DEC
    dS = tuple(sorted(set(D.DEC + D.DEC_EDGES)))
    dsets = D.interval_sets(dgrid, 3 if quick else 4)

    def gen_dec():
        for s in dsets:
            variants = [D.labelled(s, "abc")] + ([D.labelled(s, "a")] if len(s) > 1 and not quick else [])
            for e in variants:
                for s0 in dS:
                    for d in D.DEC_DUR:
                        yield (e, dgrid[0], dgrid[-1], s0, d)

    ps.append(InputPart(
        "insertSpace-intervals-decimal", gen_dec, lambda c: _check_iv(c, False),
        rule="interval sets on the non-dyadic grid x s in %s x d in %s; adjacency preserved bit-for-bit, no rounding "
             "failure, inverse restores the label function within 1e-9" % (dS, D.DEC_DUR),
        bounds={"max_intervals": 3 if quick else 4, "oracle": "structural+1e-9"}, snippet=_snippet))

    ugrid = tuple(sorted(D.ULP))

    def gen_ulp():
        for s_ in D.interval_sets(ugrid, 2 if quick else 3):
            for e in ([D.labelled(s_, "abc")] + ([D.labelled(s_, "a")] if len(s_) > 1 else [])):
                for s0 in ugrid:
                    for d in (0.1, 0.5):
                        yield (e, ugrid[0], ugrid[-1], s0, d)
        for lo, hi, g in D.ulp_spans()[1:]:      # spans whose end / start has its ulp neighbour inside
            for s_ in D.interval_sets(g, 2):
                for s0 in g:
                    for d in (0.1, 0.5):
                        yield (D.labelled(s_, "abc"), lo, hi, s0, d)

    ps.append(InputPart("insertSpace-intervals-ulp", gen_ulp, lambda c: _check_iv(c, "loose"),
                        rule="interval sets and insertion points on the ulp-neighbour grid %s: an entry ending one ulp after s straddles it, one "
                             "ending at s does not" % (ugrid,), bounds={"oracle": "structural+1e-9"}, snippet=_snippet))

    bgrid = D.BIG

    def gen_big():
        for s_ in D.interval_sets(bgrid, 2 if quick else 3):
            for e in ([D.labelled(s_, "abc")] + ([D.labelled(s_, "a")] if len(s_) > 1 else [])):
                for s0 in bgrid:
                    for d in (2.0 ** -7, 0.5, 2.0):
                        yield (e, bgrid[0], bgrid[-1], s0, d)

    ps.append(InputPart("insertSpace-intervals-far-from-zero", gen_big, lambda c: _check_iv(c, True),
                        rule="interval sets and insertion points on the dyadic grid 2**40 + {0, 2**-7, 0.25, 0.5, 1, 2, 3, 4} x d in {2**-7, 0.5, 2}: "
                             "bit-exact (a relative tolerance is a real duration at this magnitude)", bounds={"oracle": "bit-exact"}, snippet=_snippet))

    # spans on the negative side of the time axis, reaching exactly 0 before or after the call (a falsy 0.0 is a legitimate timestamp)
    ngrid = (-4.0, -3.0, -2.0, -1.0, 0.0)

    def gen_neg():
        for hi_ in (-1.0, 0.0):
            g = tuple(x for x in ngrid if x <= hi_)
            for s_ in D.interval_sets(g, 2):
                e = D.labelled(s_, "abc")
                for s0 in g + (-2.5, -0.5):
                    if s0 > hi_:
                        continue
                    for d in (0.5, 1.0, 2.0):
                        yield (e, -4.0, hi_, s0, d)

    ps.append(InputPart("insertSpace-intervals-negative-times", gen_neg, lambda c: _check_iv(c, True),
                        rule="interval sets on spans [-4,-1] and [-4,0] x every s x d in {0.5, 1, 2} (the lengthened span may end exactly at 0; the inverse "
                             "may have to restore a span end of exactly 0), bit-exact", bounds={"oracle": "bit-exact"}, snippet=_snippet))

    def gen_size():
        for n, layout, e in D.size_family(quick):
            hi = e[-1][1] + 1.0
            for s0 in D.size_cuts(e):
                if 0.0 <= s0 <= hi:
                    for d in (0.5, 2.0):
                        yield (e, 0.0, hi, s0, d)

    ps.append(InputPart("insertSpace-size-sweep", gen_size, lambda c: _check_iv(c, True),
                        rule="interval tiers of %s entries (gapped and contiguous) x insertion points just before / at / inside / at the end of the entries at "
                             "both ends, at n/4, n/2, 3n/4 and at indices 8-10, 15-16, 255-257 x d in {0.5, 2} x 4 modes (+ the erase inverse): bit-exact"
                             % (list(D.SIZES_QUICK if quick else D.SIZES_THOROUGH),), bounds={}, chunk=2))

    def gen_pt():
        for s in D.point_sets(D.unit_grid(5), 3 if quick else 4):
            p = D.labelled_points(s)
            for s0 in D.half_grid(0, 4):
                for d in durs:
                    yield (p, 0.0, 4.0, s0, d)
        # labels that sort after every basic-plane character (a CJK extension-B ideograph, an emoji) and before every other one (the empty
        # string is excluded by strip(); a blank-leading label is not a label): an entry is (time, label) - where it goes is decided by its time
        for s in D.point_sets(D.unit_grid(5), 2):
            for labs in (("\U00020bb7", "\U0001f600x"), ("\uffff", "\U0010ffff"), ("\x00", "!")):
                p = tuple((t, labs[i % 2]) for i, t in enumerate(s))
                for s0 in D.half_grid(0, 4):
                    yield (p, 0.0, 4.0, s0, 0.5)
        for s in D.point_sets((-4.0, -3.0, -2.0, -1.0), 2):
            p = D.labelled_points(s)
            for s0 in (-4.0, -2.5, -2.0, -1.0):
                for d in (0.5, 1.0):
                    yield (p, -4.0, -1.0, s0, d)
        for s in D.point_sets(bgrid, 2):
            p = D.labelled_points(s, "x")
            for s0 in bgrid:
                for d in (2.0 ** -7, 1.0):
                    yield (p, bgrid[0], bgrid[-1], s0, d)
        for s in D.point_sets(D.DEC, 2 if quick else 3):
            p = D.labelled_points(s)
            for s0 in dS:
                for d in D.DEC_DUR:
                    yield (p, 0.1, 2.3, s0, d)
        for s in D.point_sets(ugrid, 3):
            p = D.labelled_points(s, "x")
            for s0 in ugrid:
                yield (p, ugrid[0], ugrid[-1], s0, 0.5)

    ps.append(InputPart("insertSpace-points", gen_pt, lambda c: _check_pt(c, c[1] in (0.0, -4.0, D.BIG0)),
                        rule="all point subsets x s x d (points at t <= s stay, later points move by d); also on a negative span and on the far-from-zero grid",
                        bounds={"max_points": 3 if quick else 4}))

    tsets = D.interval_sets(D.unit_grid(5), 2)
    tpts = D.point_sets(D.unit_grid(5), 2)

    def gen_tg():
        stride = 3 if quick else 1
        for s1 in tsets:
            for s2 in tsets[::stride]:
                for p in tpts[::stride]:
                    tiers = (("I", "a", D.labelled(s1)), ("P", "p", D.labelled_points(p)), ("I", "b", D.labelled(s2, "x")))
                    for s0 in D.half_grid(0, 4):
                        for d in (0.5, 2.0):
                            yield (tiers, 0.0, 4.0, s0, d)
        # textgrids with no tier at all / a single tier
        for tiers in ((), (("P", "p", D.labelled_points((1.0, 3.0))),), (("I", "a", D.labelled(((0.0, 1.0), (2.0, 4.0)))),),
                      (("P", "p", ()),), (("I", "a", ()),)):
            for s0 in D.half_grid(0, 4):
                for d in (0.5, 2.0):
                    yield (tiers, 0.0, 4.0, s0, d)
        # tiers whose own spans are narrower than the textgrid's, in both tier orders (s may lie beyond a short tier's end)
        short_sets = D.interval_sets((0.0, 1.0, 2.0), 2)
        for s1 in short_sets:
            for s2 in tsets[::stride]:
                for p in ((1.0,), (0.0, 3.0)):
                    ta = ("I", "short", D.labelled(s1), (0.0, 2.0))
                    tb = ("I", "long", D.labelled(s2, "x"))
                    tp = ("P", "p", D.labelled_points(p), (0.0, 3.0))
                    for order in ((ta, tb, tp), (tb, tp, ta), (tp, ta, tb)):
                        for s0 in D.half_grid(0, 4):
                            yield (order, 0.0, 4.0, s0, 1.0)
        # a tier that BEGINS later than the others (its own span starts at 2: a part of the recording annotated on a tier of its own), stored first,
        # in the middle, last: the insertion point is the same for every tier, whatever the tiers before it look like
        late_sets = D.interval_sets((2.0, 3.0, 4.0), 2)
        for s1 in late_sets:
            for s2 in tsets[::stride * 2]:
                tl = ("I", "late", D.labelled(s1), (2.0, 4.0))
                tf = ("I", "full", D.labelled(s2, "x"))
                tp = ("P", "p", D.labelled_points((0.5, 1.5, 3.0)))
                for order in ((tl, tf, tp), (tf, tl, tp), (tp, tf, tl)):
                    for s0 in (0.0, 0.5, 1.0, 1.5, 2.0, 2.5):
                        yield (order, 0.0, 4.0, s0, 1.0)
        dsets2 = D.interval_sets(D.DEC[:5], 2)
        for s1 in dsets2[::2]:
            for s2 in dsets2[::5]:
                tiers = (("I", "a", D.labelled(s1)), ("P", "p", D.labelled_points((0.2, 0.7))), ("I", "b", D.labelled(s2, "x")))
                for s0 in dS:
                    if 0.1 <= s0 <= 1.1:
                        for d in (0.3, 1.7):
                            yield (tiers, 0.1, 1.1, s0, d)

    def gen_tg_ulp():
        # the textgrid-level entry point on the ulp-neighbour grid: whatever Textgrid.insertSpace does to its arguments before handing them to the
        # tiers, an insertion point one ulp inside the end (or start) is inside
        # spans: the whole grid, and spans whose end / start has its ulp neighbour INSIDE the span (0.7999999999999999 < 0.8, 0.3 < 0.30000000000000004)
        for lo, hi in ((ugrid[0], ugrid[-1]), (ugrid[0], ugrid[4]), (ugrid[1], ugrid[-1]), (ugrid[1], ugrid[4])):
            g = tuple(x for x in ugrid if lo <= x <= hi)
            for s_ in D.interval_sets(g, 2):
                for pts in ((), (g[0], g[-1]), (g[1], g[-2])):
                    tiers = (("I", "a", D.labelled(s_, "abc")), ("P", "p", D.labelled_points(pts)))
                    for s0 in g:
                        for d in (0.1, 0.5):
                            yield (tiers, lo, hi, s0, d)

    ps.append(InputPart("insertSpace-textgrid-ulp", gen_tg_ulp, lambda c: _check_tg(c, "loose"),
                        rule="2-tier textgrids (interval sets of up to 2 intervals; points at / one ulp inside the ends) and insertion points on the ulp-neighbour grid "
                             "%s x d x 4 modes through Textgrid.insertSpace: tier-wise model comparison" % (ugrid,), bounds={"oracle": "structural+1e-9"}))
    ps.append(InputPart("insertSpace-textgrid", gen_tg, lambda c: _check_tg(c, c[1] == 0.0),
                        rule="3-tier textgrids x s x d x 4 modes: tier-wise model comparison, span + d, validate() True",
                        bounds={"tiers": 3}))
    from mc.props import live as _live_hist
    ps.append(_live_hist.history_part())
    return ps
