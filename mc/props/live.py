"""History-independence ("live object") differential.

The BFS harnesses rebuild a fresh object from the canonical state for every transition, which is sound only if an
object's behaviour depends on nothing but its observable fields.  This module checks exactly that assumption, by
exhaustive enumeration of short operation sequences applied to ONE live object: after the sequence the live object
and a fresh object rebuilt from the live object's observable fields must be indistinguishable under a battery of
observations (as receiver AND as argument of other operations).  It catches hidden state - memoised values that are not
invalidated, readers whose position leaks between calls, scratch buffers hoisted to module scope.
"""
from mc.engine import Viol
from mc.props.common import IT, PT, call, canon, mk, constants, ents

Interval = constants.Interval
Point = constants.Point


# a fourth operand whose entries lie late in the span (so that a second look at a tier starts further right than the first)
LATE = {"I": ("I", "late", 0.0, 4.0, ((2.5, 3.5, "w"),)), "P": ("P", "late", 0.0, 4.0, ((3.0, "w"),))}
SEEDS3 = [("I", "t", 0.0, 4.0, ((0.0, 1.0, "a"), (2.0, 3.0, "b"), (3.0, 4.0, "c"))),
          ("I", "t", 0.0, 4.0, ((0.0, 1.0, "a"), (1.0, 2.0, "b"), (3.0, 4.0, "c"))),
          ("P", "t", 0.0, 4.0, ((0.0, "x"), (2.0, "y"), (3.0, "z")))]


# ------------------------------------------------------------------ tiers
def tier_primers(t, others):
    """operations that do not change the observable state but may prime hidden state; each is (name, thunk)"""
    isI = t.tierType == constants.INTERVAL_TIER
    data = [(0.0, 1), (0.5, 2), (1.0, 3), (2.0, 4)]
    P = [
        ("timestamps", lambda: t.timestamps),
        ("entries", lambda: t.entries),
        ("find", lambda: t.find("a")),
        ("validate", lambda: t.validate("silence")),
        ("len-iter", lambda: (len(t), list(t))),
        ("eq", lambda: t == others[0]),
        ("new", lambda: t.new()),
        ("crop", lambda: t.crop(0.5, 2.0, "truncated", False)),
        ("crop-late", lambda: t.crop(2.5, 3.5, "lax", False)),
        ("intersection-late", lambda: t.intersection(others[3]) if isI else None),
        ("as-dejitter-reference", lambda: others[0].dejitter(t, 0.3)),
        ("dejitter", lambda: t.dejitter(others[0], 0.3)),
        ("as-union-argument", lambda: others[0].union(t)),
        ("union", lambda: t.union(others[0])),
        ("shift", lambda: t.editTimestamps(0.5, "silence")),
        ("erase", lambda: t.eraseRegion(0.5, 1.0, "truncate", True)),
        ("erase-late", lambda: t.eraseRegion(2.25, 2.75, "truncate", False)),
        ("space", lambda: t.insertSpace(1.0, 0.5, "split")),
        ("space-late", lambda: t.insertSpace(2.5, 1.0, "stretch")),
        ("append", lambda: t.appendTier(others[0])),
        ("values", lambda: t.getValuesInIntervals(data) if isI else t.getValuesAtPoints(data, True)),
    ]
    if isI:
        P += [("nonentries", lambda: t.getNonEntries()), ("difference", lambda: t.difference(others[0])),
              ("as-intersection-argument", lambda: others[0].intersection(t))]
    return P


def tier_mutations(t, vals):
    """in-place mutations of the live tier: (name, thunk)"""
    isI = t.tierType == constants.INTERVAL_TIER
    M = []
    for i in range(len(t.entries)):
        M.append((("delete", i), lambda i=i: t.deleteEntry(t.entries[i])))
    if isI:
        for a in vals:
            for b in vals:
                if a < b:
                    for mode in ("replace", "merge", "error"):
                        M.append((("insert", a, b, mode), lambda a=a, b=b, mode=mode: t.insertEntry(Interval(a, b, "n"), mode, "silence")))
    else:
        for a in vals:
            for mode in ("replace", "merge", "error"):
                M.append((("insert", a, mode), lambda a=a, mode=mode: t.insertEntry(Point(a, "n"), mode, "silence")))
    # (appended last so that the indices of the mutations above stay what they were) deleteEntry handed an entry that EQUALS a stored one without
    # being bit-identical (one time a unit in the last place off - the library's entry equality is tolerant): the stored entry goes, like above
    import math
    for i, e in enumerate(t.entries):
        if isI and e.end != 0:
            n = Interval(e.start, math.nextafter(e.end, math.inf), e.label)
        elif not isI and e.time != 0:
            n = Point(math.nextafter(e.time, math.inf), e.label)
        else:
            continue
        if n == e and tuple(n) != tuple(e):
            M.append((("delete-nearly-equal", i), lambda n=n: t.deleteEntry(n)))
    return M


def observe_tier(t, others, reverse=False):
    """a battery of observations of a tier, as receiver and as argument"""
    isI = t.tierType == constants.INTERVAL_TIER
    thunks = []

    def ob(name, f):
        thunks.append((name, f))
    ob("timestamps", lambda: t.timestamps)
    ob("find", lambda: t.find("a"))
    ob("validate", lambda: t.validate("silence"))
    ob("len", lambda: len(t))
    ob("crop", lambda: t.crop(0.5, 2.0, "truncated", True))
    ob("crop-late", lambda: t.crop(2.5, 3.5, "lax", False))
    ob("crop-wide", lambda: t.crop(1.5, 4.0, "truncated", False))
    ob("erase-late", lambda: t.eraseRegion(2.5, 3.5, "truncate", False))
    ob("as-dejitter-reference", lambda: others[0].dejitter(t, 0.3))
    ob("as-dejitter-reference2", lambda: others[1].dejitter(t, 0.6))
    ob("dejitter", lambda: t.dejitter(others[1], 0.3))
    ob("as-union-argument", lambda: others[1].union(t))
    ob("union", lambda: t.union(others[0]))
    ob("append", lambda: t.appendTier(others[0]))
    ob("as-append-argument", lambda: others[0].appendTier(t))
    ob("shift", lambda: t.editTimestamps(0.25, "silence"))
    ob("space", lambda: t.insertSpace(1.0, 0.5, "split"))
    ob("space-late", lambda: t.insertSpace(2.5, 1.0, "stretch"))
    ob("space-error", lambda: t.insertSpace(3.25, 0.5, "error"))
    ob("erase", lambda: t.eraseRegion(0.5, 1.5, "truncate", True))
    ob("new", lambda: t.new())
    if isI:
        ob("nonentries", lambda: t.getNonEntries() if len(t.entries) else None)
        ob("difference", lambda: t.difference(others[0]))
        ob("as-difference-argument", lambda: others[0].difference(t))
        ob("intersection", lambda: t.intersection(others[1]))
        ob("intersection-late", lambda: t.intersection(others[3]))
        ob("as-mergeLabels-argument", lambda: others[3].mergeLabels(t))
        ob("mergeLabels", lambda: t.mergeLabels(others[0]))
        ob("morph", lambda: t.morph(others[0]))
    # an observation may itself refresh hidden state, so the battery is run in both orders (on separate live objects)
    out = {"canon": canon(t)}
    for name, f in (reversed(thunks) if reverse else thunks):
        st, r, _ = call(f)
        if st == "exc":
            out[name] = "raised:" + type(r).__name__
        elif hasattr(r, "entries"):
            out[name] = canon(r)
        else:
            out[name] = repr(r)
    return out


def check_tier_history(case, others_states, vals):
    """case = (state, primer-index or -1, mutation-index or -1, primer2-index or -1):
    prime, mutate, prime again on ONE live tier; then the live tier must observe like a fresh copy of itself."""
    state, p1, m, p2 = case
    viols = []
    n = 0
    nobs = 0
    for reverse in (False, True):
        t = mk(state)
        others = [mk(s) for s in others_states[state[0]]] + [mk(LATE[state[0]])]
        trace = []
        if p1 >= 0:
            name, f = tier_primers(t, others)[p1]
            call(f)
            trace.append(name)
            n += 1
        if m >= 0:
            muts = tier_mutations(t, vals)
            if m >= len(muts):
                return 0, "skip", None, []
            name, f = muts[m]
            call(f)
            trace.append(name)
            n += 1
        if p2 >= 0:
            name, f = tier_primers(t, others)[p2]
            call(f)
            trace.append(name)
            n += 1
        c = canon(t)
        try:
            fresh_t = mk(c)
        except Exception:  # the live tier is not even constructible from its own fields: reported by C05
            return n, "unconstructible", None, []
        live = observe_tier(t, others, reverse)
        fresh = observe_tier(fresh_t, [mk(s) for s in others_states[state[0]]] + [mk(LATE[state[0]])], reverse)
        nobs += len(live)
        for k1 in live:
            if live[k1] != fresh.get(k1):
                viols.append(Viol("history-dependent:" + k1,
                                  f"after {trace} on one live tier built from {state}, observation {k1!r} is {live[k1]} but a fresh tier with the "
                                  f"same name, span and entries {c} gives {fresh.get(k1)}: behaviour depends on hidden state"))
                break
        if viols:
            break
    return n + nobs, "ok", (state[0], p1, m >= 0, p2), viols


def tier_history_cases(seeds, others_states, vals, with_second_primer=False):
    for state in list(seeds) + SEEDS3:
        t = mk(state)
        others = [mk(s) for s in others_states[state[0]]] + [mk(LATE[state[0]])]
        nP = len(tier_primers(t, others))
        nM = len(tier_mutations(t, vals))
        for p1 in range(-1, nP):
            for m in range(-1, nM):
                if p1 < 0 and m < 0:
                    continue
                yield (state, p1, m, -1)
        if with_second_primer:
            for p1 in range(nP):
                for m in range(nM):
                    for p2 in range(nP):
                        if p2 != p1:
                            continue  # the same query before and after the mutation (stale memo pattern)
                        yield (state, p1, m, p2)


def history_part(rule_suffix=""):
    """the shared battery with the reduced seed set, as a ready-made part (the full seed set runs in C13)"""
    from mc.engine import InputPart
    from mc.props import tierops
    hseeds = [("I", "t", 0.0, 4.0, ((0.0, 1.0, "a"), (1.0, 3.0, "b"))), ("I", "t", 0.0, 4.0, ((1.0, 2.0, "a"),)),
              ("P", "t", 0.0, 4.0, ((1.0, "x"), (3.0, "y")))]
    hothers = {"I": tierops.OTHERS_I, "P": tierops.OTHERS_P}
    hvals = (0.0, 0.5, 1.0, 2.0, 3.0, 4.5)
    return InputPart(
        "history-independence", lambda: tier_history_cases(hseeds, hothers, hvals),
        lambda c: check_tier_history(c, hothers, hvals),
        rule="every (query/copy operation, in-place mutation) sequence on ONE live tier (3 seed tiers of <=2 entries and three 3-entry seeds): "
             "afterwards the live tier and a fresh tier with the same fields agree under ~30 observations as receiver and as argument, in both "
             "observation orders" + rule_suffix, bounds={}, chunk=16)
