"""The interpreter's run mode: `python -OO` (which includes -O).

With -O (or PYTHONOPTIMIZE) the interpreter deletes every `assert` statement - including whatever work was done inside its expression.  A
"sanity check" such as `assert pieces.pop(0).startswith("]")` is then a statement the library needs and production containers silently drop;
under the ordinary interpreter nothing at all differs, for any input, option, history or schedule.

With -OO the docstrings are gone as well (`__doc__` is None): code that builds on them at run time (`f.__doc__ += ...`, a usage text parsed from
a docstring) fails at import.

This part re-runs the property's OWN quick check in a child `python -OO` (same code, same oracles), on a coarser grid so that it costs seconds:
every input space = its first 400 cases plus every 23rd afterwards, BFS parts to depth 1, no threads / encodings / second child.  The child's
verdict is reported as one case of the parent; a violation quotes the child's first VIOLATION.  The child never claims exhaustiveness.

The same child also runs with `-W error` - the caller's warnings filter turns every warning into an exception, as `python -W error`,
PYTHONWARNINGS=error and pytest's `filterwarnings = error` do: a DeprecationWarning the library trips over in its own code, or a FutureWarning from a
re-spelled regular expression, is invisible under the default filter and makes a valid call raise under this one.

And with `logging.disable(logging.CRITICAL)` in force (a host application that has silenced logging; the process-with-a-past child runs with the root
logger at DEBUG): reports that travel through `logging` vanish, debug-only code paths run.

And it runs with another string-hash seed (PYTHONHASHSEED=1; the parent runs with 0, the process-with-a-past child with 2): a result that
follows the iteration order of a set of strings differs between interpreter runs; three fixed seeds make three different orders.
"""
import os
import subprocess
import sys

from mc.engine import InputPart, Viol, SRC
from mc.props.common import scratch_dir

ROOT = os.path.dirname(os.path.dirname(os.path.dirname(os.path.abspath(__file__))))


def _check(prop):
    d = os.path.join(scratch_dir(), "optimised-" + prop)
    os.makedirs(d, exist_ok=True)
    env = dict(os.environ, PRAATIO_SRC=SRC, VERIF_EVIDENCE_DIR=d, VERIF_REPLAY_DIR=d, VERIF_CHILD="1", VERIF_LOGGING="disabled", VERIF_INPUT_STRIDE="23", VERIF_INPUT_DENSE="400",
               VERIF_BFS_DEPTH_CAP="1", PYTHONDONTWRITEBYTECODE="1", PYTHONHASHSEED="1")
    env.pop("PYTHONOPTIMIZE", None)
    env.pop("PYTHONWARNINGS", None)
    p = subprocess.run([sys.executable, "-OO", "-W", "error", "-B", "-m", "mc.run", prop, "quick"], cwd=ROOT, env=env, stdout=subprocess.PIPE, stderr=subprocess.PIPE,
                       text=True, timeout=1500)
    lines = p.stdout.splitlines()
    summary = [ln for ln in lines if ln.startswith("[" + prop + "]")]
    if p.returncode == 0:
        n = 0
        for ln in summary:
            if "evaluations=" in ln:
                n = int(ln.split("evaluations=")[1].split()[0])
        return max(n, 1), "ok", (prop, "python -O"), []
    k = next((i for i, ln in enumerate(lines) if ln.startswith("VIOLATION")), None)
    detail = " | ".join(x.strip() for x in lines[k + 1:k + 3]) if k is not None else (p.stderr or p.stdout)[-600:]
    return 1, "!", None, [Viol("fails-under-python-O", f"the same quick check of {prop}, run by `python -OO -W error` (assert statements and docstrings deleted; warnings are errors) on a coarser grid, "
                                                       f"reports: {detail[:700]}")]


def part(prop):
    if os.environ.get("VERIF_CHILD"):
        return None
    return InputPart("interpreter-mode-python-O", lambda: [prop], _check,
                     rule="the property's own quick check re-run in a child `python -OO -W error` (assert statements, the work inside them and all docstrings deleted; every warning raised as an exception) on a coarser "
                          "grid: per input space the first 400 cases and every 23rd after them, BFS to depth 1, no thread / encoding children; the child "
                          "must exit 0", bounds={"stride": 23, "dense": 400, "bfs_depth": 1}, chunk=1)
