"""C06 - crop keeps exactly the annotation inside the window, per mode.

Enumerated: every set of <= n non-overlapping intervals on a grid x every window (a, b) on
the grid and half-grid from one step below to one step above the span (including a == b and
a > b) x 3 modes x rebaseToZero, on a dyadic grid (bit-exact oracle) and on non-dyadic
decimals (structural + 1e-9 oracle); point tiers; Textgrid.crop compared tier-wise.
"""
from fractions import Fraction as F

from mc import domains as D
from mc.engine import InputPart, Viol
from mc.models import ival
from mc.props.common import IT, PT, Textgrid, errors, call, ents, order_type, cmp3, wellformed, fresh, canon

MODES = fresh(("strict", "lax", "truncated"))


def _check_iv(case, exact):
    entries, lo, hi, a, b = case
    tier = IT("t", list(entries), lo, hi)
    E = ival.fentries(entries)
    viols = []
    summary = []
    n = 0
    for mode in MODES:
        for rb in (False, True):
            n += 1
            st, r, out = call(tier.crop, a, b, mode, rb)
            tag = f"mode={mode} rebase={rb}"
            if a >= b:
                if st != "exc" or not isinstance(r, errors.ArgumentError):
                    viols.append(Viol("degenerate-window-not-rejected",
                                      f"crop({a},{b},{tag}) -> {st} {r!r}; ArgumentError required"))
                summary.append("AE")
                continue
            if st == "exc":
                viols.append(Viol("crop-raised:" + type(r).__name__, f"crop({a},{b},{tag}) on {entries} raised {r!r}"))
                summary.append("X")
                continue
            exp, elo, ehi = ival.crop_intervals(E, F(a), F(b), mode, rb)
            msg = ival.compare_entries(ents(r), exp, exact, f"crop({a},{b},{tag})")
            if msg is None:
                msg = ival.compare_num(r.minTimestamp, elo, exact, f"crop({a},{b},{tag}) minTimestamp") or \
                    ival.compare_num(r.maxTimestamp, ehi, exact, f"crop({a},{b},{tag}) maxTimestamp")
            if msg is None and not rb:
                # without rebasing timestamps are untouched (bit-identical), also on decimals
                if mode != "truncated" and any(tuple(g) not in entries for g in ents(r)):
                    msg = f"crop({a},{b},{tag}) changed a timestamp without rebasing: {ents(r)}"
            if msg is None:
                w = wellformed(r)
                if w:
                    msg = f"crop({a},{b},{tag}) returned an ill-formed tier ({w}): {ents(r)} span {r.minTimestamp},{r.maxTimestamp}"
            if msg is None and r.name != "t":
                msg = "crop changed the tier name"
            if msg is None:
                # the caller edits the result; the same crop again gives a new object with the same (correct) content
                first = ents(r)
                if first:
                    call(r.deleteEntry, r.entries[0])
                else:
                    call(r.insertEntry, (r.minTimestamp, r.maxTimestamp, "edited"), "merge", "silence")
                n += 1
                st2, r2, _ = call(tier.crop, a, b, mode, rb)
                if st2 != "ok" or r2 is r or ents(r2) != first:
                    msg = (f"crop({a},{b},{tag}) called again after its first result had been edited returns "
                           f"{'the same object' if r2 is r else (ents(r2) if st2 == 'ok' else repr(r2))}, first call gave {first}")
            if msg:
                viols.append(Viol("crop-result", msg + f"  [tier {entries} span {lo},{hi}]"))
            summary.append(str(len(exp)))
    nontriv = (order_type(entries, (a, b)), cmp3(a, b))
    return n, "/".join(summary), nontriv, viols


def _check_pt(case, exact):
    pts, lo, hi, a, b = case
    tier = PT("p", list(pts), lo, hi)
    P = ival.fentries(pts)
    viols = []
    summary = []
    n = 0
    for mode in MODES:
        for rb in (False, True):
            n += 1
            st, r, out = call(tier.crop, a, b, mode, rb)
            tag = f"mode={mode} rebase={rb}"
            if a >= b:
                if st != "exc" or not isinstance(r, errors.ArgumentError):
                    viols.append(Viol("degenerate-window-not-rejected", f"PointTier.crop({a},{b},{tag}) -> {st} {r!r}"))
                summary.append("AE")
                continue
            if st == "exc":
                viols.append(Viol("crop-raised:" + type(r).__name__, f"PointTier.crop({a},{b},{tag}) on {pts} raised {r!r}"))
                summary.append("X")
                continue
            exp, elo, ehi = ival.crop_points(P, F(a), F(b), rb)
            msg = ival.compare_entries(ents(r), exp, exact, f"PointTier.crop({a},{b},{tag})")
            if msg is None:
                msg = ival.compare_num(r.minTimestamp, elo, exact, "minTimestamp") or \
                    ival.compare_num(r.maxTimestamp, ehi, exact, "maxTimestamp")
            if msg is None:
                w = wellformed(r)
                if w:
                    msg = f"ill-formed result ({w})"
            if msg:
                viols.append(Viol("crop-result", msg + f"  [points {pts} span {lo},{hi} window {a},{b} {tag}]"))
            summary.append(str(len(exp)))
    return n, "/".join(summary), (order_type(pts, (a, b)), cmp3(a, b)), viols


def _check_tg(case):
    tiers, lo, hi, a, b = case
    tg = Textgrid(lo, hi)
    for kind, name, entries in tiers:
        tg.addTier((IT if kind == "I" else PT)(name, list(entries), lo, hi))
    viols = []
    summary = []
    n = 0
    for mode in MODES:
        for rb in (False, True):
            n += 1
            st, r, out = call(tg.crop, a, b, mode, rb)
            tag = f"Textgrid.crop({a},{b},{mode},{rb})"
            if a >= b:
                if st != "exc" or not isinstance(r, errors.ArgumentError):
                    viols.append(Viol("degenerate-window-not-rejected", f"{tag} -> {st} {r!r}"))
                summary.append("AE")
                continue
            if st == "exc":
                viols.append(Viol("crop-raised:" + type(r).__name__, f"{tag} on {tiers} raised {r!r}"))
                summary.append("X")
                continue
            msg = None
            if tuple(r.tierNames) != tuple(nm for _, nm, _ in tiers):
                msg = f"{tag}: tier names/order {r.tierNames}"
            glo, ghi = (F(0), F(b) - F(a)) if rb else (F(a), F(b))
            cnt = 0
            for (kind, name, entries), rt in zip(tiers, r.tiers):
                if msg:
                    break
                E = ival.fentries(entries)
                if kind == "I":
                    exp, elo, ehi = ival.crop_intervals(E, F(a), F(b), mode, rb)
                else:
                    exp, elo, ehi = ival.crop_points(E, F(a), F(b), rb)
                cnt += len(exp)
                glo, ghi = min(glo, elo), max(ghi, ehi)
                msg = ival.compare_entries(ents(rt), exp, True, f"{tag} tier {name}") or \
                    ival.compare_num(rt.minTimestamp, elo, True, f"{tag} tier {name} min") or \
                    ival.compare_num(rt.maxTimestamp, ehi, True, f"{tag} tier {name} max")
            if msg is None:
                msg = ival.compare_num(r.minTimestamp, glo, True, f"{tag} textgrid min") or \
                    ival.compare_num(r.maxTimestamp, ghi, True, f"{tag} textgrid max")
            if msg is None and mode != "lax":
                with_out = call(r.validate, "silence")
                if with_out[0] != "ok" or with_out[1] is not True:
                    msg = f"{tag}: validate() is not True on the result"
            if msg:
                viols.append(Viol("tg-crop-result", msg + f"  [tiers {tiers}]"))
            summary.append(str(cnt))
    return n, "/".join(summary), (tuple(order_type(e, (a, b)) for _, _, e in tiers), cmp3(a, b)), viols


def _check_open_window(case):
    """an open-ended window - crop(t, inf) "from t to the end, wherever that is", crop(-inf, t) - is a window with a < b like any other: it
    selects what the window reaching one second beyond the span selects"""
    kind, entries, a, b = case
    t = (IT if kind == "I" else PT)("t", list(entries), 0.0, 4.0)
    inf = float("inf")
    a2, b2 = (-1.0 if a == -inf else a), (5.0 if b == inf else b)
    viols = []
    n = 0
    for mode in MODES:
        n += 1
        st, r, _ = call(t.crop, a, b, mode, False)
        st2, r2, _ = call(t.crop, a2, b2, mode, False)
        if st == "exc" or st2 == "exc" or ents(r) != ents(r2):
            viols.append(Viol("open-ended-window", f"{'Interval' if kind == 'I' else 'Point'}Tier.crop({a}, {b}, {mode!r}, False) on {entries} gives "
                                                   f"{r if st == 'exc' else ents(r)!r}; crop({a2}, {b2}, ...) gives {r2 if st2 == 'exc' else ents(r2)!r}"))
            break
    return n, "ok" if not viols else "!", (kind, len(entries), a, b), viols


def _check_tg_grown(case):
    """a tier that was GROWN IN PLACE (insertEntry beyond its old end / before its old start) after it had been added to the textgrid: the tier
    widened its own span, the textgrid's own span fields still say what they said.  Textgrid.crop crops the tiers - what the tiers hold
    decides, not what the container remembers about them"""
    si, where, a, b = case
    from mc.props import compose
    tg = compose._tg_seed(si)      # textgrid 0 .. 4
    late = {"after": ((5.0, 6.0), 5.5), "before": ((-2.0, -1.0), -1.5)}[where]
    for t in tg.tiers:
        t.insertEntry((late[0][0], late[0][1], "late") if isinstance(t, IT) else (late[1], "late"), "error", "silence")
    viols = []
    n = 0
    for mode in MODES:
        for rb in (False, True):
            n += 1
            st, r, _ = call(tg.crop, a, b, mode, rb)
            want = [call(t.crop, a, b, mode, rb) for t in tg.tiers]
            tag = f"Textgrid.crop({a},{b},{mode},{rb}) on seed textgrid {si} whose tiers were each extended in place by an entry {where} the old span"
            if st == "exc":
                if all(w[0] == "ok" for w in want):
                    viols.append(Viol("crop-raised:" + type(r).__name__, f"{tag}: {r!r}"))
                continue
            got = [canon(t)[2:] for t in r.tiers]
            exp = [canon(w[1])[2:] if w[0] == "ok" else None for w in want]
            if got != exp:
                viols.append(Viol("tg-crop-differs-from-its-tiers", f"{tag}: tiers of the result {got}, the tiers cropped one by one {exp}"))
                break
        if viols:
            break
    return n, "ok" if not viols else "!", (si, where, a, b), viols


def _snippet_iv(case):
    entries, lo, hi, a, b = case
    return ("from praatio import textgrid\n"
            f"t = textgrid.IntervalTier('t', {list(entries)!r}, {lo!r}, {hi!r})\n"
            "for mode in ('strict', 'lax', 'truncated'):\n"
            "    for rebase in (False, True):\n"
            f"        r = t.crop({a!r}, {b!r}, mode, rebase)\n"
            "        print(mode, rebase, r.entries, r.minTimestamp, r.maxTimestamp)\n")


def parts(tier):
    quick = tier == "quick"
    ps = []

    # dyadic grid, exact
    npts, maxn = (7, 3) if quick else (9, 4)
    grid = D.unit_grid(npts)
    lo, hi = grid[0], grid[-1]
    win = D.half_grid(lo - 1, hi + 1)
    sets = D.interval_sets(grid, maxn)

    def gen_dy():
        for s in sets:
            # (second: intervals labelled with the empty string, as openTextgrid(includeEmptyIntervals=True) delivers them, next to labelled ones)
            for e in (D.labelled(s),) + ((D.labelled(s, ("", "b", "")),) if 1 <= len(s) <= 2 else ()):
                for a in win:
                    for b in win:
                        yield (e, lo, hi, a, b)

    ps.append(InputPart(
        "crop-intervals-dyadic", gen_dy, lambda c: _check_iv(c, True),
        rule="all sets of <=%d non-overlapping intervals on the %d-point unit grid x all windows (a,b) on "
             "the half grid [-1,%g] incl. a>=b; each case runs 3 modes x rebase; non-trivial = distinct "
             "order type of every boundary against (a,b)" % (maxn, npts, hi + 1),
        bounds={"grid_points": npts, "max_intervals": maxn, "window_values": len(win), "oracle": "bit-exact"},
        snippet=_snippet_iv))

    # decimal grid, structural + 1e-9
    dgrid = D.DEC
    dwin = tuple(sorted(set(D.DEC + D.DEC_EDGES + (0.05, 2.5))))
    dsets = D.interval_sets(dgrid, 3 if quick else 4)

    def gen_dec():
        for s in dsets:
            e = D.labelled(s)
            for a in dwin:
                for b in dwin:
                    yield (e, dgrid[0], dgrid[-1], a, b)

    ps.append(InputPart(
        "crop-intervals-decimal", gen_dec, lambda c: _check_iv(c, False),
        rule="interval sets on the non-dyadic grid %s x windows from %s; exact-rational model compared "
             "structurally and within 1e-9" % (dgrid, dwin),
        bounds={"max_intervals": 3 if quick else 4, "oracle": "structural+1e-9"}, snippet=_snippet_iv))

    # point tiers
    pgrid = D.unit_grid(5)
    pwin = D.half_grid(-1, 5)
    psets = D.point_sets(pgrid, 3 if quick else 4)

    def gen_pt():
        for s in psets:
            p = D.labelled_points(s)
            for a in pwin:
                for b in pwin:
                    yield (p, 0.0, 4.0, a, b)
        for s in D.point_sets(D.DEC, 2 if quick else 3):
            p = D.labelled_points(s)
            for a in dwin:
                for b in dwin:
                    yield (p, 0.1, 2.3, a, b)
        # labels that sort after / before everything a program is likely to use as a sentinel (a character beyond the basic plane, U+FFFF with and
        # without more text, NUL): a label is carried, never compared
        for labs in (("\U0001f600 go", "\uffffz", "\uffff"), ("\x00", "\uffff", "\U0010ffff")):
            for s in psets:
                if 1 <= len(s) <= 2:
                    p = D.labelled_points(s, labs)
                    for a in pwin:
                        for b in pwin:
                            yield (p, 0.0, 4.0, a, b)

    def chk_pt(c):
        return _check_pt(c, c[1] == 0.0)

    ps.append(InputPart(
        "crop-points", gen_pt, chk_pt,
        rule="all point subsets of the unit grid (exact) and of the decimal grid (1e-9) x all windows; the subsets of <= 2 points also with labels that sort last / first (astral character, U+FFFF, NUL)",
        bounds={"max_points": 3 if quick else 4}))

    # ulp-neighbour grid: boundaries and window edges one ulp apart (a tolerant comparison is wrong here)
    ugrid = tuple(sorted(D.ULP))
    usets = D.interval_sets(ugrid, 2 if quick else 3)

    def gen_ulp():
        for s in usets:
            e = D.labelled(s)
            for a in ugrid:
                for b in ugrid:
                    yield (e, ugrid[0], ugrid[-1], a, b)
        for lo, hi, g in D.ulp_spans()[1:]:      # spans whose end / start has its ulp neighbour inside
            for s in D.interval_sets(g, 2):
                for a in g:
                    for b in g:
                        yield (D.labelled(s), lo, hi, a, b)

    ps.append(InputPart(
        "crop-intervals-ulp", gen_ulp, lambda c: _check_iv(c, False),
        rule="interval sets and windows on the ulp-neighbour grid %s (0.1+0.2 vs 0.3, 0.1+0.7 vs 0.8): near-coincidences that "
             "are not coincidences; exact-rational model, counts and labels strict" % (ugrid,), bounds={"oracle": "structural+1e-9"},
        snippet=_snippet_iv))

    def gen_pt_ulp():
        for s in D.point_sets(ugrid, 3):
            for labs in ("xyz", "xxx"):
                p = D.labelled_points(s, labs)
                for a in ugrid:
                    for b in ugrid:
                        yield (p, ugrid[0], ugrid[-1], a, b)
        for lo, hi, g in D.ulp_spans()[1:]:
            for s in D.point_sets(g, 3):
                for a in g:
                    for b in g:
                        yield (D.labelled_points(s, "xyz"), lo, hi, a, b)

    ps.append(InputPart("crop-points-ulp", gen_pt_ulp, lambda c: _check_pt(c, False),
                        rule="point subsets and windows on the ulp-neighbour grid (a point one ulp outside the window is outside)",
                        bounds={}))

    # far-from-zero grid (times ~1.1e12 s): a relative tolerance is a real duration there
    bgrid = D.BIG
    bsets = D.interval_sets(bgrid, 2)

    def gen_big():
        for s in bsets:
            for labs in ("abc", "aaa"):
                e = D.labelled(s, labs)
                for a in bgrid:
                    for b in bgrid:
                        yield (e, bgrid[0], bgrid[-1], a, b)

    ps.append(InputPart(
        "crop-intervals-far-from-zero", gen_big, lambda c: _check_iv(c, True),
        rule="interval sets (<=2, distinct and equal labels) and windows on the dyadic grid 2**40 + {0, 2**-7, 0.25, 0.5, 1, 2, 3, 4}: exact "
             "model, bit for bit (7.8 ms and 0.25 s are real durations although they are below 1e-14 resp. 1e-9 of the time values)",
        bounds={"oracle": "bit-exact"}, snippet=_snippet_iv))

    def gen_pt_big():
        for s in D.point_sets(bgrid, 2 if quick else 3):
            for labs in ("xyz", "xxx"):
                p = D.labelled_points(s, labs)
                for a in bgrid:
                    for b in bgrid:
                        yield (p, bgrid[0], bgrid[-1], a, b)

    ps.append(InputPart("crop-points-far-from-zero", gen_pt_big, lambda c: _check_pt(c, True),
                        rule="point subsets (<=%d) and windows on the far-from-zero grid, bit-exact" % (2 if quick else 3), bounds={}))

    # the size axis: long tiers (10 .. 258 entries; thorough up to 1000), windows at / in / between the probed entries
    def gen_size():
        for n, layout, e in D.size_family(quick):
            hi = e[-1][1] + 1.0
            for a, b in D.size_windows(D.size_cuts(e)):
                yield (e, -1.0, hi, a, b)
        for n in (D.SIZES_QUICK if quick else D.SIZES_THOROUGH):
            p = D.long_points(n)
            cuts = D.size_cuts(p)
            for a, b in D.size_windows(cuts, near=4, far=2):
                yield ("P", p, -1.0, n + 1.0, a, b)

    def chk_size(c):
        if c[0] == "P":
            return _check_pt(c[1:], True)
        return _check_iv(c, True)

    ps.append(InputPart(
        "crop-size-sweep", gen_size, chk_size,
        rule="interval tiers of %s entries (with 0.5 s gaps, and contiguous) and point tiers of the same sizes x windows whose edges lie just before / "
             "at / inside / at the end of the entries at both ends, at the bisection probes (n/4, n/2, 3n/4), at indices 8-10, 15-16 and 255-257 "
             "(each edge paired with the next 8 cut times and with the last 4): exact model, bit for bit"
             % (list(D.SIZES_QUICK if quick else D.SIZES_THOROUGH),), bounds={"sizes": list(D.SIZES_QUICK if quick else D.SIZES_THOROUGH)}, chunk=4))

    # Textgrid.crop: 3 tiers
    tgrid = D.unit_grid(5)
    tsets = D.interval_sets(tgrid, 2)
    tpts = D.point_sets(tgrid, 2 if quick else 3)
    twin = D.half_grid(-1, 5) if not quick else tuple(float(x) for x in range(-1, 6)) + (0.5, 2.5)

    def gen_tg():
        stride = 3 if quick else 1
        k = 0
        for s1 in tsets:
            for s2 in tsets[::stride]:
                for p in tpts[::stride]:
                    k += 1
                    tiers = (("I", "a", D.labelled(s1)), ("P", "p", D.labelled_points(p)), ("I", "b", D.labelled(s2, "xyz")))
                    for a in twin:
                        for b in twin:
                            if a > b and (a, b) != (twin[1], twin[0]):
                                continue  # one representative of a > b per textgrid
                            yield (tiers, 0.0, 4.0, a, b)
        # textgrids with no tier at all / a single tier: the textgrid-level window check and span stand on their own there
        for tiers in ((), (("P", "p", D.labelled_points((1.0, 3.0))),), (("I", "a", D.labelled(((0.0, 1.0), (2.0, 4.0)))),),
                      (("P", "p", ()),), (("I", "a", ()),)):
            for a in twin:
                for b in twin:
                    yield (tiers, 0.0, 4.0, a, b)

    ps.append(InputPart(
        "crop-textgrid", gen_tg, _check_tg,
        rule="3-tier textgrids (interval, point, interval) from interval sets of <=2 on a 5-grid x windows (plus textgrids with no tier "
             "and with one tier x all windows incl. a >= b); "
             "tier-wise comparison with the model, textgrid span, validate() for strict/truncated",
        bounds={"tiers": 3, "stride_over_second_and_third_tier": 3 if quick else 1}))

    def gen_open():
        inf = float("inf")
        for s in D.interval_sets((0.0, 1.0, 2.0, 3.0, 4.0), 2):
            for a, b in ((0.0, inf), (1.5, inf), (2.0, inf), (4.0, inf), (-inf, 2.0), (-inf, 0.5), (-inf, 4.0), (-inf, inf)):
                yield ("I", D.labelled(s), a, b)
        for s in D.point_sets((0.0, 1.0, 2.0, 4.0), 2):
            for a, b in ((0.0, inf), (1.0, inf), (-inf, 2.0), (-inf, inf)):
                yield ("P", D.labelled_points(s), a, b)

    ps.append(InputPart("crop-open-ended-windows", gen_open, _check_open_window,
                        rule="interval sets (<=2) and point subsets on the unit grid x windows with one or both bounds infinite (crop(t, inf), crop(-inf, t)) x 3 modes: "
                             "the same entries as the window that reaches one second beyond the span", bounds={}))
    ps.append(InputPart(
        "crop-textgrid-with-tiers-grown-in-place",
        lambda: ((si, where, a, b) for si in range(3) for where in ("after", "before")
                 for a, b in ((4.5, 6.5), (5.0, 6.0), (3.0, 5.5), (4.0, 7.0), (5.25, 5.75), (-3.0, -0.5), (-2.0, -1.0), (-1.5, 1.0), (-1.75, -1.25), (1.0, 3.0))),
        _check_tg_grown,
        rule="3 seed textgrids whose tiers were each extended IN PLACE (insertEntry) by an entry beyond the old end / before the old start after they had "
             "been added x 10 windows (around the new entries, across the old boundary, inside the old span) x 3 modes x rebase: the tiers of "
             "Textgrid.crop equal the tiers cropped one by one", bounds={}, chunk=4))

    # history independence of the operations of this property (shared battery, see mc/props/live.py)
    from mc.props import live as _live, tierops as _tierops
    # (the full seed set runs in C13; here: the 3-entry seeds of live.py plus these)
    _hseeds = [("I", "t", 0.0, 4.0, ((0.0, 1.0, "a"), (1.0, 3.0, "b"))), ("I", "t", 0.0, 4.0, ((1.0, 2.0, "a"),)),
               ("P", "t", 0.0, 4.0, ((1.0, "x"), (3.0, "y")))]
    _hothers = {"I": _tierops.OTHERS_I, "P": _tierops.OTHERS_P}
    _hvals = (0.0, 0.5, 1.0, 2.0, 3.0, 4.5)
    ps.append(InputPart(
        "history-independence", lambda: _live.tier_history_cases(_hseeds, _hothers, _hvals),
        lambda c: _live.check_tier_history(c, _hothers, _hvals),
        rule="every (query/copy operation, in-place mutation) sequence on ONE live tier (all tiers of <=2 entries): afterwards the live "
             "tier and a fresh tier with the same fields agree under ~20 observations as receiver and as argument",
        bounds={}, chunk=16))
    return ps
