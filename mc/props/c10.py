"""C10 - tier set operations obey the algebra of labelled time.

Enumerated: ALL ordered pairs (A, B) of interval tiers on 6 unit cells (every entry uniquely labelled so
fused labels can be parsed; thorough adds the 2-label assignment so equal labels meet), through
union / difference / intersection / mergeLabels; all pairs of labelled point subsets for PointTier.union;
Textgrid.mergeTiers over all name subsets.
"""
import itertools
from fractions import Fraction as F

from mc import domains as D
from mc.engine import InputPart, Viol
from mc.models import ival
from mc.props.common import IT, PT, Textgrid, call, ents, wellformed, canon, fresh

NC = 6


def _uniq(t, prefix):
    return tuple((s, e, f"{prefix}{i}") for i, (s, e, _) in enumerate(t))


def _check_pair(case):
    ea, eb, spanb = case
    return _check_pair_on(ea, eb, 0.0, float(NC), spanb)


def _check_pair_on(ea, eb, LO, HI, spanb):
    if LO is None:   # both tiers built with the span arguments omitted: the span is the hull of the entries ("tight")
        A = IT("A", list(ea))
        B = IT("B", list(eb))
        LO, HI = A.minTimestamp, A.maxTimestamp
    else:
        A = IT("A", list(ea), LO, HI)
        B = IT("B", list(eb), LO, spanb)
    FA, FB = ival.fentries(ea), ival.fentries(eb)
    before = (canon(A), canon(B))
    viols = []
    tag = f"A={ea} B={eb}"

    # difference
    st, d, _ = call(A.difference, B)
    if st == "exc":
        viols.append(Viol("difference-raised:" + type(d).__name__, f"{tag}: {d!r}"))
        dgot = None
    else:
        dgot = ents(d)
        msg = ival.compare_entries(dgot, ival.difference(FA, FB), True, "difference")
        if msg is None and (d.minTimestamp, d.maxTimestamp) != (LO, HI):
            msg = f"difference span ({d.minTimestamp},{d.maxTimestamp})"
        if msg is None and wellformed(d):
            msg = "difference ill-formed: " + wellformed(d)
        if msg:
            viols.append(Viol("difference-result", msg + "  [" + tag + "]"))

    # intersection
    st, i, _ = call(A.intersection, B)
    if st == "exc":
        viols.append(Viol("intersection-raised:" + type(i).__name__, f"{tag}: {i!r}"))
        igot = None
    else:
        igot = ents(i)
        msg = ival.compare_entries(igot, ival.intersection(FA, FB), True, "intersection")
        if msg is None and wellformed(i):
            msg = "intersection ill-formed: " + wellformed(i)
        if msg:
            viols.append(Viol("intersection-result", msg + "  [" + tag + "]"))

    if st != "exc":
        # an explicitly given demarcator (positional and keyword; the empty string and the default value given explicitly included)
        for dem, kw in (("@", False), ("", False), ("-", True), ("+", True), (" - ", True)):
            st2, i2, _ = call(A.intersection, B, demarcator=fresh(dem)) if kw else call(A.intersection, B, fresh(dem))
            if st2 == "exc":
                viols.append(Viol("intersection-raised:" + type(i2).__name__, f"{tag} demarcator={dem!r}: {i2!r}"))
                break
            msg = ival.compare_entries(ents(i2), ival.intersection(FA, FB, dem), True, f"intersection(demarcator={dem!r})")
            if msg:
                viols.append(Viol("intersection-demarcator", msg + "  [" + tag + "]"))
                break

    # difference and intersection partition A's labelled time
    if dgot is not None and igot is not None:
        pieces = sorted(dgot + [(s, e, l) for s, e, l in igot])
        if any(x[1] > y[0] for x, y in zip(pieces, pieces[1:])):
            viols.append(Viol("partition-overlap", f"difference and intersection overlap: {pieces}  [{tag}]"))
        elif ival.labelled_measure(ival.fentries(pieces)) != ival.labelled_measure(FA):
            viols.append(Viol("partition-measure", f"difference + intersection do not cover A's labelled time  [{tag}]"))
        else:
            for s, e, _ in pieces:
                if not any(a[0] <= s and e <= a[1] for a in ea):
                    viols.append(Viol("partition-outside-A", f"piece ({s},{e}) not inside A  [{tag}]"))
                    break

    # union
    st, u, _ = call(A.union, B)
    if st == "exc":
        viols.append(Viol("union-raised:" + type(u).__name__, f"{tag}: {u!r}"))
    else:
        ugot = ents(u)
        comps = ival.union_components(FA, FB)
        exp = sorted((min(p[0] for p in c), max(p[1] for p in c), c) for c in comps)
        msg = None
        if [(F(g[0]), F(g[1])) for g in ugot] != [(x[0], x[1]) for x in exp]:
            msg = f"union extents {[(g[0], g[1]) for g in ugot]} != components {[(float(x[0]), float(x[1])) for x in exp]}"
        else:
            for g, (_, _, c) in zip(ugot, exp):
                labs = g[2].split("-")
                bylab = {}      # label -> the starts of the entries carrying it (a label may occur in both operands), earliest first
                for p in sorted(c):
                    bylab.setdefault(p[2], []).append(p[0])
                if sorted(labs) != sorted(p[2] for p in c):
                    msg = f"union label {g[2]!r} is not exactly the fused labels {sorted(p[2] for p in c)}"
                    break
                starts = [bylab[l].pop(0) for l in labs]
                if starts != sorted(starts):
                    msg = f"union label {g[2]!r} is not in time order"
                    break
        if msg is None:
            ehi = max([F(HI)] + [x[1] for x in exp])
            elo = min([F(LO)] + [x[0] for x in exp])
            if F(u.minTimestamp) != elo or F(u.maxTimestamp) != ehi:
                msg = f"union span ({u.minTimestamp},{u.maxTimestamp}), expected ({float(elo)},{float(ehi)})"
        if msg is None and wellformed(u):
            msg = "union ill-formed: " + wellformed(u)
        if msg:
            viols.append(Viol("union-result", msg + f"  got {ugot}  [{tag}]"))

    # mergeLabels
    st, m, _ = call(A.mergeLabels, B)
    if st == "exc":
        viols.append(Viol("mergeLabels-raised:" + type(m).__name__, f"{tag}: {m!r}"))
    else:
        msg = ival.compare_entries(ents(m), ival.merge_labels(FA, FB), True, "mergeLabels")
        if msg is None and wellformed(m):
            msg = "mergeLabels ill-formed: " + wellformed(m)
        if msg:
            viols.append(Viol("mergeLabels-result", msg + "  [" + tag + "]"))
        # an explicitly given demarcator (positional and keyword; the empty string and the default value given explicitly included)
        for dem, kw in (("@", False), ("", False), ("", True), (",", True), (" - ", True)):
            st, m2, _ = call(A.mergeLabels, B, demarcator=fresh(dem)) if kw else call(A.mergeLabels, B, fresh(dem))
            if st == "exc":
                viols.append(Viol("mergeLabels-raised:" + type(m2).__name__, f"{tag} demarcator={dem!r}: {m2!r}"))
                break
            msg = ival.compare_entries(ents(m2), ival.merge_labels(FA, FB, dem), True, f"mergeLabels(demarcator={dem!r})")
            if msg:
                viols.append(Viol("mergeLabels-demarcator", msg + "  [" + tag + "]"))
                break

    if (canon(A), canon(B)) != before:
        viols.append(Viol("operand-mutated", tag))
    else:
        # the caller edits each RESULT in place (an entry removed, one added): the operands must not notice
        for opname, res in (("difference", d), ("intersection", i), ("union", u), ("mergeLabels", m)):
            if not hasattr(res, "entries") or res is A or res is B:
                if res is A or res is B:
                    viols.append(Viol("result-is-an-operand", f"{opname} returned one of its operands itself  [{tag}]"))
                continue
            if len(res.entries):
                call(res.deleteEntry, res.entries[0])
            call(res.insertEntry, (HI + 1.0, HI + 2.0, "edited"), "merge", "silence")
            if (canon(A), canon(B)) != before:
                viols.append(Viol("result-aliases-operand", f"editing the result of {opname} in place changed an operand: A={canon(A)[4]} B={canon(B)[4]}  [{tag}]"))
                break
    nov = sum(1 for a in FA for b in FB if ival.overlaps(a, b))
    ntouch = sum(1 for a in FA for b in FB if a[1] == b[0] or b[1] == a[0])
    return 9, f"ov{nov}", (tuple((s, e) for s, e, _ in ea), tuple((s, e) for s, e, _ in eb), spanb) if nov or ntouch else None, viols


def _check_same_object(case):
    """the SAME tier object passed as receiver and as argument (A.union(A) ...): the result is what the operation gives for A and an equal,
    separately built tier - the operations are defined by the operands' values, not by whether they are one object"""
    kind, entries = case
    cls = IT if kind == "I" else PT
    viols = []
    ops = ("union", "intersection", "difference", "mergeLabels") if kind == "I" else ("union",)
    for op in ops:
        A, B = cls("A", list(entries), 0.0, 6.0), cls("A", list(entries), 0.0, 6.0)
        want = call(getattr(A, op), B)
        A2 = cls("A", list(entries), 0.0, 6.0)
        before = canon(A2)
        got = call(getattr(A2, op), A2)

        def norm(x):
            return ("raised", type(x[1]).__name__) if x[0] == "exc" else canon(x[1])
        if norm(got) != norm(want):
            viols.append(Viol("same-object-operand", f"{kind} tier {entries}: A.{op}(A) gives {norm(got)}, A.{op}(<equal copy of A>) gives {norm(want)}"))
        elif canon(A2) != before:
            viols.append(Viol("operand-mutated", f"{kind} tier {entries}: A.{op}(A) changed A"))
    return len(ops) * 2, "ok", (kind, len(entries)), viols


def _check_points(case):
    pa, pb = case[:2]
    lo, hi = case[2] if len(case) > 2 else (0.0, 4.0)
    A, B = PT("A", list(pa), lo, hi), PT("B", list(pb), lo, hi)
    st, u, _ = call(A.union, B)
    tag = f"A={pa} B={pb}"
    if st == "exc":
        return 1, "X", None, [Viol("point-union-raised:" + type(u).__name__, f"{tag}: {u!r}")]
    da, db = dict(pa), dict(pb)
    exp = []
    for t in sorted(set(da) | set(db)):
        if t in da and t in db:
            exp.append((t, da[t] + "-" + db[t]))
        else:
            exp.append((t, da.get(t, db.get(t))))
    msg = None
    if ents(u) != exp:
        msg = f"point union {ents(u)}, expected {exp}"
    elif (u.minTimestamp, u.maxTimestamp) != (lo, hi):
        msg = f"span ({u.minTimestamp},{u.maxTimestamp})"
    elif wellformed(u):
        msg = "ill-formed: " + wellformed(u)
    elif ents(A) != list(pa) or ents(B) != list(pb):
        msg = "operand mutated"
    return 1, "n%d" % len(exp), (pa, pb) if set(da) & set(db) else None, [Viol("point-union-result", msg + "  [" + tag + "]")] if msg else []


TG_TIERS = (
    ("I", "a", ((0.0, 2.0, "a0"), (3.0, 4.0, "a1"))),
    ("P", "p", ((1.0, "p0"), (2.0, "p1"))),
    ("I", "b", ((1.0, 3.0, "b0"),)),
    ("P", "q", ((2.0, "q0"), (4.0, "q1"))),
    ("I", "c", ((4.0, 5.0, "c0"),)),
    # tiers that all overlap one another (indices 5-11): here the ORDER in which the selected tiers are folded shows in every fused label
    ("I", "words", ((0.0, 4.0, "w0"),)),
    ("I", "phones", ((1.0, 2.0, "f0"), (2.0, 3.0, "f1"))),
    ("I", "syllables", ((1.5, 3.5, "s0"),)),
    ("I", "notes", ((0.5, 2.5, "n0"),)),
    ("P", "clicks", ((2.0, "k0"),)),
    ("P", "beats", ((2.0, "b0"), (3.0, "b1"))),
    ("P", "marks", ((2.0, "m0"),)),
)


def _check_filled_in_place(case):
    """operand B was FILLED IN PLACE (insertEntry on an empty tier, entry by entry - how tiers are built from a forced alignment or a CSV) with times
    of an exact type (Fraction, Decimal-free: int and Fraction) that insertEntry stores as given: every set operation gives what it gives for the
    same tier built by the constructor (which converts to float), up to the float value of each time"""
    kind, ai, bi, typ, which = case
    A_E = FILLED_A[ai]
    B_E = FILLED_B[bi]
    conv = {"fraction": lambda x: F(str(x)), "int-or-fraction": lambda x: int(x) if float(x).is_integer() else F(str(x)), "float": float}[typ]

    def build(entries, inplace):
        if not inplace:
            return (IT if kind == "I" else PT)("b", list(entries), 0.0, 6.0)
        t = (IT if kind == "I" else PT)("b", [], 0.0, 6.0)
        for e in entries:
            t.insertEntry(tuple(conv(x) for x in e[:-1]) + (e[-1],), "error", "silence")
        return t

    def run(receiver_in_place, arg_in_place):
        a = build(A_E, receiver_in_place)
        b = build(B_E, arg_in_place)
        a = a.new("a") if not receiver_in_place else a
        ops = {"union": lambda: a.union(b), "difference": lambda: a.difference(b), "intersection": lambda: a.intersection(b), "mergeLabels": lambda: a.mergeLabels(b)}
        if kind == "P":
            ops = {"union": ops["union"]}
        out = {}
        for nm, f in ops.items():
            st, r, _ = call(f)
            out[nm] = ("raised", type(r).__name__) if st == "exc" else [tuple(float(x) for x in e[:-1]) + (e[-1],) for e in r.entries]
        return out
    want = run(False, False)
    got = run(which in ("receiver", "both"), which in ("argument", "both"))
    for nm in want:
        if got[nm] != want[nm]:
            return len(want), "!", None, [Viol("operand-filled-in-place", f"{nm} with the {which} filled in place by insertEntry with {typ} times, A={A_E} B={B_E}: "
                                                                          f"{got[nm]!r}; with tiers built by the constructor: {want[nm]!r}")]
    return len(want), "ok", (kind, typ, which), []


FILLED_A = (((1.0, 4.0, "a"),), ((0.5, 2.0, "a"), (2.0, 4.5, "b")), ((0.2, 0.7, "a"), (3.4, 5.0, "b")))   # no start shared with B: a tie would be broken by the exact values
FILLED_B = (((0.1, 3.0, "x"), (3.5, 5.0, "y")), ((0.1, 1.5, "x"), (1.7, 3.3, "y"), (3.9, 5.9, "z")), ((2.0, 3.0, "x"),))


def _check_merge_tiers(case):
    order, names, preserve = case[:3]
    form = case[3] if len(case) > 3 else "list"  # the FORM of the selection: list, tuple, one-shot iterator, generator
    tiers = [TG_TIERS[i] for i in order]
    tg = Textgrid(0.0, 5.0)
    objs = {}
    for kind, name, entries in tiers:
        objs[name] = (IT if kind == "I" else PT)(name, list(entries), 0.0, 5.0)
        tg.addTier(objs[name])
    sel = None if names is None else list(names)
    arg = sel if sel is None or form == "list" else (tuple(sel) if form == "tuple" else (iter(list(sel)) if form == "iter" else (n_ for n_ in list(sel))))
    st, r, _ = call(tg.mergeTiers, arg, preserve)
    tag = f"mergeTiers({sel},{preserve}) on tiers {[t[1] for t in tiers]}"
    if st == "exc":
        return 1, "X", None, [Viol("mergeTiers-raised:" + type(r).__name__, f"{tag}: {r!r}")]
    chosen = [t[1] for t in tiers] if names is None else list(names)
    inames = [n for n in chosen if objs[n].tierType == "IntervalTier"]
    pnames = [n for n in chosen if objs[n].tierType != "IntervalTier"]
    expn = [t[1] for t in tiers if t[1] not in chosen] if preserve else []
    exp = {n: canon(objs[n]) for n in expn}
    for group in (inames, pnames):
        if group:
            acc = objs[group[0]]
            for n in group[1:]:
                acc = acc.union(objs[n])
            expn.append(acc.name)
            exp[acc.name] = canon(acc)
    msg = None
    if list(r.tierNames) != expn:
        msg = f"tier names {r.tierNames}, expected {expn}"
    else:
        for n in expn:
            if canon(r.getTier(n)) != exp[n]:
                msg = f"tier {n}: {canon(r.getTier(n))} != left fold of union {exp[n]}"
                break
    if msg is None and (r.minTimestamp, r.maxTimestamp) != (0.0, 5.0):
        msg = f"span ({r.minTimestamp},{r.maxTimestamp})"
    return 1, "%d" % len(expn), (order, names, preserve), [Viol("mergeTiers-result", msg + "  [" + tag + "]")] if msg else []


def parts(tier):
    quick = tier == "quick"
    ps = []
    base = D.cell_tiers(NC, ["a"])

    def gen_pairs():
        for ta in base:
            ea = _uniq(ta, "a")
            for tb in base:
                yield (ea, _uniq(tb, "x"), float(NC))
        # label order must not matter: every 5th pair again with the alphabets swapped (B's labels sort before A's)
        for i, ta in enumerate(base):
            for j, tb in enumerate(base):
                if (i * 31 + j) % 5 == 0:
                    yield (_uniq(ta, "x"), _uniq(tb, "a"), float(NC))
        if not quick:
            # equal labels meeting each other, and B's span wider than A's
            two = D.cell_tiers(5, ["a", "b"])
            for ta in two:
                for tb in two[::3]:
                    yield (ta, tb, 8.0)

    ps.append(InputPart(
        "setops-interval-pairs", gen_pairs, _check_pair,
        rule="all ordered pairs (A,B) of the %d interval tiers on %d unit cells (touching, nested, identical, empty "
             "included), every entry uniquely labelled; each case runs union, difference, intersection, mergeLabels (default demarcator and 5 explicitly given ones, incl. the empty string) "
             "and the partition consequence; non-trivial = distinct geometry pairs with at least one overlap or touch"
             % (len(base), NC),
        bounds={"cells": NC, "tiers": len(base), "thorough_adds": "2-label tiers on 5 cells, B span 8"}))

    def gen_same():
        for ta in base:
            yield ("I", _uniq(ta, "a"))
        for pa in D.point_sets(D.unit_grid(4), 3):
            yield ("P", D.labelled_points(pa))

    ps.append(InputPart("setops-same-object-as-both-operands", gen_same, _check_same_object,
                        rule="every tier on %d unit cells / every point subset, passed as receiver AND argument of union, intersection, difference, "
                             "mergeLabels: same result as with an equal, separately built argument; the tier is unchanged" % NC, bounds={"cells": NC}))

    def gen_tight():
        for ta in base:
            for tb in base:
                if ta and tb:
                    yield (_uniq(ta, "a"), _uniq(tb, "x"), None)

    ps.append(InputPart(
        "setops-tight-spans", gen_tight, lambda case: _check_pair_on(case[0], case[1], None, None, None),
        rule="all ordered pairs of non-empty tiers on %d unit cells, both built with the span arguments OMITTED (span = hull of the entries, so "
             "an entry of B can stick out of A's span on one or both sides): the same oracles; the union's span is the hull of both, every "
             "result is well-formed (entries inside the span)" % NC, bounds={"cells": NC}))

    ugrid = tuple(sorted(D.ULP))
    usets = D.interval_sets(ugrid, 2)

    def gen_ulp():
        for sa in usets:
            for sb in usets:
                yield (_uniq(D.labelled(sa), "a"), _uniq(D.labelled(sb), "x"), 0.0)

    def chk_ulp(case):
        ea, eb, _ = case
        return _check_pair_on(ea, eb, ugrid[0], ugrid[-1], ugrid[-1])

    ps.append(InputPart("setops-interval-pairs-ulp", gen_ulp, chk_ulp,
                        rule="all ordered pairs of interval sets (<=2) on the ulp-neighbour grid %s: overlaps and touches that differ by one ulp" % (ugrid,),
                        bounds={}))

    bgrid = D.BIG[:6]
    bsets = D.interval_sets(bgrid, 2)

    def gen_big():
        for sa in bsets:
            for sb in bsets[:: 2 if quick else 1]:
                yield (_uniq(D.labelled(sa), "a"), _uniq(D.labelled(sb), "x"), 0.0)
        # the same with ONE label on every entry of A (a tier of "sil" stretches): at 2**40 s two different entries with the same label are "equal" for the
        # entries' own tolerant ==; they are still two entries
        for sa in bsets:
            if len(sa) == 2:
                for sb in bsets[::3]:
                    yield (tuple((a_, b_, "sil") for a_, b_ in sa), _uniq(D.labelled(sb), "x"), 0.0)

    ps.append(InputPart("setops-interval-pairs-far-from-zero", gen_big, lambda c: _check_pair_on(c[0], c[1], bgrid[0], bgrid[-1], bgrid[-1]),
                        rule="ordered pairs of interval sets (<=2) on the dyadic grid 2**40 + {0, 2**-7, 0.25, 0.5, 1, 2}: overlaps of 7.8 ms and "
                             "intervals 0.25 s apart are below 1e-14 resp. 1e-9 of the time values but are real", bounds={}))

    def gen_size():
        for n, layout, e in D.size_family(quick):
            hi_ = e[-1][1] + 1.0
            cuts = D.size_cuts(e)
            for a, b in D.size_windows(cuts, near=6 if n < 100 else 3, far=2):
                if a < 0:
                    continue
                yield (e, ((a, b, "x"),), hi_)
            # two entries in B, the second far down the list
            for a, b in D.size_windows(cuts, near=2, far=0)[::5]:
                if a < 0 or b >= cuts[-2]:
                    continue
                yield (e, ((a, b, "x"), (cuts[-2], cuts[-1], "y")), hi_)

    ps.append(InputPart("setops-size-sweep", gen_size, lambda c: _check_pair_on(c[0], c[1], 0.0, c[2], c[2]),
                        rule="A = interval tiers of %s entries (gapped and contiguous), B = one or two intervals whose edges lie just before / at / inside / "
                             "at the end of A's entries at both ends, at n/4, n/2, 3n/4 and at indices 8-10, 15-16, 255-257 (B spanning up to all of A): "
                             "all four operations and the partition consequence, also with the operands swapped for union / mergeLabels"
                             % (list(D.SIZES_QUICK if quick else D.SIZES_THOROUGH),), bounds={}, chunk=2))

    def gen_blank():
        small = D.cell_tiers(4, ["a"])
        for ta in small:
            for tb in small:
                if tb:
                    # every entry of B blank, and only the first one blank
                    yield (_uniq(ta, "a"), tuple((s_, e_, "") for s_, e_, _ in tb))
                    yield (_uniq(ta, "a"), tuple((s_, e_, "" if k == 0 else "x%d" % k) for k, (s_, e_, _) in enumerate(tb)))

    def chk_blank(case):
        ea, eb = case
        A = IT("A", list(ea), 0.0, 4.0)
        B = IT("B", list(eb), 0.0, 4.0)
        FA, FB = ival.fentries(ea), ival.fentries(eb)
        viols = []
        for name, f, exp in (("difference", A.difference, ival.difference(FA, FB)),
                             ("intersection", A.intersection, ival.intersection(FA, FB)),
                             ("mergeLabels", A.mergeLabels, ival.merge_labels(FA, FB))):
            st, r, _ = call(f, B)
            if st == "exc":
                viols.append(Viol(name + "-raised:" + type(r).__name__, f"A={ea} B={eb}: {r!r}"))
                continue
            msg = ival.compare_entries(ents(r), exp, True, name)
            if msg:
                viols.append(Viol(name + "-result", msg + f"  [A={ea} B={eb} (blank labels in B)]"))
        st, u, _ = call(A.union, B)
        if st == "exc":
            viols.append(Viol("union-raised:" + type(u).__name__, f"A={ea} B={eb}: {u!r}"))
        else:
            comps = ival.union_components(FA, FB)
            exp = sorted((min(p[0] for p in c), max(p[1] for p in c)) for c in comps)
            if [(F(g[0]), F(g[1])) for g in ents(u)] != exp:
                viols.append(Viol("union-result", f"union extents {[(g[0], g[1]) for g in ents(u)]} != {[(float(a), float(b)) for a, b in exp]}  [A={ea} B={eb}]"))
        return 4, "ok", (tuple((s_, e_) for s_, e_, _ in ea), eb), viols

    ps.append(InputPart("setops-blank-labels", gen_blank, chk_blank,
                        rule="all ordered pairs of tiers on 4 cells where B's entries (all, or only the first) carry the EMPTY label: "
                             "'overlaps something in B' is a matter of time, not of label text", bounds={"cells": 4}))

    # (the last four: zero-width characters - ZERO WIDTH SPACE / NON-JOINER / JOINER, WORD JOINER - at the edge of a label or as the whole label; they are
    # not white space: strip() keeps them, so does every copy the set operations make)
    META = ("50%", "%s", "%(x)s", "100%% sure", "{}", "{0}", "{x", "\\1", "$a", "a-b", "a,b", "(a)", "", "\u200bx", "x\u200d", "\u2060", "\u200cy\u200c")

    def gen_meta():
        geos = [(((0.0, 2.0),), ((1.0, 3.0),)), (((0.0, 1.0), (2.0, 3.0)), ((0.5, 2.5),)), (((0.0, 3.0),), ((0.5, 1.0), (2.0, 2.5))), (((1.0, 2.0),), ((1.0, 2.0),))]
        for ga, gb in geos:
            for la in META:
                for lb in META:
                    yield (tuple((s_, e_, la) for s_, e_ in ga), tuple((s_, e_, lb) for s_, e_ in gb), None)
            for dem in ("%", "%s", "{}", "\\", "(", ""):
                yield (tuple((s_, e_, "a") for s_, e_ in ga), tuple((s_, e_, "b%") for s_, e_ in gb), dem)

    def chk_meta(case):
        ea, eb, dem = case
        A = IT("A", list(ea), 0.0, 4.0)
        B = IT("B", list(eb), 0.0, 4.0)
        FA, FB = ival.fentries(ea), ival.fentries(eb)
        viols = []
        todo = [("difference", lambda: A.difference(B), ival.difference(FA, FB))]
        if dem is None:
            todo += [("intersection", lambda: A.intersection(B), ival.intersection(FA, FB)), ("mergeLabels", lambda: A.mergeLabels(B), ival.merge_labels(FA, FB))]
        else:
            todo += [("intersection", lambda: A.intersection(B, dem), ival.intersection(FA, FB, dem)),
                     ("mergeLabels", lambda: A.mergeLabels(B, dem), ival.merge_labels(FA, FB, dem))]
        for name, f, exp in todo:
            st, r, _ = call(f)
            if st == "exc":
                viols.append(Viol(name + "-raised:" + type(r).__name__, f"A={ea} B={eb} demarcator={dem!r}: {r!r}"))
                continue
            msg = ival.compare_entries(ents(r), exp, True, name)
            if msg:
                viols.append(Viol(name + "-result", msg + f"  [A={ea} B={eb} demarcator={dem!r}]"))
        st, u, _ = call(A.union, B)
        if st == "exc":
            viols.append(Viol("union-raised:" + type(u).__name__, f"A={ea} B={eb}: {u!r}"))
        else:
            for g in ents(u):
                inside = sorted([e for e in list(ea) + list(eb) if g[0] <= e[0] and e[1] <= g[1]], key=lambda e: (e[0], e[1]))
                if len(inside) > 1 and g[2] != "-".join(e[2] for e in inside) and sorted(g[2].split("-")) != sorted("-".join(e[2] for e in inside).split("-")):
                    viols.append(Viol("union-result", f"union label {g[2]!r} is not the labels of {inside} joined with '-'  [A={ea} B={eb}]"))
        return len(todo) + 1, "ok", (ea[0][2], eb[0][2], dem), viols

    ps.append(InputPart("setops-labels-with-format-metacharacters", gen_meta, chk_meta,
                        rule="4 geometries x all pairs of %d labels that contain the metacharacters of string formatting, templates and regular expressions "
                             "(%%, %%s, {}, \\1, $, and the demarcators themselves), and 6 such demarcators: labels are copied, never interpreted" % len(META),
                        bounds={"labels": len(META)}))

    def gen_points():
        grid = D.unit_grid(5)
        psets = D.point_sets(grid, 3 if quick else 5)
        for sa in psets:
            for sb in psets:
                yield (D.labelled_points(sa, "abcde"), D.labelled_points(sb, "vwxyz"))
                if set(sa) & set(sb):  # the incoming label may also sort BEFORE the existing one, or be equal to it
                    yield (D.labelled_points(sa, "vwxyz"), D.labelled_points(sb, "abcde"))
                    yield (D.labelled_points(sa, "m"), D.labelled_points(sb, "m"))
        # near-coincidences that are not coincidences: times one ulp apart (0.3 vs 0.1+0.2) and times 7.8 ms apart at 2**40
        for g in (tuple(sorted(D.ULP)), D.BIG[:5]):
            gsets = D.point_sets(g, 2)
            for sa in gsets:
                for sb in gsets:
                    yield (D.labelled_points(sa, "abcde"), D.labelled_points(sb, "vwxyz"), (g[0], g[-1]))
                    yield (D.labelled_points(sa, "m"), D.labelled_points(sb, "m"), (g[0], g[-1]))

    ps.append(InputPart("setops-point-pairs", gen_points, _check_points,
                        rule="all ordered pairs of labelled point subsets of a 5-grid; union = union of times, coinciding labels "
                             "joined old-new; non-trivial = pairs sharing at least one time",
                        bounds={"grid_points": 5, "max_points": 3 if quick else 5}))

    def gen_merge():
        orders = [(0, 1, 2, 3, 4), (2, 3, 0, 1, 4), (1, 0, 4, 2), (0, 2), (1, 3), (0,), (5, 6, 7, 8), (8, 7, 6, 5), (9, 10, 11), (11, 9, 10), (5, 9, 6, 10, 7, 11)]
        for order in orders:
            names = [TG_TIERS[i][1] for i in order]
            yield (order, None, True)
            # a selection that names a tier more than once (as long as / longer than the tier list without covering it)
            if len(names) >= 3:
                same_kind = [n for n in names if (n in ("p", "q", "clicks", "beats", "marks")) == (names[0] in ("p", "q", "clicks", "beats", "marks"))]
                if len(same_kind) >= 2:
                    rep = (same_kind[0], same_kind[1]) * len(names)
                    for preserve in (True, False):
                        yield (order, rep[:len(names)], preserve)
                        yield (order, rep[:len(names) + 1], preserve)
                        yield (order, (names[0], names[0]), preserve)
            for k in range(0, len(names) + 1):
                for sub in itertools.permutations(names, k) if k <= 2 or (k == 3 and order[0] >= 5 and len(order) <= 4) else itertools.combinations(names, k):
                    for preserve in (True, False):
                        yield (order, tuple(sub), preserve)
                    if k:
                        yield (order, tuple(sub), True, "tuple")
                        for form in ("tuple", "iter", "gen"):
                            yield (order, tuple(sub), False, form)

    ps.append(InputPart("setops-operands-filled-in-place",
                        lambda: (("I", ai, bi, typ, which) for ai in range(len(FILLED_A)) for bi in range(len(FILLED_B)) for typ in ("fraction", "int-or-fraction", "float")
                                 for which in ("argument", "receiver", "both")),
                        _check_filled_in_place,
                        rule="3 x 3 operand pairs (B's entries overlapping one, two and three entries of A in a row) with the argument, the receiver or both FILLED IN "
                             "PLACE by insertEntry with times given as Fraction / int / float (insertEntry stores them as given): union, difference, intersection, "
                             "mergeLabels give what they give for constructor-built tiers, time for time (as floats)", bounds={}))
    ps.append(InputPart("mergeTiers", gen_merge, _check_merge_tiers,
                        rule="textgrids of 1-6 tiers in several orders (one family of tiers with touching entries, one in which every tier overlaps every other, so that the fold order shows in the labels) x every subset (and ordered pair; ordered triples of the overlapping ones) of tier names (as list, tuple, one-shot iterator, "
                             "generator) x preserveOtherTiers: result = preserved tiers in order, then the left fold of union over the "
                             "selected interval tiers, then over the selected point tiers", bounds={}))

    # history independence of the operations of this property (shared battery, see mc/props/live.py)
    from mc.props import live as _live, tierops as _tierops
    # (the full seed set runs in C13; here: the 3-entry seeds of live.py plus these)
    _hseeds = [("I", "t", 0.0, 4.0, ((0.0, 1.0, "a"), (1.0, 3.0, "b"))), ("I", "t", 0.0, 4.0, ((1.0, 2.0, "a"),)),
               ("P", "t", 0.0, 4.0, ((1.0, "x"), (3.0, "y")))]
    _hothers = {"I": _tierops.OTHERS_I, "P": _tierops.OTHERS_P}
    _hvals = (0.0, 0.5, 1.0, 2.0, 3.0, 4.5)
    ps.append(InputPart(
        "history-independence", lambda: _live.tier_history_cases(_hseeds, _hothers, _hvals),
        lambda c: _live.check_tier_history(c, _hothers, _hvals),
        rule="every (query/copy operation, in-place mutation) sequence on ONE live tier (all tiers of <=2 entries): afterwards the live "
             "tier and a fresh tier with the same fields agree under ~20 observations as receiver and as argument",
        bounds={}, chunk=16))

    # operands whose entries were handed to the constructor as Interval OBJECTS (float times) with blanks around the label: the constructor strips
    # labels whatever form an entry arrives in, so the four operations give what they give for the same tiers built from plain tuples with clean labels
    def gen_forms():
        from praatio.utilities.constants import Interval as _Iv
        geos = [(((0.0, 2.0),), ((1.0, 3.0),)), (((0.0, 1.0), (2.0, 3.0)), ((0.5, 2.5),)), (((1.0, 2.0),), ((1.0, 2.0),)), (((0.0, 1.0), (1.0, 2.0)), ((0.0, 2.0),))]
        for gi in range(len(geos)):
            for pad in (" x ", "x\t", "\nx", "x"):
                for timekind in ("float", "int"):
                    for which in ("A", "B", "both"):
                        yield (gi, pad, timekind, which)

    def chk_forms(case):
        from praatio.utilities.constants import Interval as _Iv
        gi, pad, timekind, which = case
        geos = [(((0.0, 2.0),), ((1.0, 3.0),)), (((0.0, 1.0), (2.0, 3.0)), ((0.5, 2.5),)), (((1.0, 2.0),), ((1.0, 2.0),)), (((0.0, 1.0), (1.0, 2.0)), ((0.0, 2.0),))]
        ga, gb = geos[gi]
        conv = (lambda x: int(x) if float(x).is_integer() else float(x)) if timekind == "int" else float     # (whole-numbered times as ints)

        def build(name, g, lab, objects):
            if objects:
                return IT(name, [_Iv(conv(a), conv(b), lab) for a, b in g], 0.0, 4.0)
            return IT(name, [(a, b, lab.strip()) for a, b in g], 0.0, 4.0)
        viols = []
        for op in ("union", "intersection", "difference", "mergeLabels"):
            def run(objects):
                A = build("A", ga, pad, objects and which in ("A", "both"))
                B = build("B", gb, pad.replace("x", "y"), objects and which in ("B", "both"))
                st, r, _ = call(getattr(A, op), B)
                return (st, canon(r) if st == "ok" else type(r).__name__)
            got, exp = run(True), run(False)
            if got != exp:
                viols.append(Viol("operands-built-from-entry-objects", f"{op} with {which} built from Interval({timekind} times, label {pad!r}) objects on {ga} / {gb}: "
                                                                       f"{got}; built from tuples with the stripped label: {exp}"))
                break
        return 8, "ok", (gi, pad != "x", timekind), viols

    ps.append(InputPart("setops-operands-built-from-entry-objects", gen_forms, chk_forms,
                        rule="4 geometries x labels with blanks / a tab / a newline around them x Interval objects with float or int times as the entries of A, of B, of "
                             "both: the four operations give exactly what they give for tiers built from tuples with clean labels", bounds={}))

    return ps
