"""The process environment as a source of nondeterminism: the default text encoding.

Python fixes the locale-dependent default encoding at interpreter start, so these cases run the library in a CHILD process whose
environment makes that default ASCII (LC_ALL=C, PYTHONUTF8=0, PYTHONCOERCECLOCALE=0) or UTF-8, on textgrids / point objects whose
names and labels contain non-ASCII characters.  TextGrid files are UTF-8 (or UTF-16) whatever the environment says: the save must
succeed, the bytes must decode as UTF-8 to exactly the in-memory content (independent decoder), and the library must read them back.
"""
import json
import os
import subprocess
import sys

from mc.engine import SRC, Viol
from mc.models import praatfmt
from mc.props.common import scratch_dir

ENVS = {
    "ascii-default": {"LC_ALL": "C", "LANG": "C", "PYTHONUTF8": "0", "PYTHONCOERCECLOCALE": "0"},
    "utf8-default": {"PYTHONUTF8": "1"},
}
LABELS = ("café", "音", "naïve ü ✓", "plain")
FMTS = ("short_textgrid", "long_textgrid", "json", "textgrid_json")

CHILD = r'''
import json, sys, locale
sys.path.insert(0, sys.argv[1])
from praatio import textgrid
from praatio.data_classes.textgrid import Textgrid
spec = json.loads(sys.argv[2])
out = {"encoding": locale.getpreferredencoding(False)}
try:
    tg = Textgrid(0.0, 3.0)
    tg.addTier(textgrid.IntervalTier(spec["iname"], [(0.0, 1.0, spec["l1"]), (1.5, 2.0, "y")], 0.0, 3.0))
    tg.addTier(textgrid.PointTier(spec["pname"], [(1.0, spec["pm"])], 0.0, 3.0))
    tg.save(spec["fn"], spec["fmt"], spec["blanks"])
    out["saved"] = True
    tg2 = textgrid.openTextgrid(spec["fn"], False)
    out["reopened"] = [[t.name, [list(e) for e in t.entries]] for t in tg2.tiers]
except Exception as e:
    out["error"] = type(e).__name__ + ": " + str(e)[:200]
print(json.dumps(out))
'''


def check_env(case):
    envname, fmt, blanks, lab, where = case
    fn = os.path.join(scratch_dir(), "env-%s.TextGrid" % envname)
    if os.path.exists(fn):
        os.remove(fn)
    spec = dict(fn=fn, fmt=fmt, blanks=blanks, iname="t", pname="p", l1="x", pm="z")
    spec[{"ilabel": "l1", "plabel": "pm", "iname": "iname", "pname": "pname"}[where]] = lab
    env = {k: v for k, v in os.environ.items() if k not in ("LC_ALL", "LANG", "LC_CTYPE", "PYTHONUTF8", "PYTHONCOERCECLOCALE", "PYTHONIOENCODING")}
    env.update(ENVS[envname])
    p = subprocess.run([sys.executable, "-c", CHILD, SRC, json.dumps(spec)], env=env, capture_output=True, timeout=60)
    tag = f"default text encoding {envname}: save({fmt}, includeBlankSpaces={blanks}) with {where}={lab!r}"
    try:
        out = json.loads(p.stdout.decode("ascii", "replace").strip().splitlines()[-1])
    except Exception:
        return 1, "X", None, [Viol("child-failed", f"{tag}: child process printed {p.stdout[-200:]!r} / {p.stderr[-300:]!r}")]
    viols = []
    if envname == "ascii-default" and out.get("encoding", "").lower().replace("-", "") in ("utf8",):
        return 1, "env-unavailable", None, []  # this platform cannot produce a non-UTF-8 default: nothing to decide
    if "error" in out:
        viols.append(Viol("environment-dependent-failure", f"{tag} (the child's default encoding is {out.get('encoding')}): {out['error']}"))
        return 1, "!", None, viols
    with open(fn, "rb") as fd:
        raw = fd.read()
    try:
        text = raw.decode("utf-8")
        dec = praatfmt.decode(text, fmt)
    except (UnicodeDecodeError, praatfmt.FormatError) as e:
        viols.append(Viol("file-not-utf8-or-malformed", f"{tag}: {type(e).__name__}: {e}"))
        return 1, "!", None, viols
    names = [t["name"] for t in dec["tiers"]]
    labs = [e[-1] for t in dec["tiers"] for e in t["entries"] if e[-1] != ""]
    if names != [spec["iname"], spec["pname"]] or labs != [spec["l1"], "y", spec["pm"]]:
        viols.append(Viol("file-content", f"{tag}: the file decodes to tier names {names} and labels {labs}"))
    got = [(n, [e[-1] for e in es if e[-1] != ""]) for n, es in out.get("reopened", [])]
    if got != [(spec["iname"], [spec["l1"], "y"]), (spec["pname"], [spec["pm"]])]:
        viols.append(Viol("reopen-content", f"{tag}: reopened in the same environment as {got}"))
    return 1, "ok", (envname, fmt, where), viols


def env_cases(quick):
    for envname in ENVS:
        for fmt in FMTS:
            for blanks in (True, False):
                for lab in (LABELS if not quick else LABELS[:2] + LABELS[3:]):
                    for where in ("ilabel", "plabel", "iname", "pname"):
                        if quick and (blanks is False and where in ("iname", "pname")):
                            continue
                        yield (envname, fmt, blanks, lab, where)
