"""C15 - queries and derived views agree with their definitions.

Enumerated: find over label triples x queries x 3 match modes; getNonEntries / timestamps over all interval sets x spans;
getValuesInIntervals x sample series (sorted, reversed, ties, samples exactly on boundaries); getValuesAtPoints exact and
fuzzy over all series of <=3 samples with repetition x all point sets of <=2; intervalOverlapCheck over all 4-tuples on a
5-grid x boundaryInclusive x thresholds; invertIntervalList over all interval lists x bounds; equality under every
single-field perturbation; validate() under every single corruption.
"""
import itertools
import re

from mc import domains as D
from mc.engine import InputPart, Viol
from mc.props.common import canon, IT, PT, Textgrid, PE, errors, call, ents, reborn_at
from praatio.utilities import utils

G = D.unit_grid(5)
LABS = ("a", "ab", "b", "A", "", "a 1")
QUERIES = ("a", "b", "ab", "A", "", "a|b", "^a$", ".", "b+", "B",
           # pairs of regular expressions that differ only in letter case and mean different things
           r"\S", r"\s", r"\W", r"\w", r"^\D+$", r"^\d+$", r"\Bb", r"\bb",
           # queries with white space of their own: the QUERY is taken as it is (labels are stripped when they enter a tier, queries are not labels)
           " a", "a ", " 1", " ", "\ta")


# letters whose case mapping is irregular (final sigma, dotless / dotted i, long s, sharp s): "case-insensitive regular expression" is the regex
# engine's relation (re.IGNORECASE), which is not the relation `a.lower() in b.lower()`
FOLD_LABS = ("\u03bb\u03cc\u03b3\u03bf\u03c2", "\u039b\u039f\u0393\u039f\u03a3", "k\u0131z", "KIZ", "me\u017f\u017fage", "MESSAGE", "stra\u00dfe", "\u0130stanbul", "istanbul")
FOLD_QUERIES = ("\u03c3", "\u03c2", "\u03a3", "i", "I", "\u0131", "\u0130", "s", "\u017f", "ss", "\u00df", "k", "K")


def _check_find(case):
    kind, L = case[:2]
    QUERIES = case[2] if len(case) > 2 else globals()["QUERIES"]
    if kind == "I":
        t = IT("t", [(float(i), float(i + 1), l) for i, l in enumerate(L)], 0, len(L))
    else:
        t = PT("t", [(float(i), l) for i, l in enumerate(L)], 0, len(L))
    viols = []
    n = 0
    for q in QUERIES:
        for mode, kw, exp in (("equal", {}, [i for i, l in enumerate(L) if l == q]),
                              ("substring", {"substrMatchFlag": True}, [i for i, l in enumerate(L) if q in l]),
                              ("regex", {"usingRE": True}, [i for i, l in enumerate(L) if re.search(q, l, re.I)])):
            n += 1
            st, r, _ = call(t.find, q, **kw)
            if st == "exc" or r != exp:
                viols.append(Viol("find-" + mode, f"find({q!r}, {kw}) on labels {L}: {r!r}, expected {exp}"))
            # the same call with the flags given positionally, in the documented order (matchLabel, substrMatchFlag, usingRE)
            pos = {"equal": (False, False), "substring": (True, False), "regex": (False, True)}[mode]
            st, r, _ = call(t.find, q, *pos)
            n += 1
            if st == "exc" or r != exp:
                viols.append(Viol("find-" + mode + "-positional", f"find({q!r}, {pos[0]}, {pos[1]}) on labels {L}: {r!r}, expected {exp}"))
    return n, "ok", (kind, L), viols


def _check_nonentries(case):
    ivs, hi = case[0], case[1]
    E = [(a, b, "x") for a, b in ivs]
    if len(case) > 2:    # the span arguments as the caller wrote them: omitted, None, or a minimum at / below the first start
        form, lo = case[2], case[3]
        if form == "omitted":
            t = IT("t", E)
        elif form == "omitted-min":
            t = IT("t", E, maxT=hi)
        else:
            t = IT("t", E, lo, hi)
        hi = t.maxTimestamp
    else:
        t = IT("t", E, 0, hi)
    viols = []
    st, r, _ = call(t.getNonEntries)
    exp, cur = [], 0.0
    for s, e, l in E:
        if s > cur:
            exp.append((cur, s, ""))
        cur = e
    if cur < hi:
        exp.append((cur, hi, ""))
    if st == "exc" or [tuple(x) for x in r] != exp:
        viols.append(Viol("getNonEntries", f"entries {E} max {hi}: {r!r}, expected {exp}"))
    else:
        tiles = sorted([tuple(x)[:2] for x in r] + [(s, e) for s, e, _ in E])
        if tiles[0][0] != 0 or tiles[-1][1] != hi or any(a[1] != b[0] for a, b in zip(tiles, tiles[1:])) or any(not a < b for a, b in tiles):
            viols.append(Viol("getNonEntries-tiling", f"entries {E} max {hi}: entries + non-entries do not tile [0,{hi}]: {tiles}"))
    st, ts, _ = call(lambda: t.timestamps)
    expts = sorted(set(v for s, e, _ in E for v in (s, e)))
    if st == "exc" or ts != expts:
        viols.append(Viol("timestamps", f"entries {E}: {ts!r}, expected {expts}"))
    return 2, "ok", (ivs, hi), viols


def _check_pt_timestamps(case):
    pts = case
    t = PT("t", [(p, "x") for p in pts], 0, 4)
    st, ts, _ = call(lambda: t.timestamps)
    if st == "exc" or ts != sorted(set(pts)):
        return 1, "!", None, [Viol("timestamps", f"points {pts}: {ts!r}")]
    return 1, "ok", (pts,), []


SERIES = (
    tuple((x / 2, x) for x in range(0, 9)),
    tuple(reversed(tuple((x / 2, x) for x in range(0, 9)))),
    ((1.0, 1), (1.0, 2), (2.0, 3), (0.0, 4), (3.0, 5), (1.0, 6)),
    ((0.25, 1), (3.75, 2)),
    (),
    # values the library has no business looking at: missing values (None, Praat's '--undefined--') beside numbers AT THE SAME TIME, dictionaries,
    # complex numbers, rows of different widths - only column 0 is a time
    ((0.5, None), (1.0, None), (1.0, 34.0), (1.5, "--undefined--"), (1.5, 32.0), (2.0, {"f0": 1}), (2.0, {"f0": 0}), (3.0, 3 + 4j), (3.0, 1j), (3.5, None)),
    ((1.0, 34.0), (1.0, None), (2.0, 1.0, "x"), (2.0, 1.0), (2.0,), (3.0, [1]), (3.0, "a")),
)


def _long_series(n, shuffled):
    """n samples on [0, 4] (step 4/(n-1) rounded to 1/64 so that times are dyadic and some coincide with interval boundaries);
    shuffled: a fixed permutation (i*37 mod n) - getValuesInIntervals makes no assumption about the order of the samples"""
    rows = [(round(64 * 4 * i / (n - 1)) / 64.0, i) for i in range(n)]
    if shuffled:
        step = 37 if n % 37 else 41
        rows = [rows[(i * step) % n] for i in range(n)]
    return tuple(rows)


LONG_SERIES = tuple(_long_series(n, sh) for n in (100, 101, 150, 257, 300, 1000) for sh in (False, True))
SERIES = SERIES + LONG_SERIES


def _check_gvii(case):
    ivs, si = case
    E = [(a, b, "x") for a, b in ivs]
    t = IT("t", E, 0, 4) if si != -2 else IT("t", E, D.BIG[0], D.BIG[-1])
    # -1: samples on the ulp-neighbour grid; -2: intervals and samples on the far-from-zero grid
    data = list(SERIES[si]) if si >= 0 else [(v, k) for k, v in enumerate(sorted(D.ULP) if si == -1 else D.BIG)]
    st, r, _ = call(t.getValuesInIntervals, list(data))
    if st == "exc":
        return 1, "X", None, [Viol("getValuesInIntervals-raised", f"{E} {data}: {r!r}")]
    viols = []
    if len(r) != len(E):
        viols.append(Viol("getValuesInIntervals", f"{len(r)} result rows for {len(E)} intervals"))
    for (iv, vals), (s, e, l) in zip(r, E):
        exp = [d for d in data if s <= d[0] <= e]
        if tuple(iv) != (s, e, l) or list(vals) != exp:
            viols.append(Viol("getValuesInIntervals", f"interval {(s, e, l)} data {data}: {vals!r}, expected exactly the samples with start <= t <= end {exp}"))
    return 1, "ok", (ivs, si), viols


TIMES = (0.0, 0.5, 1.0, 1.5, 2.0, 3.0)


def _check_gvap(case):
    data_t, order, pts = case
    Dl = [(t, i) for i, t in enumerate(data_t)]
    if order == "rev":
        Dl = list(reversed(Dl))
    pt = PT("p", [(t, "l%d" % i) for i, t in enumerate(pts)], 0, 3)  # several points may share a timestamp
    viols = []
    for fuzzy in (False, True):
        # the previous recording: a series of the same length with other samples is queried and then dropped, so that the list handed in
        # next is likely to be allocated where the dead one was (what a loop over recordings does)
        decoy = [(t + 0.375, -1 - i) for t, i in Dl]
        dead = id(decoy)
        call(pt.getValuesAtPoints, decoy, fuzzy)
        del decoy
        handed = reborn_at(dead, lambda: [row for row in Dl])   # the caller's own list: a query reads it, the caller finds it as it was
        st, r, _ = call(pt.getValuesAtPoints, handed, fuzzy)
        if st == "exc":
            viols.append(Viol("getValuesAtPoints-raised", f"data {Dl} points {pts} fuzzy={fuzzy}: {r!r}"))
            continue
        if handed != Dl or any(x is not y for x, y in zip(handed, Dl)):
            viols.append(Viol("query-changed-the-callers-list", f"getValuesAtPoints(data, {fuzzy}) on points {pts}: the data list handed in was {Dl}, afterwards it is {handed}"))
            continue
        if len(r) != len(pts):
            viols.append(Viol("getValuesAtPoints", f"{len(r)} rows for {len(pts)} points"))
            continue
        for p, row in zip(pts, r):
            if not fuzzy:
                c = [d for d in Dl if d[0] == p]
                if (row == () and c) or (row != () and tuple(row) not in c):
                    viols.append(Viol("getValuesAtPoints-exact", f"data {Dl} points {pts}: {r!r}; point {p} must get the sample at that time or ()"))
                    break
            else:
                best = min(abs(d[0] - p) for d in Dl)
                if row == () or tuple(row) not in Dl or abs(row[0] - p) != best:
                    viols.append(Viol("getValuesAtPoints-fuzzy", f"data {Dl} points {pts}: {r!r}; point {p} must get a nearest sample (distance {best})"))
                    break
    return 2, "ok", (data_t, order, pts), viols


def _check_overlap(case):
    a, b, c, d, incl, pct, thr = case
    st, r, _ = call(utils.intervalOverlapCheck, (a, b), (c, d), pct, thr, incl)
    ov = max(0.0, min(b, d) - max(a, c))
    flag = ov > 0
    if flag and pct > 0:
        flag = ov / (max(b, d) - min(a, c)) >= pct
    if flag and thr > 0:
        flag = ov >= thr
    if incl and (a == d or b == c):
        flag = True
    if st == "exc" or bool(r) != flag:
        return 1, "!", None, [Viol("intervalOverlapCheck", f"intervalOverlapCheck(({a},{b}),({c},{d}), percentThreshold={pct}, timeThreshold={thr}, "
                                                           f"boundaryInclusive={incl}) = {r!r}; interval arithmetic says {flag} (overlap {ov})")]
    return 1, str(flag), ((a > c) - (a < c), (a > d) - (a < d), (b > c) - (b < c), (b > d) - (b < d), incl, pct > 0, thr > 0), []


def _check_invert(case):
    ivs, lo, hi = case
    L = [(a, b) for a, b in ivs]
    st, r, _ = call(utils.invertIntervalList, list(L), lo, hi)
    tag = f"invertIntervalList({L}, {lo}, {hi})"
    if not L and (lo is None or hi is None):
        return 1, "undefined", None, []  # neither bounds nor a list to take them from: outside the stated domain
    a = lo if lo is not None else L[0][0]
    b = hi if hi is not None else L[-1][1]
    if L and (L[0][0] < a or L[-1][1] > b):
        return 1, "outside-bounds", None, []  # intervals outside the bounds: complement "within bounds" undefined
    if st == "exc":
        return 1, "X", None, [Viol("invertIntervalList-raised", f"{tag}: {r!r}")]
    exp, cur = [], a
    for s, e in L:
        if s > cur:
            exp.append((cur, s))
        cur = max(cur, e)
    if cur < b:
        exp.append((cur, b))
    if [tuple(x) for x in r] != exp:
        return 1, "!", None, [Viol("invertIntervalList", f"{tag} = {r!r}, complement within bounds is {exp}")]
    return 1, "ok", (ivs, lo, hi), []


def _mk(kind, E, name="t", lo=0, hi=4):
    return (IT if kind == "I" else PT)(name, list(E), lo, hi)


NUM_LABELS = ("132", "132.0", "1e2", "100", "7", "07", "1000", "1_000", "0.1", "0.10000000001", "nan", "NaN", "inf", "-0", "0")


def _check_eq_numeric_labels(case):
    """labels whose TEXT reads as a number: a label is text - '132' and '132.0' are different labels, and a tier labelled 'nan' equals itself"""
    kind, a, b = case
    def mk(lab, lab2="w"):
        return _mk(kind, [(1.0, 2.0, lab), (2.0, 3.0, lab2)] if kind == "I" else [(1.0, lab), (2.0, lab2)])
    viols = []
    ta, tb = mk(a), mk(b)
    same = a == b
    for what, x, y in (("tier", ta, tb), ("tier (second entry)", mk("w", a), mk("w", b))):
        for p, q in ((x, y), (y, x)):
            if (p == q) != same or (p != q) == same:
                viols.append(Viol("eq-on-number-like-labels", f"{kind} tiers that differ only in one label, {a!r} vs {b!r}: == gives {p == q}, != gives {p != q}"))
                return 4, "!", None, viols
    tga, tgb = Textgrid(0, 4), Textgrid(0, 4)
    tga.addTier(ta)
    tgb.addTier(tb)
    if (tga == tgb) != same:
        viols.append(Viol("eq-on-number-like-labels", f"textgrids whose {kind} tier differs only in one label, {a!r} vs {b!r}: == gives {tga == tgb}"))
    if same and not (ta == ta.new() and ta == ta and tga == tga.new()):
        viols.append(Viol("eq-not-reflexive", f"a {kind} tier with the label {a!r} is not equal to itself / to its copy"))
    return 5, "ok", (kind, a, b), viols


COMPENSATING = (
    ("I", ((0, 1, "a"), (1, 2, "b"), (3, 4, "c")), ((0, 1, "a"), (2, 3, "b"), (3, 4, "c"))),       # an entry moved across a gap: same boundary set, labels, count, span
    ("I", ((0, 1, "a"), (1, 3, "b"), (3, 4, "c")), ((0, 3, "a"), (3, 4, "b"), (4, 4.5, "c"))),
    ("I", ((0, 2, "a"), (2, 3, "a")), ((0, 1, "a"), (1, 3, "a"))),                                     # same labels, same total length, same span
    ("P", ((1, "a"), (1, "b"), (2, "c")), ((1, "a"), (2, "b"), (2, "c"))),                           # a point moved onto another existing time
    ("P", ((1, "a"), (2, "b")), ((1, "b"), (2, "a"))),                                               # labels exchanged
    ("I", ((0, 1, "a"), (2, 3, "b")), ((0, 1, "b"), (2, 3, "a"))),
)


def _check_eq_compensating(case):
    """two tiers that differ in SEVERAL fields at once while every aggregate of them (the set of boundary times, the list / multiset of labels, the
    count, the span, the total duration) is the same: different tiers"""
    kind, A, B = COMPENSATING[case]
    ta, tb = _mk(kind, A, "t", 0, 5), _mk(kind, B, "t", 0, 5)
    viols = []
    if (ta == tb) or (tb == ta) or not (ta != tb) or not (tb != ta):
        viols.append(Viol("eq-compensating-differences", f"{kind} tiers {A} and {B} (same boundary set, labels, count and span): == gives {ta == tb} / {tb == ta}, "
                                                         f"!= gives {ta != tb}"))
    tga, tgb = Textgrid(0, 5), Textgrid(0, 5)
    tga.addTier(ta)
    tgb.addTier(tb)
    if tga == tgb:
        viols.append(Viol("eq-compensating-differences", f"textgrids holding the {kind} tiers {A} and {B}: == gives True"))
    return 5, "ok", (kind, case), viols


def _check_eq(case):
    kind, E = case
    E = list(E)
    t = _mk(kind, E)
    viols = []
    n = 0
    if not (t == _mk(kind, E)) or (t != _mk(kind, E)) if False else not (t == _mk(kind, E)):
        viols.append(Viol("eq-not-reflexive", f"{kind} {E}"))
    variants = [("name", _mk(kind, E, "u")), ("min", _mk(kind, E, "t", -1, 4)), ("max", _mk(kind, E, "t", 0, 5))]
    if not E:
        variants.append(("type", _mk("P" if kind == "I" else "I", [], "t")))
    for i in range(len(E)):
        e = list(E[i])
        e[-1] = "q"
        variants.append(("label", _mk(kind, E[:i] + [tuple(e)] + E[i + 1:])))
        variants.append(("count", _mk(kind, E[:i] + E[i + 1:])))
        for j in range(len(e) - 1):
            for what, delta in (("time", 0.001), ("noise", 1e-13)):
                e2 = list(E[i])
                e2[j] = e2[j] + delta
                try:
                    variants.append((what, _mk(kind, E[:i] + [tuple(e2)] + E[i + 1:], "t", 0, 4.5)))
                except errors.TextgridStateError:
                    pass
    base = _mk(kind, E, "t", 0, 4.5)
    for what, v in variants:
        ref = base if what in ("time", "noise") else t
        n += 2
        a, b = (ref == v), (v == ref)
        if a != b:
            viols.append(Viol("eq-asymmetric", f"{kind} {E} vs {what}-variant: {a} / {b}"))
        if what == "noise":
            pass  # the property only demands that changes BEYOND rounding noise are distinguished; symmetry still checked
        elif a:
            viols.append(Viol("eq-misses-" + what, f"{kind} {E}: a changed {what} is not detected by =="))
        # the same inside textgrids
        tg1, tg2 = Textgrid(), Textgrid()
        tg1.addTier(ref, reportingMode="silence")
        tg2.addTier(v, reportingMode="silence")
        ta, tb = (tg1 == tg2), (tg2 == tg1)
        if ta != tb:
            viols.append(Viol("tg-eq-asymmetric", f"{kind} {E} vs {what}-variant"))
        if what != "noise" and ta:
            viols.append(Viol("tg-eq-misses-" + what, f"{kind} {E}"))
    tg = Textgrid()
    tg.addTier(t)
    tg2 = Textgrid()
    tg2.addTier(_mk(kind, E))
    if not (tg == tg2) or not (tg2 == tg):
        viols.append(Viol("tg-eq-not-reflexive", f"{kind} {E}"))
    tg3 = Textgrid()
    tg3.addTier(_mk(kind, E))
    tg3.addTier(PT("z", [], 0, 4))
    if tg == tg3 or tg3 == tg:
        viols.append(Viol("tg-eq-misses-tier-count", f"{kind} {E}"))
    tg4 = Textgrid()
    tg4.addTier(PT("z", [], 0, 4))
    tg4.addTier(_mk(kind, E))
    if tg3 == tg4 or tg4 == tg3:
        viols.append(Viol("tg-eq-misses-tier-order", f"{kind} {E}"))
    if t == "t" or t == 5 or tg == 5:
        viols.append(Viol("eq-foreign-type", f"{kind} {E}"))
    # copies obtained with new(): equal to begin with; after an in-place edit of the COPY the two differ and the original still answers
    # every query as before (also for tier.new() and for a copy of a copy)
    for how in ("textgrid.new", "tier.new", "textgrid.new.new"):
        src_tg = Textgrid()
        src = _mk(kind, E)
        src_tg.addTier(src)
        if how == "tier.new":
            cp_t, a_obj, b_obj = src.new(), src, None
            b_obj = cp_t
        else:
            cp_tg = src_tg.new() if how == "textgrid.new" else src_tg.new().new()
            cp_t, a_obj, b_obj = cp_tg.getTier("t"), src_tg, cp_tg
        q_before = (canon(src), src.find("q"), src.timestamps)
        n += 1
        if not (a_obj == b_obj):
            viols.append(Viol("copy-not-equal", f"{kind} {E}: {how}() does not compare equal to its source"))
            continue
        call(cp_t.insertEntry, (3.25, 3.5, "q") if kind == "I" else (3.25, "q"), "merge", "silence")
        if a_obj == b_obj or b_obj == a_obj:
            viols.append(Viol("eq-misses-edit-of-copy", f"{kind} {E}: after an entry was inserted into the {how}() copy only, copy and source still compare equal"))
        if (canon(src), src.find("q"), src.timestamps) != q_before:
            viols.append(Viol("copy-entangled-with-source", f"{kind} {E}: editing the {how}() copy changed what the source answers: {canon(src)[4]}"))
    return n, "ok", (kind, tuple(E)), viols


def _check_validate(case):
    kind, E = case
    E = list(E)
    t = _mk(kind, E)
    tg = Textgrid()
    tg.addTier(t)
    viols = []

    def val(x):
        st, r, _ = call(x.validate, "silence")
        return r if st == "ok" else ("raised", r)
    if val(t) is not True or val(tg) is not True:
        viols.append(Viol("validate-false-positive", f"{kind} {E}: a well-formed tier/textgrid is reported invalid"))
    n = 2
    if E:
        t2 = _mk(kind, E)
        t2.maxTimestamp = E[-1][-2] - 0.5
        n += 1
        if val(t2) is not False:
            viols.append(Viol("validate-misses-overshoot", f"{kind} {E} with maxTimestamp {t2.maxTimestamp}"))
        t2 = _mk(kind, E)
        t2.minTimestamp = E[0][0] + 0.5
        n += 1
        if val(t2) is not False:
            viols.append(Viol("validate-misses-undershoot", f"{kind} {E} with minTimestamp {t2.minTimestamp}"))
        st, r, _ = call(t2.validate, "error")
        if st != "exc":
            viols.append(Viol("validate-error-mode-silent", f"{kind} {E}: validate('error') on an invalid tier returned {r!r}"))
    for attr, v in (("maxTimestamp", 9), ("minTimestamp", -1)):
        tgx = Textgrid()
        tgx.addTier(_mk(kind, E))
        setattr(tgx, attr, v)
        n += 1
        if val(tgx) is not False:
            viols.append(Viol("tg-validate-misses-span-mismatch", f"{kind} {E}: textgrid {attr}={v}"))
    # the two probes below reach into the private entry list (the only way to build such a tier); if the attribute is ever renamed
    # the probe has no effect, which is noticed (the public view is unchanged) and the probe is skipped rather than misreported
    if len(E) > 1 and hasattr(_mk(kind, E), "_entries"):
        t2 = _mk(kind, E)
        t2._entries = list(reversed(t2._entries))  # the only way to build an out-of-order tier
        if [tuple(e) for e in t2.entries] != [tuple(e) for e in reversed(_mk(kind, E).entries)]:
            return n, "ok", (kind, tuple(E)), viols
        n += 1
        if val(t2) is not False:
            viols.append(Viol("validate-misses-order", f"{kind} {list(reversed(E))}"))
        tgx = Textgrid()
        tgx.addTier(t2)
        if val(tgx) is not False:
            viols.append(Viol("tg-validate-misses-order", f"{kind} {list(reversed(E))}"))
    if kind == "I" and E and hasattr(_mk(kind, E), "_entries"):
        t2 = _mk(kind, E)
        s, e, l = t2._entries[0]
        t2._entries[0] = type(t2._entries[0])(e, s, l)
        if tuple(t2.entries[0])[:2] != (e, s):
            return n, "ok", (kind, tuple(E)), viols
        n += 1
        if val(t2) is not False:
            viols.append(Viol("validate-misses-reversed-interval", f"{E}"))
    return n, "ok", (kind, tuple(E)), viols


def parts(tier):
    quick = tier == "quick"
    sets = D.interval_sets(G, 3)

    def gen_find():
        for L in itertools.product(LABS, repeat=3):
            yield ("I", L)
        for L in itertools.product(LABS, repeat=2):
            yield ("P", L)
        for L in itertools.combinations(FOLD_LABS, 2):
            yield ("I", L, FOLD_QUERIES)
        for L in itertools.combinations(FOLD_LABS, 3):
            yield ("P", L, FOLD_QUERIES)

    def gen_non():
        for s in sets:
            if s:
                for hi in (4.0, 6.0):
                    yield (s, hi)
        # the tile is [0, maxTimestamp] however the tier's own minimum came about
        for s in sets:
            if s:
                yield (s, 4.0, "omitted", None)
                yield (s, 4.0, "omitted-min", None)
                yield (s, 4.0, "given", None)
                for lo in sorted({s[0][0], s[0][0] / 2, 0.0}):
                    yield (s, 4.0, "given", lo)
                    yield (s, None, "given", lo)
        # the size axis
        for n, layout, e in D.size_family(quick):
            ivs = tuple((a, b) for a, b, _ in e)
            yield (ivs, e[-1][1])
            yield (ivs, e[-1][1] + 1.0)
            yield (ivs[1:], e[-1][1] + 1.0)

    def gen_gvii():
        nshort = len(SERIES) - len(LONG_SERIES)
        for s in sets:
            for si in range(nshort):
                yield (s, si)
        # the size axis: long sample series (100 .. 1000 rows, in time order and in a fixed shuffled order) and long tiers
        for s in sets[:: 4 if quick else 1]:
            for si in range(nshort, len(SERIES)):
                yield (s, si)
        for n in (17, 33, 258):
            e = tuple((a / 64.0 if n > 64 else a / 8.0, b / 64.0 if n > 64 else b / 8.0) for a, b in ((i, i + 0.75) for i in range(n)) if (b / (64.0 if n > 64 else 8.0)) <= 4)
            for si in range(nshort, len(SERIES)):
                yield (e, si)

    def gen_gvap():
        for n in range(1, 4 if quick else 5):
            for data in itertools.combinations_with_replacement(TIMES, n):
                for m in range(0, 3):
                    for pts in itertools.combinations(tuple(sorted(TIMES + (0.75, 2.5))), m):
                        yield (data, "asc", pts)
                        if n > 1:
                            yield (data, "rev", pts)
                # points that share a timestamp (each of them gets the sample at that time)
                for pts in [(t, t) for t in TIMES] + [(t, t, u) for t in TIMES[:2] for u in TIMES if u > t] + [(TIMES[0],) * 3]:
                    yield (data, "asc", pts)
                    if n > 1:
                        yield (data, "rev", pts)
        # the size axis: long series (in time order and reversed) x points at / between samples far down the list
        for m in (100, 257, 300):
            data = tuple(i / 4.0 for i in range(m))
            for k in D.probe_indices(m):
                for pts in ((k / 4.0,), (k / 4.0, k / 4.0 + 0.125), (0.0, k / 4.0 + 0.25)):
                    yield (data, "asc", tuple(sorted(set(pts))))
                    yield (data, "rev", tuple(sorted(set(pts))))

    def gen_ovl():
        for a, b, c, d in itertools.product(G, repeat=4):
            if a < b and c < d:
                for incl in (False, True):
                    for pct, thr in ((0, 0), (0.5, 0), (0.25, 0), (1.0, 0), (0, 1.0), (0, 2.0), (0.5, 2.0), (0.25, 1.0)):
                        yield (a, b, c, d, incl, pct, thr)

    U = tuple(sorted(D.ULP))

    def gen_ovl_ulp():
        for a, b, c, d in itertools.product(U, repeat=4):
            if a < b and c < d:
                for incl in (False, True):
                    yield (a, b, c, d, incl, 0, 0)
        for a, b, c, d in itertools.product(D.BIG[:6], repeat=4):
            if a < b and c < d:
                for incl in (False, True):
                    for pct, thr in ((0, 0), (0.5, 0), (0, 2.0 ** -7), (0, 0.5)):
                        yield (a, b, c, d, incl, pct, thr)

    def gen_gvii_ulp():
        for s in D.interval_sets(U, 2):
            yield (s, -1)
        for s in D.interval_sets(D.BIG, 2):
            yield (s, -2)

    def gen_inv():
        for s in sets:
            for lo in (None, 0.0, 1.0, -1.0):
                for hi in (None, 4.0, 3.0, 5.0):
                    yield (s, lo, hi)

    def gen_eq():
        for s in D.interval_sets(G, 2):
            yield ("I", D.labelled(s, "xy"))
        for p in D.point_sets(G, 2):
            yield ("P", D.labelled_points(p, "xy"))

    ps = [
        InputPart("find", gen_find, _check_find, rule="all label triples over %s x %d queries x {equal, substring, case-insensitive regex}; pairs / triples of %d labels with irregularly cased letters "
                                                                  "(final sigma, dotless and dotted i, long s, sharp s) x %d one- and two-letter queries" % (LABS, len(QUERIES), len(FOLD_LABS), len(FOLD_QUERIES)), bounds={}),
        InputPart("getNonEntries-timestamps", gen_non, _check_nonentries,
                  rule="all non-empty interval sets (<=3) on a 5-grid x maxTimestamp {4,6}: non-entries = exactly the unlabelled stretches, positive "
                       "length, entries + non-entries tile [0,max]; timestamps = sorted set of boundaries", bounds={}),
        InputPart("point-timestamps", lambda: iter(D.point_sets(G, 3)), _check_pt_timestamps, rule="all point subsets", bounds={}),
        InputPart("getValuesInIntervals", gen_gvii, _check_gvii,
                  rule="all interval sets x 5 series (sorted, reversed, with ties/shuffled, off-boundary, empty), and interval sets / tiers of up to 258 "
                       "intervals x 12 long series (100 .. 1000 rows, in time order and shuffled): per interval exactly the samples "
                       "with start <= t <= end", bounds={}),
        InputPart("getValuesAtPoints", gen_gvap, _check_gvap,
                  rule="all series of <=%d sample times with repetition (ascending and reversed) x all point sets of <=2 (on and between "
                       "sample times): exact and fuzzy lookup" % (3 if quick else 4), bounds={}),
        InputPart("intervalOverlapCheck", gen_ovl, _check_overlap,
                  rule="all interval pairs on a 5-grid x boundaryInclusive x 8 threshold settings; non-trivial = distinct order types x settings", bounds={}),
        InputPart("intervalOverlapCheck-ulp", gen_ovl_ulp, _check_overlap,
                  rule="all interval pairs on the ulp-neighbour grid x boundaryInclusive (an overlap of one ulp is an overlap, a gap of one ulp is not a "
                       "shared boundary) and on the far-from-zero grid 2**40 + {0, 2**-7, 0.25, 0.5, 1, 2} x 4 threshold settings", bounds={}),
        InputPart("getValuesInIntervals-ulp", gen_gvii_ulp, _check_gvii,
                  rule="interval sets and samples on the ulp-neighbour grid and on the far-from-zero grid: start <= t <= end decided exactly", bounds={}),
        InputPart("invertIntervalList", gen_inv, _check_invert,
                  rule="all interval lists (<=3) x min in {None,0,1,-1} x max in {None,4,3,5}: complement within the bounds", bounds={}),
        InputPart("equality", gen_eq, _check_eq,
                  rule="every tier of <=2 entries x every single-field perturbation (name, span, type, one label, entry count, one timestamp by "
                       "1e-3) => unequal both ways; reflexive, symmetric; the same inside textgrids; tier count and order",
                  bounds={}),
        InputPart("equality-compensating-differences", lambda: range(len(COMPENSATING)), _check_eq_compensating,
                  rule="%d pairs of tiers that differ in several fields at once while the set of boundary times, the labels, the count, the span and the total "
                       "duration agree (an entry moved across a gap, a point moved onto another time, labels exchanged): unequal, both ways, as tiers and inside "
                       "textgrids" % len(COMPENSATING), bounds={}),
        InputPart("equality-number-like-labels", lambda: ((k, a, b) for k in ("I", "P") for a in NUM_LABELS for b in NUM_LABELS), _check_eq_numeric_labels,
                  rule="all ordered pairs of %d labels whose text reads as a number ('132' / '132.0', '1e2' / '100', '7' / '07', 'nan', 'inf', '-0' / '0' ...) as the "
                       "only difference between two tiers / textgrids: equal exactly when the texts are equal, both ways, == and != consistent, reflexive" % len(NUM_LABELS),
                  bounds={}),
        InputPart("validate", gen_eq, _check_validate,
                  rule="every tier of <=2 entries: validate() True when well-formed; every single corruption (entry outside span either side, "
                       "textgrid/tier span mismatch, swapped order, reversed interval) => False", bounds={}),
    ]

    # history independence of the operations of this property (shared battery, see mc/props/live.py)
    from mc.props import live as _live, tierops as _tierops
    # (the full seed set runs in C13; here: the 3-entry seeds of live.py plus these)
    _hseeds = [("I", "t", 0.0, 4.0, ((0.0, 1.0, "a"), (1.0, 3.0, "b"))), ("I", "t", 0.0, 4.0, ((1.0, 2.0, "a"),)),
               ("P", "t", 0.0, 4.0, ((1.0, "x"), (3.0, "y")))]
    _hothers = {"I": _tierops.OTHERS_I, "P": _tierops.OTHERS_P}
    _hvals = (0.0, 0.5, 1.0, 2.0, 3.0, 4.5)
    ps.append(InputPart(
        "history-independence", lambda: _live.tier_history_cases(_hseeds, _hothers, _hvals),
        lambda c: _live.check_tier_history(c, _hothers, _hvals),
        rule="every (query/copy operation, in-place mutation) sequence on ONE live tier (all tiers of <=2 entries): afterwards the live "
             "tier and a fresh tier with the same fields agree under ~20 observations as receiver and as argument",
        bounds={}, chunk=16))
    return ps
