"""A process that has seen other calls before.

Every harness starts from a freshly imported library.  A real process has a past: other objects were edited, files in all formats were written,
calls were REJECTED (a mistyped option, a degenerate interval) and their messages were logged.  If the library keeps anything outside the objects
it is handed - an option table reached through an exception, a memo keyed by too little, a mutable default argument, a class-level flag not reset
on the error path - that past decides what a later, perfectly valid call on an unrelated object does.

`run()` is that past: it calls every public operation the properties name, on throw-away fixtures, with EVERY option word of EVERY option class
(so also with the sibling operations' words and with case variants), valid and invalid, renders the message of every exception it meets
(`str(e)`, as logging or a traceback would), saves and opens all formats with differently named tiers, converts audio of all sample widths,
searches with regular expressions that differ only in case, and passes degenerate intervals.  It asserts nothing itself.
mc/props/poisoned.py then re-runs the property's own quick check in a child process that has executed this prelude first.
"""
import io
import os
import tempfile


def run():
    # the host application's own standard-library settings: a decimal context with 5 digits and another rounding mode (money, sensor read-outs);
    # a library that starts to route its numbers through `decimal` silently inherits them
    import decimal
    ctx = decimal.getcontext()
    ctx.prec = 5
    ctx.rounding = decimal.ROUND_UP
    from praatio import audio, textgrid as tgmod, praatio_scripts
    from praatio import pitch_and_intensity as pi
    from praatio.utilities import constants, utils, my_math
    IT, PT, Textgrid = tgmod.IntervalTier, tgmod.PointTier, tgmod.Textgrid
    Interval, Point = constants.Interval, constants.Point
    words = set()
    for v in vars(constants).values():
        opts = getattr(v, "validOptions", None)
        if isinstance(opts, (list, tuple)):
            words.update(opts)
    words = sorted(words)
    words += [w.upper() for w in words] + [w.capitalize() for w in words] + [" " + w for w in words[:4]] + ["bogus", "", None, 0]
    seen = []

    def attempt(f, *a, **kw):
        try:
            f(*a, **kw)
        except BaseException as e:      # noqa: the past of a process contains failed calls; their messages were logged
            if isinstance(e, (KeyboardInterrupt, SystemExit)):
                raise
            seen.append(str(e))
            seen.append(repr(e))

    def iv():
        return IT("zz_i", [(0.0, 1.0, "a"), (1.0, 2.0, "b"), (3.0, 4.0, "c 1")], 0.0, 5.0)

    def pt():
        return PT("zz_p", [(0.5, "x"), (1.0, "y"), (3.0, "z")], 0.0, 5.0)

    def tg():
        t = Textgrid(0.0, 5.0)
        t.addTier(iv())
        t.addTier(pt())
        return t
    d = tempfile.mkdtemp(prefix="praatio-verif-prelude-", dir="/dev/shm" if os.path.isdir("/dev/shm") else None)
    out = io.StringIO()
    import contextlib
    with contextlib.redirect_stdout(out):
        for w in words:
            for mk in (iv, pt):
                attempt(lambda: mk().crop(0.5, 3.5, w, True))
                attempt(lambda: mk().eraseRegion(0.5, 1.5, w, True))
                attempt(lambda: mk().insertSpace(0.5, 1.0, w))
                attempt(lambda: mk().editTimestamps(6.0, w))
                attempt(lambda: mk().insertEntry(Interval(0.5, 1.5, "n") if mk is iv else Point(1.0, "n"), w, "silence"))
                attempt(lambda: mk().insertEntry(Interval(0.5, 1.5, "n") if mk is iv else Point(1.0, "n"), "merge", w))
                attempt(lambda: mk().validate(w))
            attempt(lambda: tg().crop(0.5, 3.5, w, False))
            attempt(lambda: tg().insertSpace(0.5, 1.0, w))
            attempt(lambda: tg().editTimestamps(6.0, w))
            attempt(lambda: tg().addTier(IT("wide", [(0.0, 9.0, "w")], 0.0, 9.0), None, w))
            attempt(lambda: tg().replaceTier("zz_i", IT("wide", [(0.0, 9.0, "w")], 0.0, 9.0), w))
            attempt(lambda: tg().validate(w))
            attempt(lambda: tg().save(os.path.join(d, "w.TextGrid"), w, True))
            attempt(lambda: tg().save(os.path.join(d, "w.TextGrid"), "short_textgrid", True, None, None, None, w))
            attempt(lambda: tgmod.openTextgrid(os.path.join(d, "w.TextGrid"), False, w))
            attempt(lambda: tgmod.openTextgrid(os.path.join(d, "w.TextGrid"), False, "silence", w))
        # degenerate and colliding entries, regions, windows
        for mk in (iv, pt):
            attempt(lambda: mk().insertEntry(Interval(4.0, 4.0, "c") if mk is iv else Point(9.0, "c")))
            attempt(lambda: mk().insertEntry(Interval(2.0, 1.0, "c") if mk is iv else Point(1.0, "c")))
            attempt(lambda: mk().eraseRegion(2.0, 2.0))
            attempt(lambda: mk().eraseRegion(3.0, 1.0, "truncate", False))
            attempt(lambda: mk().crop(2.0, 2.0, "strict", False))
            attempt(lambda: mk().deleteEntry(Interval(7.0, 8.0, "q") if mk is iv else Point(7.0, "q")))
        attempt(lambda: IT("bad", [(0.0, 2.0, "p"), (1.0, 3.0, "q")]))
        attempt(lambda: IT("bad", [(2.0, 1.0, "r")]))
        attempt(lambda: tg().addTier(iv()))
        attempt(lambda: tg().renameTier("zz_i", "zz_p"))
        attempt(lambda: tg().removeTier("nope"))
        attempt(lambda: tg().addTier(iv().new("n"), "x"))
        attempt(lambda: iv().appendTier(pt()))
        attempt(lambda: iv().morph(IT("m", [(0.0, 1.0, "m")], 0.0, 2.0)))
        # all formats, differently named tiers, both blank settings; then read everything back
        for i, fmt in enumerate(("short_textgrid", "long_textgrid", "json", "textgrid_json")):
            for blanks in (True, False):
                t = Textgrid(0.0, 7.0)
                t.addTier(IT("prelude_%d" % i, [(0.5, 1.5, "q%d" % i)], 0.0, 7.0))
                t.addTier(PT("prelude_p%d" % i, [(2.0, "r")], 0.0, 7.0))
                fn = os.path.join(d, "p%d%d.TextGrid" % (i, blanks))
                attempt(lambda: t.save(fn, fmt, blanks))
                attempt(lambda: tgmod.openTextgrid(fn, blanks))
        # queries
        for q in (r"\s", r"\S", r"\d", r"\D", r"\w", r"\W", r"\b", r"\B", "A", "a", "(", "[", "a*", ""):
            for flags in ((False, True), (True, False), (False, False)):
                attempt(lambda: iv().find(q, *flags))
                attempt(lambda: pt().find(q, *flags))
        attempt(lambda: pt().getValuesAtPoints([(3.0, 1), (0.5, 2), (1.0, 3)], True))
        attempt(lambda: iv().getValuesInIntervals([(3.5, 1), (0.5, 2)]))
        attempt(lambda: utils.intervalOverlapCheck((0.0, 1.0), (1.0, 2.0), 0.5, 0.5, True))
        attempt(lambda: utils.invertIntervalList([(1.0, 2.0)], 0.0, 3.0))
        # audio of every width, equal byte lengths
        for width in (1, 2, 4):
            n = 80 // width
            fr = bytes(80)
            attempt(lambda: audio.convertFromBytes(fr, width))
            w = audio.Wav(fr, [1, width, 1000, n, "NONE", "not compressed"])
            attempt(lambda: w.getSamples(0.0, n / 1000))
            attempt(lambda: w.findNearestZeroCrossing(0.01))
            attempt(lambda: w.insert(0.01, "not bytes"))
            attempt(lambda: w.deleteSegment(0.02, 0.01))
            attempt(lambda: w.save(os.path.join(d, "a%d.wav" % width)))
            attempt(lambda: audio.QueryWav(os.path.join(d, "a%d.wav" % width)).getFrames())
        # numeric helpers
        attempt(lambda: my_math.medianFilter([5, 1, 9, 3, 7], 3, True))
        attempt(lambda: pi.detectPitchErrors([(0.0, 100), (0.1, 300)], 1.5))
        attempt(lambda: pi.detectPitchErrors([(0.0, 100), (0.1, 300)], 0.5))
        attempt(lambda: pi.getPitchMeasures([]))
        listing = os.path.join(d, "l.txt")
        with io.open(listing, "w") as fd:
            fd.write("time,pitch\n0.1,100\n0.2,--undefined--")
        attempt(lambda: pi.loadTimeSeriesData(listing))
        attempt(lambda: pi.loadTimeSeriesData(listing, 0))
        attempt(lambda: pi.loadTimeSeriesData(os.path.join(d, "missing.txt")))
    import shutil
    shutil.rmtree(d, ignore_errors=True)
    return len(seen)
