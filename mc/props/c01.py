"""C01 - TextGrid save/open round trip preserves every tier, time and label; the written form is a fixed point.

Enumerated (DESIGN 4/C01): textgrids assembled from four layers -
  A  every label string over the alphabet {a " \\n = 1 space é} up to length L placed in turn as first interval label,
     second interval label, point mark and tier name, on a 2-tier skeleton with two entries per tier so that a
     mis-terminated label corrupts the next field (thorough: all ordered pairs of short labels in adjacent entries);
  B  every number of NUM as interval start / end, point time, tier span and file span (all ordered pairs);
  C  structure: 1-3 tiers, 0-3 entries, explicit empty labels, tier spans narrower/wider than the file span, both orders;
  K  the formats' own keywords in every position (listed known findings for the content-sniffing readers).
Each x 4 formats x includeBlankSpaces x includeEmptyIntervals, through Textgrid.save / openTextgrid on real files.
"""
import itertools
import math
import os

from mc import domains as D
from mc.props import envcheck
from mc.engine import InputPart, Viol
from mc.props.common import IT, PT, Textgrid, call, wellformed, scratch_dir, fresh
from praatio import textgrid as _tgmod

FMTS = fresh(("short_textgrid", "long_textgrid", "json", "textgrid_json"))


def build(case_tg):
    lo, hi, tiers = case_tg
    tg = Textgrid(float(lo), float(hi))
    for kind, name, tlo, thi, entries in tiers:
        tg.addTier((IT if kind == "I" else PT)(name, list(entries), tlo, thi), reportingMode="silence")
    return tg


def teq(t, t2):
    """C01's timestamp equality: bit-identical, or t2 is integral and within 1e-14 (relative) of t."""
    if t == t2 and math.copysign(1, t) == math.copysign(1, t2):
        return True
    return float(t2).is_integer() and abs(t - t2) <= 1e-14 * max(abs(t), abs(t2))


def model(tg, fmt, blanks, incl):
    """What the reopened textgrid must be (written from the property statement + what the file encodes)."""
    out = []
    lo, hi = tg.minTimestamp, tg.maxTimestamp
    for t in tg.tiers:
        E = [tuple(e) for e in t.entries]
        tlo, thi = t.minTimestamp, t.maxTimestamp
        if t.tierType == "IntervalTier" and blanks:
            W, cur = [], lo
            for s, e, l in E:
                if s > cur:
                    W.append((cur, s, ""))
                W.append((s, e, l))
                cur = e
            if cur < hi:
                W.append((cur, hi, ""))
            if not E:
                W = [(lo, hi, "")]
        else:
            W = E
        R = W if incl else [e for e in W if e[-1] != ""]
        if fmt == "json":
            tlo, thi = lo, hi
        ts = [x for e in R for x in e[:-1]]
        if ts:  # a span is widened to contain filler blanks that the caller asked to read back
            tlo = min([tlo] + ts)
            thi = max([thi] + ts)
        out.append((t.tierType, t.name, tlo, thi, R))
    return lo, hi, out


def compare(r, lo, hi, exp):
    if not (teq(lo, r.minTimestamp) and teq(hi, r.maxTimestamp)):
        return f"file span ({r.minTimestamp!r},{r.maxTimestamp!r}) != ({lo!r},{hi!r})"
    if len(r.tiers) != len(exp):
        return f"{len(r.tiers)} tiers, expected {len(exp)}"
    for rt, (ty, nm, tlo, thi, R) in zip(r.tiers, exp):
        if rt.tierType != ty:
            return f"tier {nm!r}: type {rt.tierType}, expected {ty}"
        if rt.name != nm:
            return f"tier name {rt.name!r} != {nm!r}"
        if not (teq(tlo, rt.minTimestamp) and teq(thi, rt.maxTimestamp)):
            return f"tier {nm!r}: span ({rt.minTimestamp!r},{rt.maxTimestamp!r}) != ({tlo!r},{thi!r})"
        if len(rt.entries) != len(R):
            return f"tier {nm!r}: {len(rt.entries)} entries, expected {len(R)}: {[tuple(e) for e in rt.entries]!r} vs {R!r}"
        for a, b in zip(rt.entries, R):
            if a[-1] != b[-1]:
                return f"tier {nm!r}: label {a[-1]!r} != {b[-1]!r}"
            for x, y in zip(a[:-1], b[:-1]):
                if not teq(y, x):
                    return f"tier {nm!r}: time {x!r} != {y!r}"
        w = wellformed(rt)
        if w:
            return f"tier {nm!r}: reopened tier is ill-formed ({w})"
    return None


def _kw_class(keyword, fmt, position):
    return {"reader": "long" if fmt == "long_textgrid" else "short", "keyword": keyword, "position": position}


def check(case):
    tag, meta, case_tg, minlen = case
    tg = build(case_tg)        # ONE live object is saved 8 times ...
    pristine = build(case_tg)  # ... and judged against a copy that is never handed to save()
    d = scratch_dir()
    fn = os.path.join(d, "c01.TextGrid")
    fn2 = os.path.join(d, "c01b.TextGrid")
    viols = []
    n = 0
    nempty = any(e[-1] == "" for t in pristine.tiers for e in t.entries)
    oc = []
    for fmt in FMTS:
        is_kw = tag == "K" and fmt in ("long_textgrid", "short_textgrid")
        for blanks in (True, False):
            st, r, _ = call(tg.save, fn, fmt, blanks, None, None, minlen, "silence")
            n += 1
            if st == "exc":
                viols.append(Viol("save-raised:" + type(r).__name__, f"save({fmt},{blanks}) of {case_tg} raised {r!r}"))
                continue
            with open(fn, encoding="utf-8") as fd:
                text1 = fd.read()
            for incl in (True, False):
                n += 1
                st, r, _ = call(_tgmod.openTextgrid, fn, incl, "silence")
                cfg = f"format={fmt} includeBlankSpaces={blanks} includeEmptyIntervals={incl}"
                if st == "exc":
                    sig = dict(_kw_class(meta[0], fmt, meta[1]), kind="open-exception") if is_kw else None
                    viols.append(Viol("open-raised:" + type(r).__name__, f"{cfg}: reopening {case_tg} raised {r!r}", sig))
                    oc.append("X")
                    continue
                lo, hi, exp = model(pristine, fmt, blanks, incl)
                msg = compare(r, lo, hi, exp)
                if msg:
                    sig = dict(_kw_class(meta[0], fmt, meta[1]), kind="mismatch") if is_kw else None
                    viols.append(Viol("roundtrip-mismatch", f"{cfg}: {msg}   [textgrid {case_tg}]", sig))
                    oc.append("!")
                    continue
                oc.append("=")
                widened = any((t.minTimestamp, t.maxTimestamp) != (e[2], e[3]) for t, e in zip(pristine.tiers, exp)) \
                    if fmt != "json" else any((e[2], e[3]) != (lo, hi) for e in exp)
                if (incl or not nempty) and not widened:
                    n += 1
                    st2, r2, _ = call(r.save, fn2, fmt, blanks, None, None, minlen, "silence")
                    if st2 == "exc":
                        viols.append(Viol("resave-raised:" + type(r2).__name__, f"{cfg}: re-saving the reopened textgrid raised {r2!r}  [{case_tg}]"))
                        continue
                    with open(fn2, encoding="utf-8") as fd:
                        text2 = fd.read()
                    if text2 != text1:
                        viols.append(Viol("not-a-fixed-point", f"{cfg}: save(open(save(tg))) differs from save(tg): first difference at "
                                                               f"{_firstdiff(text1, text2)}  [{case_tg}]"))
    return n, "".join(oc), (tag, meta) if tag != "C" else (tag, _shape(case_tg)), viols


def _shape(case_tg):
    return tuple((k, len(e), sum(1 for x in e if x[-1] == ""), (tlo, thi) != (case_tg[0], case_tg[1])) for k, _, tlo, thi, e in case_tg[2])


def _firstdiff(a, b):
    for i, (x, y) in enumerate(zip(a, b)):
        if x != y:
            return f"offset {i}: {a[max(0, i - 20):i + 20]!r} vs {b[max(0, i - 20):i + 20]!r}"
    return f"length {len(a)} vs {len(b)}"


# ------------------------------------------------------------------ layers
def skeleton(l1="x", l2="y", pm="z", iname="t", pname="p"):
    return (0.0, 3.0, (("I", iname, 0.0, 3.0, ((0.0, 1.0, l1), (1.5, 2.0, l2))),
                       ("P", pname, 0.0, 3.0, ((1.0, pm), (2.0, "w")))))


def layer_labels(L, pairs_L=0):
    for l in D.label_strings(L):
        yield ("A", (l, "ilabel1"), skeleton(l1=l), 1e-8)
        yield ("A", (l, "ilabel2"), skeleton(l2=l), 1e-8)
        yield ("A", (l, "plabel"), skeleton(pm=l), 1e-8)
        if l and "\n" not in l:
            yield ("A", (l, "name"), skeleton(iname=l), 1e-8)
    if pairs_L:
        short = D.label_strings(pairs_L)
        for l1 in short:
            for l2 in short:
                yield ("A2", (l1, l2), (0.0, 3.0, (("I", "t", 0.0, 3.0, ((0.0, 1.0, l1), (1.0, 2.0, l2))),
                                                    ("P", "p", 0.0, 3.0, ((1.0, l1), (2.0, l2))))), 1e-8)


def _collapse(x):
    return float(int(x)) if abs(x - int(x)) <= 1e-14 * max(abs(x), abs(int(x))) else x


def layer_numbers(NUM):
    for a, b in itertools.combinations(sorted(NUM), 2):
        if not _collapse(a) < _collapse(b):
            continue  # the two ends collapse onto the same integer under C01's own exception: outside the domain
        yield ("B", ("pair",), (a, b, (("I", "i", a, b, ((a, b, "x"),)), ("P", "p", a, b, ((a, "u"), (b, "v"))))), None)
        yield ("B", ("inside",), (0.0, 1e15, (("I", "i", 0.0, 1e15, ((a, b, "x"),)), ("P", "p", 0.0, 1e15, ((b, "v"),)))), None)


FAR = ((2.0 ** 23 + 0.5, 2.0 ** -23), (2.0 ** 31 + 0.5, 2.0 ** -20), (2.0 ** 31 + 0.5, 2.0 ** -18), (2.0 ** 40 + 0.25, 2.0 ** -10),
       (2.0 ** 40 + 0.25, 2.0 ** -7), (1700000000.5, 9.5367431640625e-07))


def layer_far():
    """short but legitimate intervals far from zero (duration well above the 1e-8 threshold, yet below 1e-14 / 1e-9 of the time values),
    saved with the DEFAULT minimumIntervalLength: nothing may be absorbed, dropped or rejected, every timestamp bit-identical"""
    for t, d in FAR:
        for lab in ("x", ""):
            tiers = (("I", "i", t - 1.0, t + 1.0, ((t - 1.0, t, "w"), (t, t + d, lab), (t + d, t + 1.0, "y")) if lab else
                      ((t - 1.0, t, "w"), (t + d, t + 1.0, "y"))),
                     ("P", "p", t - 1.0, t + 1.0, ((t, "u"), (t + d, "v"))))
            yield ("B", ("far", lab), (t - 1.0, t + 1.0, tiers), 1e-8)
            yield ("B", ("far-alone", lab), (t, t + d, (("I", "i", t, t + d, ((t, t + d, lab or "z"),)),)), 1e-8)


def layer_size(thorough):
    """the size axis of a file: many tiers (two-digit tier indices), many entries (two- and three-digit entry indices), long labels and
    names (hundreds / thousands of characters, dozens of lines, dozens of quote characters), texts of more than 8192 / 65536 characters"""
    def itier(name, n, lab=lambda i: "w%d" % i, gap=True):
        e = tuple((1.0 * i, 1.0 * i + (0.75 if gap else 1.0), lab(i)) for i in range(n))
        return ("I", name, 0.0, float(max(n, 1)), e)

    def ptier(name, n, lab=lambda i: "p%d" % i):
        return ("P", name, 0.0, float(max(n, 1)), tuple((i + 0.5, lab(i)) for i in range(n)))

    # many tiers
    for k in (9, 10, 11, 12, 25, 100) if thorough else (9, 10, 11, 25):
        tiers = tuple(itier("iv%d" % i, 3) if i % 2 == 0 else ptier("pt%d" % i, 2) for i in range(k))
        yield ("S", ("tiers", k), (0.0, 3.0, tuple((t[0], t[1], 0.0, 3.0, t[4]) for t in tiers)), 1e-8)
        only_i = tuple(itier("iv%d" % i, 2) for i in range(k))
        yield ("S", ("interval-tiers", k), (0.0, 2.0, tuple((t[0], t[1], 0.0, 2.0, t[4]) for t in only_i)), 1e-8)
    # many entries
    for n in (9, 10, 11, 12, 99, 100, 101, 257, 258, 400, 1000) if thorough else (10, 11, 100, 258, 400):
        for gap in (True, False):
            yield ("S", ("entries", n, gap), (0.0, float(n), (itier("i", n, gap=gap), ptier("p", n))), 1e-8)
    # long labels / names, many quotes, many lines
    q = '"'
    longs = [("quotes", q.join("w%d" % i for i in range(m + 1))) for m in (8, 9, 10, 30)] + \
            [("quote-pairs", " ".join(q + "w%d" % i + q for i in range(m))) for m in (4, 5, 16)] + \
            [("chars", "x" * m) for m in (255, 256, 300, 1000, 8191, 8192, 9000)] + \
            [("lines", "\n".join("line %d" % i for i in range(m))) for m in (10, 40)] + \
            [("unicode", "\u00e9\u4e2d" * m) for m in (200, 5000)]
    for kind, lab in longs:
        yield ("S", ("label", kind, len(lab)), skeleton(l1=lab, pm=lab), 1e-8)
        if "\n" not in lab:
            yield ("S", ("name", kind, len(lab)), skeleton(iname=lab, pname=lab + "2"), 1e-8)


def layer_structure(thorough):
    G = (0.0, 1.0, 2.0, 3.0)
    ivs = [()] + [((a, b, l),) for a, b in itertools.combinations(G, 2) for l in ("x", "")] + \
          [((0.0, 1.0, "x"), (1.0, 2.0, "y")), ((0.0, 1.0, ""), (2.0, 3.0, "y")), ((1.0, 2.0, "x"), (2.0, 3.0, "")),
           ((0.0, 1.0, "x"), (1.0, 2.0, ""), (2.0, 3.0, "z"))]
    pts = [(), ((1.0, "u"),), ((0.0, ""), (3.0, "v")), ((1.0, "u"), (1.0, "v2")), ((0.5, "a"), (1.5, ""), (2.5, "c"))]
    for iv in ivs:
        for pt in pts:
            for (ilo, ihi) in ((0.0, 3.0), (1.0, 2.0), (0.0, 4.0)):
                if iv and (iv[0][0] < ilo or iv[-1][1] > ihi):
                    continue
                for (glo, ghi) in ((0.0, 3.0), (0.0, 4.0)):
                    ti = ("I", "i", ilo, ihi, iv)
                    tp = ("P", "p", 0.0, 3.0, pt)
                    yield ("C", (), (glo, ghi, (ti, tp)), 1e-8)
                    yield ("C", (), (glo, ghi, (tp, ti)), 1e-8)
                    if len(iv) <= 1 and len(pt) <= 1:
                        # the same with the threshold switched off (minimumIntervalLength=None): what blank filling does to an EMPTY tier (one blank
                        # interval over the whole span) must not hang on the sliver pass
                        yield ("C", (), (glo, ghi, (ti, tp)), None)
                        yield ("C", (), (glo, ghi, (tp, ti)), None)
                    if thorough:
                        yield ("C", (), (glo, ghi, (ti, tp, ("I", "j", 0.0, 3.0, ((0.5, 2.5, "q"),)))), 1e-8)
                        yield ("C", (), (glo, ghi, (ti,)), 1e-8)


def layer_keywords():
    for kw in D.KEYWORDS:
        yield ("K", (kw, "ilabel1"), skeleton(l1=kw), 1e-8)
        yield ("K", (kw, "ilabel2"), skeleton(l2=kw), 1e-8)
        yield ("K", (kw, "plabel"), skeleton(pm=kw), 1e-8)
        yield ("K", (kw, "iname"), skeleton(iname=kw), 1e-8)
        yield ("K", (kw, "pname"), skeleton(pname=kw), 1e-8)
    # (the last four: lines of the long layout's FILE HEADER at the start of a continuation line of a label)
    for kw in ('a\n"IntervalTier"\nb', "a\nitem [2]:", 'a\ntext = "q" ', "a\nxmin = 5 ", "a\ntiers? <exists>\nb", "a\ntiers? <exists> ",
               'a\nFile type = "ooTextFile"\nb', 'a\nObject class = "TextGrid"\nb'):
        yield ("K", (kw, "ilabel1"), skeleton(l1=kw), 1e-8)
        yield ("K", (kw, "plabel"), skeleton(pm=kw), 1e-8)


# (the last two: the byte-order-mark character U+FEFF / ZERO WIDTH NO-BREAK SPACE and U+FFFE as ordinary text INSIDE a label)
# (first: text ending in / consisting of a backslash, and a backslash before a quote - the format knows no backslash escapes;
# then: NUL and another C0 control inside a label - in UTF-8 they are the bytes 00 and 01, which say nothing about the file's encoding; a Malayalam
# letter U+0D0A and U+0D05 before a line feed - in UTF-16 their bytes contain the pair 0D 0A although the text holds no CR LF)
UNICODE_FORMS = ("C:\\", "a\\", "\\", "x\\\"y", "ab\ufeffcd", "x\ufffe", "a\x00b", "x\x01y", "\u0d0a", "\u0d0a\u0d0a", "ab\u0d05\nq", "e\u0301", "a\u0303b", "\u1112\u1161\u11ab", "\u212b", "\u2126", "\ufb01", "\u00e9", "e\u0323\u0302", "x\u0301\u0301", "\U0001f600\u200d",
                 "I\u0307", "\u01c5", "\u00df", "\u1e9e", "A\u030a", "\u00c5")


LINE_BOUNDARY_CHARS = ("\x0b", "\x0c", "\x1c", "\x1d", "\x1e", "\x85", "\u2028", "\u2029")


def layer_unicode_forms():
    """labels and names that are not in Unicode normalisation form C / KC, that change under case folding, or that are canonically equivalent to
    another entry of this list: the text is kept code point for code point"""
    for u in UNICODE_FORMS:
        yield ("A", (u, "ilabel1"), skeleton(l1=u), 1e-8)
        yield ("A", (u, "plabel"), skeleton(pm=u), 1e-8)
        if "\n" not in u:      # (tier names are one-line fields, as in the labels layer)
            yield ("A", (u, "name"), skeleton(iname=u), 1e-8)
    for a, b in (("e\u0301", "\u00e9"), ("A\u030a", "\u00c5"), ("\u212b", "\u00c5"), ("I\u0307", "i\u0307")):
        yield ("A", (a + "|" + b, "both"), skeleton(l1=a, l2=b, iname=a, pname=b), 1e-8)
    # characters that str.splitlines() takes for line boundaries and the TextGrid format does not (vertical tab, form feed, the information
    # separators, NEL, LINE / PARAGRAPH SEPARATOR), and a character beyond the basic plane at the start of a label: all of them ordinary label text
    # label lines that look like syntax of the surrounding format or of Praat scripts: a line starting with "!" (Praat's comment character), "#", ";",
    # "//" - inside the quotes of a label they are text
    for u in ("wait\n! really?\nyes", "stop\n!", "a\n  !b", "!a", "x\n# y\nz", "x\n;y", "x\n// y", "x\n\"\"quoted line\"\"\ny"):
        yield ("A", (u, "ilabel1"), skeleton(l1=u), 1e-8)
        yield ("A", (u, "plabel"), skeleton(pm=u), 1e-8)
    for ch in LINE_BOUNDARY_CHARS + ("\U00020bb7",):
        # (at the START of a label most of them would be stripped as white space - that is the constructor's documented business, not the file's)
        for u in ("left" + ch + "right",) + ((ch + "x",) if not ch.isspace() else ()):
            yield ("A", (u, "ilabel1"), skeleton(l1=u), 1e-8)
            yield ("A", (u, "plabel"), skeleton(pm=u), 1e-8)


MUTATIONS = ("insert-interval", "insert-point", "delete-interval", "add-tier", "remove-tier", "rename-tier", "replace-tier")


RESIDUE_BLOCK = 32


def layer_residue(thorough):
    """a complete residue cycle of the TEXT LENGTH: the same small textgrid with one label of n characters for 8192 consecutive n, so that the
    length of the written text (in characters and, for the ASCII label, in bytes) passes through every residue modulo 8192 = io.DEFAULT_BUFFER_SIZE
    and hence modulo every smaller power of two - a writer or reader that works in blocks has its block boundary at every possible place once.
    thorough: also a two-byte character (bytes and characters disagree) and a cycle of 65536"""
    step = RESIDUE_BLOCK * (8 if os.environ.get("VERIF_CHILD") else 1)      # the child runs (python -O, process with a past) take every 8th block
    for c in ("x", "\u00e9") if thorough else ("x",):
        for start in range(8192, 16384, step):
            yield (c, start, RESIDUE_BLOCK, FMTS)
    if thorough:
        for start in range(65536, 131072, RESIDUE_BLOCK):
            yield ("x", start, RESIDUE_BLOCK, FMTS[1:3])


def check_residue(case):
    c, start, count, fmts = case
    d = scratch_dir()
    fn = os.path.join(d, "c01-residue.TextGrid")
    viols = []
    n_ops = 0
    ref = {}
    for fmt in fmts:
        for blanks in (True, False):
            build(skeleton(l1=c * 7)).save(fn, fmt, blanks, None, None, 1e-8, "silence")
            with open(fn, encoding="utf-8", newline="") as fd:
                ref[fmt, blanks] = fd.read()
            if ref[fmt, blanks].count(c * 7) != 1:
                raise AssertionError(f"the reference text for {fmt} does not contain the label exactly once")
    for n in range(start, start + count):
        tg = build(skeleton(l1=c * n))
        for fmt in fmts:
            for blanks in (True, False):
                st, r, _ = call(tg.save, fn, fmt, blanks, None, None, 1e-8, "silence")
                n_ops += 1
                cfg = f"a label of {n} x {c!r}, format={fmt} includeBlankSpaces={blanks}"
                if st == "exc":
                    viols.append(Viol("save-raised:" + type(r).__name__, f"{cfg}: save raised {r!r}"))
                    continue
                with open(fn, "rb") as fd:
                    raw = fd.read()
                exp = ref[fmt, blanks].replace(c * 7, c * n)
                if raw != exp.encode("utf-8"):
                    got = raw.decode("utf-8", "replace")
                    viols.append(Viol("file-differs-at-this-length", f"{cfg}: the file ({len(raw)} bytes) is not the text written for a 7-character label with the "
                                                                     f"label exchanged ({len(exp)} characters, {len(exp.encode('utf-8'))} bytes): {_firstdiff(exp, got)}"))
                    continue
                st, r, _ = call(_tgmod.openTextgrid, fn, True, "silence")
                n_ops += 1
                if st == "exc":
                    viols.append(Viol("open-raised:" + type(r).__name__, f"{cfg}: reopening the file ({len(raw)} bytes) raised {r!r}"))
                    continue
                labs = [[e[-1] for e in t.entries] for t in r.tiers]
                want = [[c * n, ""] + ["y", ""], ["z", "w"]] if False else None
                got_first = labs[0][0] if labs and labs[0] else None
                others = [x for t in labs for x in t if x != got_first]
                if got_first != c * n or [x for x in others if x] != ["y", "z", "w"]:
                    viols.append(Viol("roundtrip-mismatch", f"{cfg}: reopened labels are {[[x[:12] + ('...%d' % len(x) if len(x) > 12 else '') for x in t] for t in labs]}"))
        if len(viols) > 4:
            break
    return n_ops, "ok" if not viols else "!", (c, start), viols


def check_resave(case):
    """save -> mutate the SAME live textgrid -> save again: the second file must be what a freshly built textgrid with the
    same content writes (nothing about an earlier save may be remembered), and opening it must give the mutated content."""
    si, mi = case
    base = list(layer_structure(False))[si * 7 % 400][2]
    tg = build(base)
    d = scratch_dir()
    fn, fn2 = os.path.join(d, "c01r.TextGrid"), os.path.join(d, "c01r2.TextGrid")
    mut = MUTATIONS[mi]
    viols = []
    n = 0
    for fmt in FMTS:
        for blanks in (True, False):
            tg = build(base)
            call(tg.save, fn, fmt, blanks, None, None, 1e-8, "silence")
            call(_tgmod.openTextgrid, fn, True, "silence")
            names = list(tg.tierNames)
            it = next((nm for nm in names if tg.getTier(nm).tierType == "IntervalTier"), None)
            pt = next((nm for nm in names if tg.getTier(nm).tierType != "IntervalTier"), None)
            st = "ok"
            if mut == "insert-interval" and it:
                st = call(tg.getTier(it).insertEntry, (0.25, 0.5, "new"), "replace", "silence")[0]
            elif mut == "insert-point" and pt:
                st = call(tg.getTier(pt).insertEntry, (0.75, "np"), "replace", "silence")[0]
            elif mut == "delete-interval" and it and len(tg.getTier(it).entries):
                st = call(tg.getTier(it).deleteEntry, tg.getTier(it).entries[0])[0]
            elif mut == "add-tier":
                st = call(tg.addTier, PT("extra", [(0.5, "e")], tg.minTimestamp, tg.maxTimestamp), 0, "silence")[0]
            elif mut == "remove-tier" and len(names) > 1:
                st = call(tg.removeTier, names[0])[0]
            elif mut == "rename-tier":
                st = call(tg.renameTier, names[-1], "renamed")[0]
            elif mut == "replace-tier" and it:
                st = call(tg.replaceTier, it, IT(it, [(0.0, 0.5, "r")], tg.minTimestamp, tg.maxTimestamp), "silence")[0]
            else:
                continue
            if st != "ok":
                continue
            n += 3
            s1 = call(tg.save, fn, fmt, blanks, None, None, 1e-8, "silence")
            # a fresh textgrid with the same observable content
            fresh = Textgrid(tg.minTimestamp, tg.maxTimestamp)
            for t in tg.tiers:
                fresh.addTier((IT if t.tierType == "IntervalTier" else PT)(t.name, [tuple(e) for e in t.entries], t.minTimestamp, t.maxTimestamp),
                              reportingMode="silence")
            fresh.minTimestamp, fresh.maxTimestamp = tg.minTimestamp, tg.maxTimestamp
            s2 = call(fresh.save, fn2, fmt, blanks, None, None, 1e-8, "silence")
            if s1[0] != s2[0]:
                viols.append(Viol("resave-outcome", f"{mut}, {fmt}, blanks={blanks}: live save {s1[0]} {s1[1]!r}, fresh save {s2[0]} {s2[1]!r}  [{base}]"))
                continue
            if s1[0] == "ok":
                with open(fn, encoding="utf-8") as a, open(fn2, encoding="utf-8") as b:
                    ta, tb = a.read(), b.read()
                if ta != tb:
                    viols.append(Viol("stale-save", f"save, {mut}, save again ({fmt}, blanks={blanks}): the second file differs from what a fresh textgrid "
                                                    f"with the same content writes: {_firstdiff(ta, tb)}  [{base}]"))
    return n, "ok", (si % 7, mut), viols


def _snippet(case):
    tag, meta, (lo, hi, tiers), minlen = case
    lines = ["from praatio import textgrid", f"tg = textgrid.Textgrid({lo!r}, {hi!r})"]
    for kind, name, tlo, thi, entries in tiers:
        cls = "IntervalTier" if kind == "I" else "PointTier"
        lines.append(f"tg.addTier(textgrid.{cls}({name!r}, {list(entries)!r}, {tlo!r}, {thi!r}), reportingMode='silence')")
    lines += ["for fmt in ('short_textgrid', 'long_textgrid', 'json', 'textgrid_json'):",
              "    for blanks in (True, False):",
              f"        tg.save('/tmp/x.TextGrid', fmt, blanks, None, None, {minlen!r}, 'silence')",
              "        for incl in (True, False):",
              "            r = textgrid.openTextgrid('/tmp/x.TextGrid', incl, 'silence')",
              "            print(fmt, blanks, incl, [(t.name, t.minTimestamp, t.maxTimestamp, t.entries) for t in r.tiers])"]
    return "\n".join(lines) + "\n"


def residue_part(quick):
    return InputPart("text-length-residue-cycle", lambda: layer_residue(not quick), check_residue,
                     rule="one small textgrid with a label of n characters for EVERY n in 8192 .. 16383 (thorough: also with a two-byte character, and every n in "
                          "65536 .. 131071 for two formats): the length of the written text passes through every residue modulo 8192 (and modulo every smaller "
                          "power of two; thorough: modulo 65536), in each format x includeBlankSpaces: the file is byte for byte the text written for a short label "
                          "with the label exchanged, and reopens to the same labels", bounds={"cycle": 8192, "lengths_per_case": RESIDUE_BLOCK}, chunk=1)


def parts(tier):
    quick = tier == "quick"
    L = 4 if quick else 6
    ps = [
        InputPart("labels", lambda: layer_labels(L, 0 if quick else 3), check,
                  rule="every string over {a,\",\\n,=,1,space,e-acute} up to length %d (strip-normalised, de-duplicated) in each of 4 "
                       "positions%s; each case = 16 format/flag configurations saved, reopened, compared and re-saved; non-trivial = "
                       "distinct (label, position)" % (L, "" if quick else " + all ordered pairs of labels up to length 3 in adjacent entries"),
                  bounds={"label_length": L, "alphabet": list(D.SIGMA)}, snippet=_snippet, chunk=8),
        InputPart("numbers", lambda: layer_numbers(D.NUM_QUICK if quick else D.num_thorough()), check,
                  rule="every ordered pair of NUM (%d values: 0, 1e-17 .. 1e15, near-integers, 1 ulp neighbours, 17-digit decimals) as "
                       "interval/points/tier span/file span and inside a [0,1e15] file; minimumIntervalLength=None (slivers are C04's "
                       "subject)" % len(D.NUM_QUICK if quick else D.num_thorough()),
                  bounds={"numbers": len(D.NUM_QUICK if quick else D.num_thorough())}, snippet=_snippet, chunk=8),
        InputPart("numbers-far-from-zero", layer_far, check,
                  rule="%d (time, duration) pairs with the time at 8e6 .. 1.1e12 s and a duration of 1e-7 .. 8e-3 s (above the 1e-8 threshold but below "
                       "1e-14 or 1e-9 of the time value), as a labelled / unlabelled stretch between two ordinary intervals and as the only entry, "
                       "saved with the default minimumIntervalLength in all 16 configurations" % len(FAR), bounds={}, snippet=_snippet, chunk=1),
        InputPart("default-encoding-environment", lambda: envcheck.env_cases(quick), envcheck.check_env,
                  rule="the library run in a child process whose locale-dependent default text encoding is ASCII (LC_ALL=C, PYTHONUTF8=0, "
                       "PYTHONCOERCECLOCALE=0) and in one where it is UTF-8: save x 4 formats x blank filling x non-ASCII text as interval label / point mark / "
                       "tier name: the save succeeds, the bytes are UTF-8 and decode (independent decoder) to the in-memory content, the library reads them back",
                  bounds={"environments": 2}, chunk=1),
        InputPart("size", lambda: layer_size(not quick), check,
                  rule="the size axis: 9-25 (thorough 100) tiers; tiers of 10-400 (thorough 1000) entries, with and without gaps; labels and names with 8-30 quote "
                       "characters, 255-9000 characters, 10-40 lines, 400-10000 non-ASCII characters (texts longer than 8192 and 65536 characters) - each in "
                       "all 16 format / flag configurations", bounds={}, snippet=_snippet, chunk=1),
        InputPart("structure", lambda: layer_structure(not quick), check,
                  rule="all combinations of interval lists (0-3 entries incl. empty labels) x point lists x tier spans "
                       "(equal/narrower/wider than the file's) x file spans x tier order%s; non-trivial = distinct shape"
                       % ("" if quick else " x 1-3 tiers"), bounds={}, snippet=_snippet, chunk=8),
        InputPart("resave-after-mutation", lambda: ((si, mi) for si in range(12 if quick else 40) for mi in range(len(MUTATIONS))), check_resave,
                  rule="save, open, mutate the SAME live textgrid (%d mutations), save again x 4 formats x includeBlankSpaces: the second file equals "
                       "what a freshly built textgrid with the same content writes" % len(MUTATIONS), bounds={}, chunk=2),
        residue_part(quick),
        InputPart("labels-unicode-forms", layer_unicode_forms, check,
                  rule="%d strings that are not in Unicode normalisation form C / KC (base letter + combining mark, conjoining jamo, ANGSTROM / OHM sign, "
                       "ligatures), that change under case folding, and pairs that are canonically equivalent to each other, as labels and tier names: "
                       "kept code point for code point; equivalent names stay two tiers" % len(UNICODE_FORMS), bounds={}, snippet=_snippet, chunk=2),
        InputPart("keywords", layer_keywords, check,
                  rule="the formats' own keywords (%d) as first/second interval label, point mark, interval-tier name, point-tier name; "
                       "failures of the content-sniffing text readers on these are matched against known_findings.json" % len(D.KEYWORDS),
                  bounds={}, snippet=_snippet, chunk=4),
    ]
    return ps
