"""C02 - written TextGrid files are well-formed and all four formats say the same.

Enumerated: the C01 layers (labels, numbers, structure) plus the keyword layer in labels AND names, x 4 formats x
includeBlankSpaces x span overrides {none, min below, max above, both}.  Every written file is decoded by the
independent spec-based reader mc/models/praatfmt.py (tokenizer + grammar with size and end-of-input checks), checked
line by line against the documented layout, compared with the in-memory textgrid, checked for the partition property
when blank filling is on, and the four decodings are compared with each other.
"""
import os

from mc import domains as D
from mc.props import envcheck
from mc.engine import InputPart, Viol
from mc.models import praatfmt
from mc.props import c01
from mc.props.common import call, scratch_dir

FMTS = c01.FMTS
OVERRIDES = ("none", "min-below", "max-above", "both", "narrow-min", "narrow-max")


def expected(tg, blanks, fmin, fmax):
    """What the file must encode: tiers with their in-memory spans; interval tiers filled to the file span if blanks."""
    out = []
    for t in tg.tiers:
        E = [tuple(e) for e in t.entries]
        if t.tierType == "IntervalTier" and blanks:
            W, cur = [], fmin
            for s, e, l in E:
                if s > cur:
                    W.append((cur, s, ""))
                W.append((s, e, l))
                cur = e
            if cur < fmax:
                W.append((cur, fmax, ""))
            if not E:
                W = [(fmin, fmax, "")]
            E = W
        out.append((t.tierType, t.name, t.minTimestamp, t.maxTimestamp, E))
    return out


def check(case):
    tag, meta, case_tg, minlen = case
    tg = c01.build(case_tg)
    fn = os.path.join(scratch_dir(), "c02.TextGrid")
    viols = []
    n = 0
    oc = []
    for ov in OVERRIDES:
        omin = tg.minTimestamp - 1.0 if ov in ("min-below", "both") else None
        omax = tg.maxTimestamp + 1.0 if ov in ("max-above", "both") else None
        if ov.startswith("narrow"):
            # a legal narrowing override: inside the unlabelled stretch before the first / after the last entry of any tier
            times = [v for t in tg.tiers for e in t.entries for v in e[:-1]]
            if not times:
                continue
            if ov == "narrow-min":
                if not min(times) > tg.minTimestamp:
                    continue
                omin = (tg.minTimestamp + min(times)) / 2
            else:
                if not max(times) < tg.maxTimestamp:
                    continue
                omax = (tg.maxTimestamp + max(times)) / 2
        fmin = tg.minTimestamp if omin is None else omin
        fmax = tg.maxTimestamp if omax is None else omax
        for blanks in (True, False):
            decoded = {}
            exp = expected(tg, blanks, fmin, fmax)
            for fmt in FMTS:
                n += 1
                cfg = f"save(format={fmt}, includeBlankSpaces={blanks}, override={ov})"
                st, r, _ = call(tg.save, fn, fmt, blanks, omin, omax, minlen, "silence")
                if st == "exc":
                    viols.append(Viol("save-raised:" + type(r).__name__, f"{cfg} of {case_tg} raised {r!r}"))
                    continue
                with open(fn, "rb") as fd:
                    raw = fd.read()
                try:
                    text = raw.decode("utf-8")
                except UnicodeDecodeError as e:
                    viols.append(Viol("not-utf8", f"{cfg}: {e}"))
                    continue
                try:
                    d = praatfmt.decode(text, fmt)
                except praatfmt.FormatError as e:
                    viols.append(Viol("independent-reader-rejects", f"{cfg}: {e}   [textgrid {case_tg}]"))
                    oc.append("X")
                    continue
                if fmt == "long_textgrid":
                    m = praatfmt.check_long_layout(text)
                elif fmt == "short_textgrid":
                    m = praatfmt.check_short_layout(text)
                else:
                    m = None
                if m:
                    viols.append(Viol("layout", f"{cfg}: {m}   [textgrid {case_tg}]"))
                msg = _compare(d, exp, fmin, fmax, fmt)
                if msg is None and blanks:
                    msg = _partition(d)
                if msg:
                    viols.append(Viol("file-content", f"{cfg}: {msg}   [textgrid {case_tg}]"))
                    oc.append("!")
                else:
                    oc.append("=")
                decoded[fmt] = d
            if len(decoded) == 4:
                for fmt in ("long_textgrid", "short_textgrid"):
                    m = _same(decoded[fmt], decoded["textgrid_json"], False)
                    if m:
                        viols.append(Viol("formats-disagree", f"{fmt} and textgrid_json decode differently (blanks={blanks}, override={ov}): {m}  [{case_tg}]"))
                m = _same(decoded["json"], decoded["textgrid_json"], True)
                if m:
                    viols.append(Viol("formats-disagree", f"json and textgrid_json decode differently (blanks={blanks}, override={ov}): {m}  [{case_tg}]"))
    return n, "".join(oc), (tag, meta) if tag != "C" else (tag, c01._shape(case_tg)), viols


def _neq(x, y):
    """numbers written by different formats agree: identical, or one is the integer the other is within 1e-14 of"""
    if x == y:
        return True
    return (float(x).is_integer() or float(y).is_integer()) and abs(x - y) <= 1e-14 * max(abs(x), abs(y))


def _same(d1, d2, drop_spans):
    if not (_neq(d1["xmin"], d2["xmin"]) and _neq(d1["xmax"], d2["xmax"])):
        return "file spans differ"
    if len(d1["tiers"]) != len(d2["tiers"]):
        return "tier counts differ"
    for t1, t2 in zip(d1["tiers"], d2["tiers"]):
        if (t1["class"], t1["name"]) != (t2["class"], t2["name"]):
            return f"tier {t1['name']!r} vs {t2['name']!r}"
        if not drop_spans and not (_neq(t1["xmin"], t2["xmin"]) and _neq(t1["xmax"], t2["xmax"])):
            return f"tier {t1['name']!r}: spans differ"
        if len(t1["entries"]) != len(t2["entries"]):
            return f"tier {t1['name']!r}: entry counts differ"
        for a, b in zip(t1["entries"], t2["entries"]):
            if a[-1] != b[-1] or not all(_neq(x, y) for x, y in zip(a[:-1], b[:-1])):
                return f"tier {t1['name']!r}: entry {a!r} vs {b!r}"
    return None


def _compare(d, exp, fmin, fmax, fmt):
    teq = c01.teq
    if not (teq(fmin, d["xmin"]) and teq(fmax, d["xmax"])):
        return f"file span ({d['xmin']!r},{d['xmax']!r}) != ({fmin!r},{fmax!r})"
    if len(d["tiers"]) != len(exp):
        return f"{len(d['tiers'])} tiers in the file, {len(exp)} in memory"
    for t, (ty, nm, tlo, thi, E) in zip(d["tiers"], exp):
        if t["class"] != ty:
            return f"tier {nm!r}: class {t['class']!r} != {ty!r}"
        if t["name"] != nm:
            return f"tier name {t['name']!r} != {nm!r}"
        if fmt == "json":
            tlo, thi = fmin, fmax
        if not (teq(tlo, t["xmin"]) and teq(thi, t["xmax"])):
            return f"tier {nm!r}: span ({t['xmin']!r},{t['xmax']!r}) != ({tlo!r},{thi!r})"
        if len(t["entries"]) != len(E):
            return f"tier {nm!r}: {len(t['entries'])} entries in the file, expected {len(E)}: {t['entries']!r} vs {E!r}"
        for a, b in zip(t["entries"], E):
            if a[-1] != b[-1]:
                return f"tier {nm!r}: label {a[-1]!r} != {b[-1]!r}"
            for x, y in zip(a[:-1], b[:-1]):
                if not teq(y, x):
                    return f"tier {nm!r}: time {x!r} != {y!r}"
    return None


def _partition(d):
    for t in d["tiers"]:
        if t["class"] != "IntervalTier":
            continue
        E = t["entries"]
        if not E:
            return f"tier {t['name']!r}: no intervals although blank filling is on"
        if E[0][0] != d["xmin"]:
            return f"tier {t['name']!r}: first interval starts at {E[0][0]!r}, file xmin is {d['xmin']!r}"
        if E[-1][1] != d["xmax"]:
            return f"tier {t['name']!r}: last interval ends at {E[-1][1]!r}, file xmax is {d['xmax']!r}"
        for e in E:
            if not e[0] < e[1]:
                return f"tier {t['name']!r}: interval {e!r} has no positive length"
        for a, b in zip(E, E[1:]):
            if a[1] != b[0]:
                return f"tier {t['name']!r}: {'gap' if a[1] < b[0] else 'overlap'} between {a!r} and {b!r}"
    return None


ABSORB_LENGTHS = (0.3, 0.75, 1.5)


def layer_absorb(thorough):
    for tag, meta, case_tg, _ in c01.layer_structure(thorough):
        for minlen in ABSORB_LENGTHS:
            yield ("C", meta, case_tg, minlen)


FINE = (0.0, 0.25, 1.0, 2.0, 2.25, 3.0)


def layer_absorb_fine(thorough):
    """tiers in which sub-threshold intervals occur in several places at once (0.25-long labelled slivers and 0.25-long gaps at the start, in
    the middle and at the end, with ordinary intervals between them): all sets of <= 3 (thorough 4) non-overlapping labelled intervals on FINE"""
    import itertools
    ivs = list(itertools.combinations(FINE, 2))
    for k in range(1, 5 if thorough else 4):
        for combo in itertools.combinations(ivs, k):
            if all(combo[i][1] <= combo[i + 1][0] for i in range(k - 1)):
                E = tuple((a, b, "L%d" % i) for i, (a, b) in enumerate(combo))
                for minlen in (0.3,) if not thorough else (0.3, 0.8):
                    yield ("C", ("fine", k), (0.0, 3.0, (("I", "i", 0.0, 3.0, E),)), minlen)


def check_absorb(case):
    """A non-default (large) minimumIntervalLength together with span overrides: whatever is absorbed, every interval tier of the written
    file still tiles exactly the file's [xmin, xmax] with positive-length intervals, the file span is the requested one, the labelled
    intervals that remain are the tier's own in order, and the four formats agree."""
    tag, meta, case_tg, minlen = case
    tg = c01.build(case_tg)
    fn = os.path.join(scratch_dir(), "c02a.TextGrid")
    viols, n, oc = [], 0, []
    times = [v for t in tg.tiers for e in t.entries for v in e[:-1]]
    menu = [("none", None, None), ("min-below", tg.minTimestamp - 1.0, None), ("max-above", None, tg.maxTimestamp + 1.0),
            ("both", tg.minTimestamp - 1.0, tg.maxTimestamp + 1.0), ("min-just-below", tg.minTimestamp - 0.25, None),
            ("max-just-above", None, tg.maxTimestamp + 0.25)]
    if times and min(times) > tg.minTimestamp:
        menu.append(("narrow-min-half", (tg.minTimestamp + min(times)) / 2, None))
        menu.append(("narrow-min-close", min(times) - 0.125, None))
    if times and max(times) < tg.maxTimestamp:
        menu.append(("narrow-max-half", None, (tg.maxTimestamp + max(times)) / 2))
        menu.append(("narrow-max-close", None, max(times) + 0.125))
    for ov, omin, omax in menu:
        fmin = tg.minTimestamp if omin is None else omin
        fmax = tg.maxTimestamp if omax is None else omax
        if fmax - fmin < minlen:
            continue    # a file shorter than the threshold cannot both be tiled and hold no interval shorter than the threshold
        decoded = {}
        for fmt in FMTS:
            n += 1
            cfg = f"save(format={fmt}, includeBlankSpaces=True, minTimestamp={omin}, maxTimestamp={omax}, minimumIntervalLength={minlen})"
            st, r, _ = call(tg.save, fn, fmt, True, omin, omax, minlen, "silence")
            if st == "exc":
                viols.append(Viol("save-raised:" + type(r).__name__, f"{cfg} of {case_tg} raised {r!r}"))
                continue
            with open(fn, encoding="utf-8") as fd:
                text = fd.read()
            try:
                d = praatfmt.decode(text, fmt)
            except praatfmt.FormatError as e:
                viols.append(Viol("independent-reader-rejects", f"{cfg}: {e}   [textgrid {case_tg}]"))
                continue
            msg = None
            if not (c01.teq(fmin, d["xmin"]) and c01.teq(fmax, d["xmax"])):
                msg = f"file span ({d['xmin']!r},{d['xmax']!r}) != ({fmin!r},{fmax!r})"
            msg = msg or _partition(d)
            if msg is None:
                for t, src in zip(d["tiers"], tg.tiers):
                    if t["class"] != "IntervalTier":
                        continue
                    have = [tuple(e) for e in t["entries"] if e[-1] != ""]
                    want = [tuple(e) for e in src.entries if e[-1] != ""]
                    it = iter(want)
                    for h in have:   # what remains labelled is a subsequence of the tier's labelled entries, each grown (never shrunk) over absorbed neighbours
                        for w in it:
                            if w[-1] == h[-1] and h[0] <= w[0] and w[1] <= h[1]:
                                break
                        else:
                            msg = f"tier {t['name']!r}: labelled interval {h!r} in the file is not one of the tier's {want!r} (possibly grown over absorbed neighbours)"
                            break
                    long_enough = [w for w in want if w[1] - w[0] >= minlen]
                    if msg is None and [w[-1] for w in long_enough] != [h[-1] for h in have if any(h[-1] == w[-1] for w in long_enough)][:len(long_enough)] \
                            and not all(any(h[-1] == w[-1] for h in have) for w in long_enough):
                        msg = f"tier {t['name']!r}: a labelled interval of length >= {minlen} is missing from the file: tier {want!r}, file {have!r}"
            if msg:
                viols.append(Viol("file-content", f"{cfg}: {msg}   [textgrid {case_tg}]"))
                oc.append("!")
            else:
                oc.append("=")
            decoded[fmt] = d
        if len(decoded) == 4:
            for fmt in ("long_textgrid", "short_textgrid"):
                m = _same(decoded[fmt], decoded["textgrid_json"], False)
                if m:
                    viols.append(Viol("formats-disagree", f"{fmt} and textgrid_json decode differently (override={ov}, minimumIntervalLength={minlen}): {m}  [{case_tg}]"))
            m = _same(decoded["json"], decoded["textgrid_json"], True)
            if m:
                viols.append(Viol("formats-disagree", f"json and textgrid_json decode differently (override={ov}, minimumIntervalLength={minlen}): {m}  [{case_tg}]"))
    return n, "".join(sorted(set(oc))), (c01._shape(case_tg), minlen), viols


def check_shared(case):
    """two textgrids that hold the SAME tier object; a mutator on the first; the second is written: the file carries the second textgrid's
    names, order and content (what tg2.tierNames / getTier say), in every format"""
    mut, fmt, blanks = case
    from mc.props.common import IT as _IT, PT as _PT, Textgrid as _TG
    shared = _IT("phones", [(0.0, 1.0, "a"), (1.5, 2.0, "b")], 0.0, 3.0)
    other = _PT("clicks", [(1.0, "c")], 0.0, 3.0)
    tg1, tg2 = _TG(0.0, 3.0), _TG(0.0, 3.0)
    tg1.addTier(shared)
    tg1.addTier(_IT("words", [(0.0, 2.0, "w")], 0.0, 3.0))
    tg2.addTier(shared)
    tg2.addTier(_IT("segments", [(2.0, 3.0, "s")], 0.0, 3.0))
    tg2.addTier(other)
    if mut == "rename-to-new":
        call(tg1.renameTier, "phones", "renamed")
    elif mut == "rename-to-name-in-tg2":
        call(tg1.renameTier, "phones", "segments")
    elif mut == "replace":
        call(tg1.replaceTier, "phones", _IT("phones", [(0.0, 3.0, "z")], 0.0, 3.0), "silence")
    elif mut == "remove":
        call(tg1.removeTier, "phones")
    elif mut == "shift":
        call(tg1.editTimestamps, 0.5, "silence")
    elif mut == "merge":
        call(tg1.mergeTiers)
    names = list(tg2.tierNames)
    want = [(nm, [tuple(e) for e in tg2.getTier(nm).entries]) for nm in names]
    fn = os.path.join(scratch_dir(), "c02-shared.TextGrid")
    st, r, _ = call(tg2.save, fn, fmt, blanks, None, None, None, "silence")
    tag = f"tg1 and tg2 share the tier object 'phones'; after tg1 {mut}: tg2.save({fmt}, includeBlankSpaces={blanks})"
    if st == "exc":
        return 1, "X", None, [Viol("save-raised:" + type(r).__name__, f"{tag}: {r!r}")]
    with open(fn, encoding="utf-8") as fd:
        text = fd.read()
    try:
        dec = praatfmt.decode(text, fmt)
    except praatfmt.FormatError as e:
        return 1, "!", None, [Viol("independent-reader-rejects", f"{tag}: {e}")]
    got = [(t["name"], [tuple(e) for e in t["entries"] if e[-1] != ""]) for t in dec["tiers"]]
    viols = []
    if got != want:
        viols.append(Viol("file-differs-from-textgrid", f"{tag}: the file holds {got}; tg2 holds {want}"))
    return 1, "ok", (mut, fmt), viols


def layer_keywords_everywhere():
    for kw in D.KEYWORDS + ('a\n"IntervalTier"\nb', "a\nitem [2]:", 'q"', '""'):
        yield ("K", (kw, "ilabel1"), c01.skeleton(l1=kw), 1e-8)
        yield ("K", (kw, "ilabel2"), c01.skeleton(l2=kw), 1e-8)
        yield ("K", (kw, "plabel"), c01.skeleton(pm=kw), 1e-8)
        if "\n" not in kw:
            yield ("K", (kw, "iname"), c01.skeleton(iname=kw), 1e-8)
            yield ("K", (kw, "pname"), c01.skeleton(pname=kw), 1e-8)
            yield ("K", (kw, "all"), c01.skeleton(kw, kw, kw, kw, kw + "2"), 1e-8)


UNENCODABLE = ("caf\ud83d", "\udc80x", "a\udfffb")      # lone surrogates: a Python str can hold them (json.loads of a broken escape, surrogateescape), UTF-8 cannot


def check_unencodable(case):
    """text that the file's encoding cannot represent: save() either refuses, or writes a file that says what the textgrid says - it never writes
    something else in its place"""
    lab, pos, fmt, blanks = case
    from praatio import textgrid as _tgmod
    sk = c01.skeleton(l1=lab) if pos == "ilabel" else c01.skeleton(pm=lab) if pos == "plabel" else c01.skeleton(iname=lab)
    tg = c01.build(sk)
    fn = os.path.join(scratch_dir(), "c02-unencodable.TextGrid")
    if os.path.exists(fn):
        os.remove(fn)
    st, r, _ = call(tg.save, fn, fmt, blanks, None, None, 1e-8, "silence")
    if st == "exc":
        return 1, "refused", (pos, fmt), []
    st2, back, _ = call(_tgmod.openTextgrid, fn, True, "silence")
    if st2 == "exc":
        return 2, "!", None, [Viol("unencodable-text-written-as-something-else", f"save({fmt}, includeBlankSpaces={blanks}) of a textgrid whose {pos} is {lab!r} returned "
                                                                                f"normally, but the file cannot be opened: {back!r}")]
    texts = [t.name for t in back.tiers] + [e[-1] for t in back.tiers for e in t.entries]
    if lab not in texts:
        return 2, "!", None, [Viol("unencodable-text-written-as-something-else", f"save({fmt}, includeBlankSpaces={blanks}) of a textgrid whose {pos} is {lab!r} returned "
                                                                                f"normally; the file says {[x for x in texts if x not in ('y', 'z', 'w', 't', 'p', '')]!r} instead")]
    return 2, "written", (pos, fmt), []


def parts(tier):
    quick = tier == "quick"
    L = 3 if quick else 5
    NUM = D.NUM_QUICK if quick else D.num_thorough()
    return [
        InputPart("labels", lambda: c01.layer_labels(L, 0 if quick else 2), check,
                  rule="every label over the 7-symbol alphabet up to length %d in 4 positions; each case = 6 overrides (none, widening min/max/both, narrowing min/max into unlabelled edge stretches) x "
                       "includeBlankSpaces x 4 formats written and decoded independently" % L,
                  bounds={"label_length": L}, snippet=c01._snippet, chunk=8),
        InputPart("numbers", lambda: c01.layer_numbers(NUM), check,
                  rule="every ordered pair of the %d NUM values as entry times / spans (minimumIntervalLength=None)" % len(NUM),
                  bounds={"numbers": len(NUM)}, snippet=c01._snippet, chunk=8),
        InputPart("default-encoding-environment", lambda: envcheck.env_cases(quick), envcheck.check_env,
                  rule="the library run in a child process whose locale-dependent default text encoding is ASCII (LC_ALL=C, PYTHONUTF8=0, "
                       "PYTHONCOERCECLOCALE=0) and in one where it is UTF-8: save x 4 formats x blank filling x non-ASCII text as interval label / point mark / "
                       "tier name: the save succeeds, the bytes are UTF-8 and decode (independent decoder) to the in-memory content, the library reads them back",
                  bounds={"environments": 2}, chunk=1),
        InputPart("shared-tier-objects", lambda: ((m, f, b) for m in ("none", "rename-to-new", "rename-to-name-in-tg2", "replace", "remove", "shift", "merge")
                                                  for f in FMTS for b in (True, False)), check_shared,
                  rule="two textgrids holding the same tier object x 6 mutators applied to the first x the second written in 4 formats x blank filling: the "
                       "file carries the second textgrid's own names, order and entries", bounds={}),
        InputPart("size", lambda: c01.layer_size(not quick), check,
                  rule="the size axis (shared with C01): 9-25 (thorough 100) tiers; tiers of 10-400 (thorough 1000) entries; labels and names with 8-30 quote "
                       "characters, 255-9000 characters, 10-40 lines, thousands of non-ASCII characters: the written text is well-formed in every "
                       "character (texts longer than 8192 and 65536 characters), all formats agree", bounds={}, snippet=c01._snippet, chunk=1),
        InputPart("structure", lambda: c01.layer_structure(not quick), check,
                  rule="all small structures (0-3 entries, empty labels, tier spans narrower/wider than the file span, tier order)",
                  bounds={}, snippet=c01._snippet, chunk=8),
        InputPart("partition-under-absorption", lambda: layer_absorb(not quick), check_absorb,
                  rule="all small structures x minimumIntervalLength in %s x up to 10 span overrides (none, widening by 1 and by 0.25, narrowing to "
                       "half and to 0.125 before / after the outermost entry) x 4 formats, blank filling on: interval tiers tile the file span "
                       "with positive-length intervals, the span is the requested one, surviving labelled intervals are the tier's own in order, "
                       "formats agree" % (ABSORB_LENGTHS,), bounds={"lengths": len(ABSORB_LENGTHS)}, snippet=c01._snippet, chunk=8),
        InputPart("partition-under-absorption-several-slivers", lambda: layer_absorb_fine(not quick), check_absorb,
                  rule="all sets of <= 3 (thorough 4) labelled intervals on the grid %s, threshold 0.3 (thorough also 0.8): sub-threshold intervals and "
                       "gaps at the start, in the middle and at the end of one tier at the same time x the same overrides and oracles" % (FINE,),
                  bounds={"grid": len(FINE)}, snippet=c01._snippet, chunk=8),
        InputPart("text-the-encoding-cannot-represent", lambda: ((lab, pos, fmt, b) for lab in UNENCODABLE for pos in ("ilabel", "plabel", "name")
                                                               for fmt in ("short_textgrid", "long_textgrid", "json", "textgrid_json") for b in (True, False)),
                  check_unencodable,
                  rule="labels and tier names holding a lone surrogate (text UTF-8 cannot encode) x 4 formats x includeBlankSpaces: save() raises, or the file it "
                       "writes opens to the same text - never to other text", bounds={}, chunk=4),
        c01.residue_part(quick),
        InputPart("labels-unicode-forms", c01.layer_unicode_forms, check,
                  rule="the %d non-NFC / case-folding-sensitive / canonically equivalent strings of C01 as labels and tier names: written code point for "
                       "code point in all four formats" % len(c01.UNICODE_FORMS), bounds={}, snippet=c01._snippet, chunk=2),
        InputPart("keywords", layer_keywords_everywhere, check,
                  rule="the formats' own keywords in every label and name position, and in all positions at once: the WRITER must "
                       "stay well-formed for the independent reader (the known reader findings of C01/C03 do not apply here)",
                  bounds={"keywords": len(D.KEYWORDS) + 4}, snippet=c01._snippet, chunk=4),
    ]
