"""C20 - numeric series helpers match their textbook definitions.

Enumerated: all series over {1, 2, 2, 5, 9.5} of length 0-5/6 x window 0-8 x padding for medianFilter (and through
filterTimeSeriesData: rows and other columns untouched); z-normalisation over all non-constant series of length 2-5; rms;
getPitchMeasures over {0, 0.0, 0.5, 100, 120.5, -3}^<=4 x zero-filter x median window; detectPitchErrors over
{50, 75.5, 100, 140, 200}^<=4 x thresholds (exact ties at the threshold: either answer); loadTimeSeriesData over all 2-row
listings x header x undefinedValue.
"""
import itertools
import math
import os
import statistics

from mc.engine import InputPart, Viol
from mc.props.common import call, scratch_dir, Textgrid, IT
from praatio import pitch_and_intensity as pi
from praatio.utilities import my_math

VALS = (1, 2, 2, 5, 9.5)


def median_model(seq, w, pad):
    n = len(seq)
    off = w // 2
    out = []
    for i in range(n):
        if pad:
            win = [seq[min(max(j, 0), n - 1)] for j in range(i - off, i + off + 1)]
            out.append(statistics.median(win))
        elif i - off >= 0 and i + off < n:
            out.append(statistics.median(seq[i - off:i + off + 1]))
        else:
            out.append(seq[i])
    return out


def _check_median(case):
    seq = list(case)
    n = len(seq)
    viols = []
    cnt = 0
    for w in range(0, 9):
        for pad in (True, False):
            cnt += 1
            st, r, _ = call(my_math.medianFilter, list(seq), w, pad)
            exp = median_model(seq, w, pad)
            if st == "exc" or r != exp or len(r) != n:
                viols.append(Viol("medianFilter", f"medianFilter({seq}, {w}, {pad}) = {r!r}, definition gives {exp}"))
                continue
            if n:
                cnt += 1
                rows = [(i * 0.5, "k%d" % i, v, -v) for i, v in enumerate(seq)]
                # the rows in several FORMS: list of tuples, tuple of lists, a generator of tuples (walkable once)
                for form, arg in (("list of tuples", [tuple(x) for x in rows]), ("tuple of lists", tuple(list(x) for x in rows)),
                                  ("generator", (tuple(x) for x in rows))):
                    if form != "list of tuples" and (w + pad + n) % 3:
                        continue
                    st, r2, _ = call(my_math.filterTimeSeriesData, my_math.medianFilter, arg, w, 2, pad)
                    if st == "exc" or [tuple(x) for x in r2] != [(a, b, e, d) for (a, b, _, d), e in zip(rows, exp)]:
                        viols.append(Viol("filterTimeSeriesData", f"filterTimeSeriesData(medianFilter, <{form}> {rows}, {w}, 2, {pad}) = {r2!r}; rows, order "
                                                                  f"and the other columns must be untouched and column 2 filtered to {exp}"))
                        break
    if seq != list(case):
        viols.append(Viol("medianFilter-mutated-input", f"{case}"))
    return cnt, "ok", (tuple(case),), viols


def _check_znorm(case):
    seq = list(case)
    st, r, _ = call(my_math.znormalizeData, list(seq))
    if st == "exc":
        return 1, "X", None, [Viol("znormalizeData-raised", f"{seq}: {r!r}")]
    viols = []
    n = len(seq)
    if len(r) != n or abs(statistics.mean(r)) > 1e-9 or abs(statistics.stdev(r) - 1) > 1e-9:
        viols.append(Viol("znormalizeData", f"{seq} -> {r}: length/mean/sample standard deviation are not n/0/1"))
    elif any((a < b) != (x < y) or (a == b) != (x == y) for (a, x), (b, y) in itertools.combinations(zip(seq, r), 2)):
        viols.append(Viol("znormalizeData-order", f"{seq} -> {r}: rank order changed"))
    m, sd = statistics.mean(seq), statistics.stdev(seq)
    if not viols and any(not math.isclose(x, (v - m) / sd, abs_tol=1e-9) for v, x in zip(seq, r)):
        viols.append(Viol("znormalizeData-values", f"{seq} -> {r}"))
    # rms
    st, q, _ = call(my_math.rms, list(seq))
    if st == "exc" or not math.isclose(q, math.sqrt(sum(v * v for v in seq) / n), rel_tol=1e-12):
        viols.append(Viol("rms", f"rms({seq}) = {q!r}"))
    # speaker normalisation over rows keeps rows and order
    rows = [(i * 0.1, v, 7) for i, v in enumerate(seq)]
    st, z, _ = call(my_math.znormalizeSpeakerData, list(rows), 1, False)
    if st == "exc" or len(z) != n or any(a[0] != b[0] or a[2] != b[2] for a, b in zip(z, rows)) or \
            any(not math.isclose(a[1], x, abs_tol=1e-9) for a, x in zip(z, r)):
        viols.append(Viol("znormalizeSpeakerData", f"{rows} -> {z!r}"))
    return 3, "ok", (tuple(seq),), viols


def _check_pitch(case):
    seq = list(case)
    viols = []
    cnt = 0
    for fz in (False, True):
        for w in (None, 3, 5):
            cnt += 1
            st, r, _ = call(pi.getPitchMeasures, list(seq), "n", "l", w, fz)
            if st == "exc":
                viols.append(Viol("getPitchMeasures-raised", f"getPitchMeasures({seq}, window={w}, filterZero={fz}): {r!r}"))
                continue
            v = list(seq)
            if w:
                v = median_model(v, w, True)
            if fz:
                v = [x for x in v if x != 0]
            if not v:
                exp = (0, 0, 0, 0, 0, 0)
            else:
                m = sum(v) / len(v)
                var = sum((x - m) ** 2 for x in v) / len(v)
                exp = (m, max(v), min(v), max(v) - min(v), var, math.sqrt(var))
            if len(r) != 6 or not all(math.isclose(a, b, rel_tol=1e-12, abs_tol=1e-9) for a, b in zip(r, exp)):
                viols.append(Viol("getPitchMeasures", f"getPitchMeasures({seq}, window={w}, filterZero={fz}) = {r}; (mean, max, min, range, "
                                                      f"population variance, deviation) of the filtered values is {exp}"))
    return cnt, "ok", (tuple(seq),), viols


THRS = (0.25, 0.5, 0.7, 1.0)


def _check_jumps(case):
    seq = list(case)
    n = len(seq)
    pl = [(i * 0.1, v) for i, v in enumerate(seq)]
    viols = []
    cnt = 0
    for thr in THRS:
        cnt += 1
        st, res, _ = call(pi.detectPitchErrors, list(pl), thr)
        if st == "exc":
            viols.append(Viol("detectPitchErrors-raised", f"{seq} thr={thr}: {res!r}"))
            continue
        r, tg = res
        strict, ties = [], []
        for i in range(1, n):
            a, b = seq[i - 1], seq[i]
            ratio = min(a, b) / max(a, b)
            if ratio < thr and not math.isclose(ratio, thr, rel_tol=1e-12):
                strict.append(pl[i][0])
            elif math.isclose(ratio, thr, rel_tol=1e-12):
                ties.append(pl[i][0])
        got = [p[0] for p in r]
        if not (set(strict) <= set(got) <= set(strict) | set(ties)) or got != sorted(got) or len(set(got)) != len(got):
            viols.append(Viol("detectPitchErrors", f"series {seq} threshold {thr}: flagged {got}; jumps by more than the ratio are at {strict} "
                                                   f"(exactly at the threshold: {ties})"))
        if tg is not None:
            viols.append(Viol("detectPitchErrors-tg", "a textgrid was returned although none was passed"))
        # the same track as rows of (time, pitch, intensity) - what loadTimeSeriesData / extractPI return for a pitch-and-intensity listing and
        # what the library's own example script passes on: the extra column changes nothing
        st3, res3, _ = call(pi.detectPitchErrors, [(t, v, 60.0 + k) for k, (t, v) in enumerate(pl)], thr)
        cnt += 1
        if st3 == "exc" or [p[0] for p in res3[0]] != got:
            viols.append(Viol("detectPitchErrors-wide-rows", f"series {seq} threshold {thr}: with rows of (time, pitch, intensity) the result is "
                                                             f"{res3 if st3 == 'exc' else [p[0] for p in res3[0]]!r}, with rows of (time, pitch) {got}"))
    # with a textgrid to mark
    tgm = Textgrid(0, 1)
    tgm.addTier(IT("w", [(0, 1, "a")], 0, 1))
    st, res, _ = call(pi.detectPitchErrors, list(pl), 0.7, tgm)
    cnt += 1
    if st == "ok":
        r, tg2 = res
        names = list(tg2.tierNames)
        if len(names) != 2 or names[0] != "w" or [tuple(e) for e in tg2.tiers[1].entries] != [tuple(p) for p in r]:
            viols.append(Viol("detectPitchErrors-mark", f"{seq}: marked textgrid has tiers {names}"))
    elif r is not None:
        viols.append(Viol("detectPitchErrors-raised", f"{seq} with a textgrid to mark: {res!r}"))
    return cnt, "ok", (tuple(seq),), viols


ROWS = ("0.1,100,60", "0.2,--undefined--,61", "0.3,120,--undefined--", "0.4,--undefined--,--undefined--", "0.5,0,1e-05")


def _check_listing(case):
    hdr, rows, uv = case[:3]
    blanks = case[3] if len(case) > 3 else ()  # positions (in the list of lines) at which an empty line is inserted
    fn = os.path.join(scratch_dir(), "c20-listing.txt")
    lines = (["time,pitch,intensity"] if hdr else []) + list(rows)
    for pos in sorted(blanks, reverse=True):
        lines.insert(pos, "")
    ending = case[4] if len(case) > 4 else "\n"    # how the LAST line ends: newline, nothing (the file stops after the last value), CRLF
    with open(fn, "w", newline="") as fd:
        fd.write("\n".join(lines) + ending)
    if blanks:
        hdr = f"{hdr} with empty lines at {blanks}"
    if ending != "\n":
        hdr = f"{hdr}, last line ending {ending!r}"
    st, r, _ = call(pi.loadTimeSeriesData, fn, uv)
    if st == "exc":
        return 1, "X", None, [Viol("loadTimeSeriesData-raised", f"rows {rows} header={hdr} undefinedValue={uv}: {r!r}")]
    exp = []
    for row in rows:
        c = row.split(",")
        if any("--" in x for x in c[1:]) and uv is None:
            continue
        exp.append(tuple([float(c[0])] + [uv if "--" in x else float(x) for x in c[1:]]))
    if r != exp:
        return 1, "!", None, [Viol("loadTimeSeriesData", f"rows {rows} header={hdr} undefinedValue={uv}: {r}, expected {exp}")]
    # the caller works on the returned rows in place (sorts them, drops some): the next load of the unchanged file is not affected
    if isinstance(r, list):
        r.reverse()
        if r:
            r.pop()
        r.append(("junk",))
    # the same unchanged file again, with another undefinedValue and with the first one: a function of file and arguments only
    other = 7.5 if uv is None else None
    exp2 = []
    for row in rows:
        c = row.split(",")
        if any("--" in x for x in c[1:]) and other is None:
            continue
        exp2.append(tuple([float(c[0])] + [other if "--" in x else float(x) for x in c[1:]]))
    st2, r2, _ = call(pi.loadTimeSeriesData, fn, other)
    st3, r3, _ = call(pi.loadTimeSeriesData, fn, uv)
    if st2 == "exc" or r2 != exp2 or st3 == "exc" or r3 != exp:
        return 3, "!", None, [Viol("loadTimeSeriesData-repeated", f"rows {rows} header={hdr}: loading the same unchanged file again gives "
                                                                  f"{r2!r} (undefinedValue={other}, expected {exp2}) and {r3!r} (undefinedValue={uv}, expected {exp})")]
    # what is behind the path: the same listing reached through a symbolic link and through a named pipe (`mkfifo listing; praat ... > listing &`,
    # process substitution, /dev/stdin): the rows arrive when the file is READ; its directory entry says nothing about them
    content = "\n".join(lines) + ending
    link = fn + ".link"
    if os.path.lexists(link):
        os.unlink(link)
    os.symlink(fn, link)
    st4, r4, _ = call(pi.loadTimeSeriesData, link, uv)
    os.unlink(link)
    st5, r5 = _through_pipe(content, lambda p: pi.loadTimeSeriesData(p, uv))
    for how, stx, rx in (("a symbolic link to the file", st4, r4), ("a named pipe that delivers the same text", st5, r5)):
        if stx == "exc" or rx != exp:
            return 5, "!", None, [Viol("loadTimeSeriesData-by-kind-of-file", f"rows {rows} header={hdr} undefinedValue={uv}: read through {how} gives {rx!r}, "
                                                                             f"from the regular file {exp}")]
    return 5, "ok", (hdr, rows, uv), []


def _through_pipe(content, f):
    """f(path) with path a FIFO into which a feeder thread writes `content` once; every further open of the pipe by the reader sees an empty
    stream (so a reader that opens the path more than once terminates instead of blocking)"""
    import threading
    p = os.path.join(scratch_dir(), "c20-pipe")
    if os.path.lexists(p):
        os.unlink(p)
    os.mkfifo(p)
    stop = threading.Event()

    def feed():
        first = True
        while not stop.is_set():
            with open(p, "w", newline="") as fd:      # blocks until somebody opens the pipe for reading
                if first and not stop.is_set():
                    fd.write(content)
                first = False
    th = threading.Thread(target=feed, daemon=True)
    th.start()
    st, r, _ = call(f, p)
    stop.set()
    try:                                               # release the feeder if it is waiting for a reader
        fd = os.open(p, os.O_RDONLY | os.O_NONBLOCK)
        th.join(5)
        os.close(fd)
    except OSError:
        pass
    th.join(5)
    os.unlink(p)
    return st, r


LONG_N = (16, 17, 100, 256, 257, 300, 1000)  # the size axis: lengths around block sizes and CPython's small-int cache


def parts(tier):
    quick = tier == "quick"
    maxn = 5 if quick else 6

    def gen_median():
        for n in range(0, maxn + 1):
            alpha = VALS if n <= 5 else VALS[:4]
            seen = set()
            for seq in itertools.product(alpha, repeat=n):
                if seq in seen:
                    continue
                seen.add(seq)
                yield seq
        for n in (7, 8, 9, 12, 15) + LONG_N:
            yield tuple((i * 7) % 5 + (0.5 if i % 3 == 0 else 0) for i in range(n))
            yield tuple(3 for _ in range(n))

    def gen_znorm():
        for n in range(2, 6):
            for seq in itertools.product((1, 2, 2.5, 7), repeat=n):
                if len(set(seq)) > 1:
                    yield seq
        for n in LONG_N:  # the size axis
            yield tuple((1, 2, 2.5, 7)[(i * 7) % 4] for i in range(n))

    def gen_pitch():
        for n in range(0, 5):
            for seq in itertools.product((0, 0.0, 0.5, 100, 120.5, -3), repeat=n):
                yield seq
        # series of mixed sign whose SUM is exactly 0 although no element is (a de-meaned or delta track): an aggregate says nothing about emptiness
        for seq in ((-2.0, 0.5, 1.5), (-3, 1, 2), (-0.25, 0.25), (3, -3), (-3, 3, 0), (0, -1.5, 1.5, 0), (100, -100, 5, -5), (-3, 3, -3, 3)):
            yield seq
        for n in LONG_N:  # the size axis: long tracks with unvoiced stretches
            yield tuple((0, 100, 120.5, 0.5, 0, 0, 98.25)[(i * 5) % 7] for i in range(n))
        # constant runs and near-constant runs of non-dyadic floats (where a one-pass variance cancels catastrophically)
        for v in (0.1, 201.7, 123.4, 220.3, 1e-05, 98.61948118117667, 1234.5678):
            for n in range(1, 8):
                yield (v,) * n
                yield (0,) + (v,) * n + (0, 0)
                if n > 2:
                    yield (v,) * (n - 1) + (v * 2,)
                    yield (v,) * (n // 2) + (v * 2,) + (v,) * (n - n // 2)

    def gen_jumps():
        for n in range(0, 5):
            for seq in itertools.product((50, 75.5, 100, 140, 200), repeat=n):
                yield seq
        for n in LONG_N:  # the size axis
            yield tuple((50, 75.5, 100, 140, 200, 101, 99)[(i * 3) % 7] for i in range(n))

    def gen_listing():
        for hdr in (True, False):
            for k in (1, 2, 3):
                for rows in itertools.product(ROWS, repeat=k):
                    if k == 3 and len(set(rows)) < 3:
                        continue
                    for uv in (None, 0, -1.5):
                        yield (hdr, rows, uv)
        for n in LONG_N:  # the size axis: long listings
            for hdr in (True, False):
                for uv in (None, 0):
                    yield (hdr, tuple(ROWS[(i * 3) % len(ROWS)] for i in range(n)), uv)
        # the last line of the file without a line terminator (a listing written with "\n".join(rows)), and with CRLF
        for hdr in (True, False):
            for k in (1, 2):
                for rows in itertools.product(ROWS, repeat=k):
                    for uv in (None, 0):
                        for ending in ("", "\r\n"):
                            yield (hdr, rows, uv, (), ending)
        # cells with blanks / tabs around their content (", " as the separator of a hand-written Praat script; a blank before the line end): numbers
        # and undefined markers alike are read as if the blanks were not there
        PADDED = ("0.1, 100, 60", "0.2, --undefined--, 61", "0.3,120,--undefined-- ", "0.4,\t--undefined--,\t--undefined--", " 0.5 , 0 , 1e-05 ", "0.6,--undefined-- ,7")
        for hdr in (True, False):
            for k in (1, 2):
                for rows in itertools.product(PADDED, repeat=k):
                    for uv in (None, 0, -1.5):
                        yield (hdr, rows, uv)
        # empty lines (which the loader ignores) before, between and after the header and the rows
        for hdr in (True, False):
            for k in (1, 2):
                nlines = k + int(hdr)
                for rows in itertools.product(ROWS[:3], repeat=k):
                    for nb in (1, 2):
                        for blanks in itertools.combinations_with_replacement(range(nlines + 1), nb):
                            for uv in (None, 0):
                                yield (hdr, rows, uv, blanks)

    return [
        InputPart("medianFilter", gen_median, _check_median,
                  rule="all series over {1,2,2,5,9.5} of length 0-%d (+ longer representatives up to 15); each case runs window 0-8 x padding "
                       "through medianFilter and filterTimeSeriesData" % maxn, bounds={"max_length": maxn}),
        InputPart("znormalize-rms", gen_znorm, _check_znorm,
                  rule="all non-constant series over {1,2,2.5,7} of length 2-5: mean 0, sample sd 1, length and rank order preserved, values; rms; "
                       "znormalizeSpeakerData keeps rows and order", bounds={}),
        InputPart("getPitchMeasures", gen_pitch, _check_pitch,
                  rule="all series over {0,0.0,0.5,100,120.5,-3} of length 0-4, plus constant / near-constant runs (length 1-7, with zeros "
                       "around and octave spikes inside) of 7 non-dyadic floats, x zero-filter x median window {None,3,5}", bounds={}),
        InputPart("detectPitchErrors", gen_jumps, _check_jumps,
                  rule="all series over {50,75.5,100,140,200} of length 0-4 x thresholds %s (exact ties at the threshold: either answer); marking "
                       "a textgrid" % (THRS,), bounds={}),
        InputPart("loadTimeSeriesData", gen_listing, _check_listing,
                  rule="all listings of 1-3 rows from 5 row kinds (undefined markers in any column) x header x undefinedValue {None,0,-1.5}; "
                       "1-2 rows x header x one or two empty lines at every position (before the header, between, after)", bounds={}),
    ]
