"""C19 - KlattGrid and point-object files round-trip every number exactly.

Enumerated: synthetic KlattGrids written by an independent Praat-layout writer (1-3 oral formants, 0-3 points per tier,
values from NUM, with and without trailing blanks / final newline) and the reference KlattGrid of the repository x every
addressed tier (each top-level point tier, each intermediate tier of each container, each sub tier) x every modification
function in {x1.1, /3, x(-1), const 5, const 5.0, const 0, x1e-300, x1e300, +1e-7}; all pairs of modifications on distinct
tiers; open -> modify -> save -> open.  Point objects: all point lists of length 0-3 over NUM x {PointProcess, PitchTier,
DurationTier} x spans; short form via PointObject.save, long form via an independent Praat-style writer.
"""
import itertools
import os

from mc.engine import InputPart, Viol, SRC
from mc.props.common import call, scratch_dir, PE
from praatio import klattgrid, data_points
from praatio.data_classes.data_point import PointObject1D, PointObject2D

POINT_TIERS_1 = ("pitch", "flutter", "voicingAmplitude", "doublePulsing", "openPhase", "collisionPhase", "power1", "power2",
                 "spectralTilt", "aspirationAmplitude", "breathinessAmplitude")
VALS = (0.0, 1.0, 5.0, 0.1, 1e-05, 98.61948118117667, 2519.3075148880134, 123456789.12345678, 1e15, 0.30000000000000004, 7.0, 40.0)


def _n(x):
    """Praat style: integers without a point, otherwise repr"""
    return str(int(x)) if float(x) == int(x) and abs(x) < 1e15 else repr(float(x))


def klatt_text(spec, trail=" ", final_newline=True):
    """spec: dict(xmax, nform, points: {tier-key: [(t, v), ...]}) -> KlattGrid text in Praat's long layout."""
    xmax = spec["xmax"]
    xmin = spec.get("xmin", 0)
    pts = spec["points"]
    L = ['File type = "ooTextFile"', 'Object class = "KlattGrid"', ""]

    def span(ind=""):
        L.append(f"{ind}xmin = {_n(xmin)}{trail}")
        L.append(f"{ind}xmax = {_n(xmax)}{trail}")

    def points(key, ind=""):
        P = pts.get(key, [])
        L.append(f"{ind}points: size = {len(P)}{trail}")
        for i, (t, v) in enumerate(P, 1):
            L.append(f"{ind}points [{i}]:")
            L.append(f"{ind}    number = {_n(t)}{trail}")
            L.append(f"{ind}    value = {_n(v)}{trail}")

    def header(name):
        L.append(f"{name}? <exists>{trail}")
        span()

    def ptier(name):
        header(name)
        points((name,))

    def inter(cont, name, k):
        L.append(f"{name}: size = {k}{trail}")
        for i in range(1, k + 1):
            L.append(f"{name} [{i}]:")
            span("    ")
            points((cont, name, f"{name} [{i}]"), "    ")

    span()
    header("phonation")
    for nm in POINT_TIERS_1:
        ptier(nm)
    header("vocalTract")
    header("oral_formants")
    inter("oral_formants", "formants", spec["nform"])
    inter("oral_formants", "bandwidths", spec["nform"])
    header("nasal_formants")
    inter("nasal_formants", "formants", 1)
    inter("nasal_formants", "bandwidths", 1)
    header("nasal_antiformants")
    inter("nasal_antiformants", "formants", 1)
    inter("nasal_antiformants", "bandwidths", 1)
    inter("nasal_antiformants", "oral_formants_amplitudes", spec["nform"])
    inter("nasal_antiformants", "nasal_formants_amplitudes", 1)
    header("coupling")
    header("tracheal_formants")
    inter("tracheal_formants", "formants", 1)
    inter("tracheal_formants", "bandwidths", 1)
    header("tracheal_antiformants")
    inter("tracheal_antiformants", "formants", 1)
    inter("tracheal_antiformants", "bandwidths", 1)
    inter("tracheal_antiformants", "tracheal_formants_amplitudes", 1)
    header("delta_formants")
    inter("delta_formants", "formants", 1)
    inter("delta_formants", "bandwidths", 1)
    header("frication")
    ptier("fricationAmplitude")
    header("frication_formants")
    inter("frication_formants", "formants", 2)
    inter("frication_formants", "bandwidths", 2)
    inter("frication_formants", "frication_formants_amplitudes", 2)
    ptier("bypass")
    ptier("gain")
    return "\n".join(L) + ("\n" if final_newline else "")


def leaves(kg):
    """-> ordered list of (key, tier) for every tier that can hold points"""
    out = []
    for n in kg.tierNames:
        t = kg.getTier(n)
        if hasattr(t, "tierNameList"):
            for kn in t.tierNameList:
                kit = t.tierDict[kn]
                for sn in kit.tierNameList:
                    out.append(((n, kn, sn), kit.tierDict[sn]))
        else:
            out.append(((n,), t))
    return out


def dump(kg):
    return [(k, float(t.minTimestamp), float(t.maxTimestamp), [(float(a), float(b)) for a, b in t.entries]) for k, t in leaves(kg)]


def same_num(a, b):
    return a == b  # floats: identical value (so identical digits); -0.0 == 0.0 is the same number


def diff(d1, d2, what):
    if [x[0] for x in d1] != [x[0] for x in d2]:
        only1 = [x[0] for x in d1 if x[0] not in [y[0] for y in d2]][:3]
        only2 = [x[0] for x in d2 if x[0] not in [y[0] for y in d1]][:3]
        return f"{what}: tier hierarchy/order differs (missing {only1}, extra {only2})"
    for (k, lo, hi, E), (_, lo2, hi2, E2) in zip(d1, d2):
        if not (same_num(lo, lo2) and same_num(hi, hi2)):
            return f"{what}: tier {k}: span ({lo2!r},{hi2!r}) != ({lo!r},{hi!r})"
        if len(E) != len(E2):
            return f"{what}: tier {k}: {len(E2)} points, expected {len(E)}"
        for (a, b), (a2, b2) in zip(E, E2):
            if not (same_num(a, a2) and same_num(b, b2)):
                return f"{what}: tier {k}: point ({a2!r},{b2!r}) != ({a!r},{b!r})"
    return None


# "mulk" / "addk": the same scaling / shift written as a function with a second, defaulted parameter (`lambda v, k=1.1: v * k`, `def shift(v, amount=20.0)`):
# still a function of the value; it is called with the value and nothing else
FUNCS = (("mul", 1.1), ("div", 3.0), ("mul", -1.0), ("const", 5), ("const", 5.0), ("const", 0), ("mul", 1e-300), ("mul", 1e300), ("add", 1e-7),
         ("mulk", 1.1), ("addk", 20.0))


def mkfunc(spec, counter):
    kind, c = spec
    if kind in ("mulk", "addk"):
        def g(v, k=c):
            counter[0] += 1
            return v * k if kind == "mulk" else v + k
        return g

    def f(v):
        counter[0] += 1
        if kind == "mul":
            return v * c
        if kind == "div":
            return v / c
        if kind == "add":
            return v + c
        return c
    return f


def pure(spec, v):
    kind, c = spec
    kind = {"mulk": "mul", "addk": "add"}.get(kind, kind)
    if kind == "mul":
        return float(v * c)
    if kind == "div":
        return float(v / c)
    if kind == "add":
        return float(v + c)
    return float(c)


def address(kg, addr):
    """addr: ('pitch',) top-level point tier | (container, intermediate) | (container, intermediate, sub)"""
    if len(addr) == 1:
        return kg.getTier(addr[0]), "modifyValues"
    if len(addr) == 2:
        return kg.getTier(addr[0]), "modifySubtiers"
    return kg.getTier(addr[0]).tierDict[addr[1]].tierDict[addr[2]], "modifyValues"


def addressed_keys(addr, d):
    if len(addr) == 2:
        return [x[0] for x in d if x[0][:2] == addr]
    return [x[0] for x in d if x[0] == addr]


def _source(case_src):
    """-> path of the KlattGrid file to start from (reference fixture or a synthetic one written here)"""
    if case_src[0] == "ref":
        return os.path.join(SRC, "tests", "files", "bobby.KlattGrid"), None
    _, nform, npts, vi, trail, fin = case_src[:6]
    xmin = case_src[6] if len(case_src) > 6 else 0  # a time domain that does not start at 0 (an extracted part with its times preserved)
    shift = case_src[7] if len(case_src) > 7 else 0  # the whole time domain moved far from zero (all sums stay exactly representable)
    pts = {}
    vals = VALS[vi:] + VALS[:vi]
    k = 0
    xmax = max(2.5, (npts + 2) * 0.5) + shift
    xmin = xmin + shift

    def mk():
        nonlocal k
        P = []
        for i in range(npts):
            P.append(((i + 1) * 0.5 + (0.0625 if i % 2 else 0.0) + shift, vals[k % len(vals)]))
            k += 1
        return P
    for nm in ("pitch", "voicingAmplitude", "gain", "bypass", "fricationAmplitude"):
        pts[(nm,)] = mk()
    for i in range(1, nform + 1):
        pts[("oral_formants", "formants", f"formants [{i}]")] = mk()
        pts[("oral_formants", "bandwidths", f"bandwidths [{i}]")] = mk()
        pts[("nasal_antiformants", "oral_formants_amplitudes", f"oral_formants_amplitudes [{i}]")] = mk()
    pts[("frication_formants", "frication_formants_amplitudes", "frication_formants_amplitudes [2]")] = mk()
    pts[("delta_formants", "bandwidths", "bandwidths [1]")] = mk()
    # the SIBLINGS of the amplitude tiers hold points too (Praat's own names nest: "formants" is a part of "oral_formants_amplitudes"): addressing one
    # intermediate tier by its name addresses that tier
    pts[("nasal_antiformants", "formants", "formants [1]")] = mk()
    pts[("nasal_antiformants", "bandwidths", "bandwidths [1]")] = mk()
    spec = {"xmax": xmax, "xmin": xmin, "nform": nform, "points": pts}
    fn = os.path.join(scratch_dir(), "c19-src.KlattGrid")
    with open(fn, "w", encoding="utf-8") as fd:
        fd.write(klatt_text(spec, trail, fin))
    return fn, spec


def _check_klatt(case):
    src, mods = case
    fn, spec = _source(src)
    out = os.path.join(scratch_dir(), "c19-out.KlattGrid")
    st, kg, _ = call(klattgrid.openKlattgrid, fn)
    tag = f"KlattGrid {src} mods {mods}"
    if st == "exc":
        return 1, "X", None, [Viol("open-raised:" + type(kg).__name__, f"{tag}: {kg!r}")]
    n = 1
    viols = []
    d0 = dump(kg)
    if spec is not None:
        # what the independently written file encodes
        want = {k: v for k, v in spec["points"].items()}
        for k, lo, hi, E in d0:
            exp = [(float(a), float(b)) for a, b in want.get(k, [])]
            if E != exp:
                viols.append(Viol("open-content", f"{tag}: tier {k}: read {E}, file encodes {exp}"))
                break
            if (lo, hi) != (float(spec["xmin"]), spec["xmax"]):
                viols.append(Viol("open-span", f"{tag}: tier {k}: span ({lo},{hi})"))
                break
        missing = [k for k in want if k not in [x[0] for x in d0]]
        if missing:
            viols.append(Viol("open-hierarchy", f"{tag}: tiers missing after open: {missing[:3]}"))
    if not mods:
        # the same text in the other byte encodings Praat writes: UTF-16 with a byte-order mark in either byte order, and CR LF line ends
        import codecs
        with open(fn, encoding="utf-8", newline="") as fd:
            text = fd.read()
        body = text.split("\n")
        for how, raw in (("UTF-16 little-endian with BOM", codecs.BOM_UTF16_LE + text.encode("utf-16-le")),
                         ("UTF-16 big-endian with BOM", codecs.BOM_UTF16_BE + text.encode("utf-16-be")),
                         ("UTF-8 with CR LF line ends", text.replace("\n", "\r\n").encode("utf-8")),
                         # (lone CR line ends - classic Mac OS text files, which Praat reads - in both byte widths)
                         ("UTF-8 with lone CR line ends", text.replace("\n", "\r").encode("utf-8")),
                         ("UTF-16 little-endian with BOM and lone CR line ends", codecs.BOM_UTF16_LE + text.replace("\n", "\r").encode("utf-16-le")),
                         ("UTF-16 big-endian with BOM and CR LF line ends", codecs.BOM_UTF16_BE + text.replace("\n", "\r\n").encode("utf-16-be")),
                         # layout: Praat ignores white space in front of a line; a file whose body (everything after the three header lines) is
                         # indented by four blanks / by one tab is the same KlattGrid
                         ("UTF-8, every line after the header indented by four blanks", "\n".join(body[:3] + [("    " + ln if ln.strip() else ln) for ln in body[3:]]).encode("utf-8")),
                         # vertical spacing: an empty line (and a line of blanks) between two sections of the body - Praat skips them
                         ("UTF-8, an empty line before the headline sections vocalTract? / coupling? / frication? / gain?",
                          "\n".join(body[:3] + [("\n" + ln if ln.startswith(("vocalTract?", "coupling?", "frication?", "gain?")) else ln) for ln in body[3:]]).encode("utf-8")),
                         ("UTF-8, every line after the header indented by a tab", "\n".join(body[:3] + [("\t" + ln if ln.strip() else ln) for ln in body[3:]]).encode("utf-8"))):
            fn2 = os.path.join(scratch_dir(), "c19-enc.KlattGrid")
            with open(fn2, "wb") as fd:
                fd.write(raw)
            st2, kg2_, _ = call(klattgrid.openKlattgrid, fn2)
            n += 1
            if st2 == "exc":
                viols.append(Viol("open-raised:" + type(kg2_).__name__, f"{tag}: the same KlattGrid text stored as {how}: {kg2_!r}"))
            elif diff(d0, dump(kg2_), f"stored as {how}"):
                viols.append(Viol("open-encoding", f"{tag}: " + diff(d0, dump(kg2_), f"stored as {how}")))
    exp = [(k, lo, hi, list(E)) for k, lo, hi, E in d0]
    if mods:
        call(kg.save, out)  # the same live object is saved BEFORE it is modified, too (save - modify - save)
        n += 1
    for mi, (addr, fs) in enumerate(mods):
        if mi > 0:
            # a save between two modifications of the SAME live KlattGrid must not freeze or disturb anything
            call(kg.save, out)
            n += 1
        keys = addressed_keys(addr, exp)
        if not keys:
            continue
        counter = [0]
        try:
            obj, meth = address(kg, addr)
        except KeyError:
            continue
        f = mkfunc(fs, counter)
        st, r, _ = call(getattr(obj, meth), addr[1], f) if meth == "modifySubtiers" else call(getattr(obj, meth), f)
        n += 1
        if st == "exc":
            viols.append(Viol("modify-raised:" + type(r).__name__, f"{tag}: {addr} {fs}: {r!r}"))
            continue
        nvals = sum(len(x[3]) for x in exp if x[0] in keys)
        if counter[0] != nvals:
            viols.append(Viol("modify-call-count", f"{tag}: {addr} {fs}: function called {counter[0]} times for {nvals} values"))
        exp = [(k, lo, hi, [(a, pure(fs, b)) for a, b in E] if k in keys else E) for k, lo, hi, E in exp]
    m = diff(exp, dump(kg), "in memory after modification")
    if m:
        viols.append(Viol("modify-result", f"{tag}: {m}"))
    st, r, _ = call(kg.save, out)
    n += 1
    if st == "exc":
        viols.append(Viol("save-raised:" + type(r).__name__, f"{tag}: {r!r}"))
        return n, "!", None, viols
    m = diff(exp, dump(kg), "in memory after save")
    if m:
        viols.append(Viol("save-mutated", f"{tag}: {m}"))
    st, kg2, _ = call(klattgrid.openKlattgrid, out)
    n += 1
    if st == "exc":
        viols.append(Viol("reopen-raised:" + type(kg2).__name__, f"{tag}: the saved KlattGrid cannot be opened: {kg2!r}"))
        return n, "!", None, viols
    m = diff(exp, dump(kg2), "after save and reopen")
    if m:
        viols.append(Viol("roundtrip", f"{tag}: {m}"))
    if list(kg2.tierNames) != list(kg.tierNames):
        viols.append(Viol("roundtrip-tier-names", f"{tag}: {kg2.tierNames} != {kg.tierNames}"))
    # a second save/open cycle yields the same content again
    out2 = out + "2"
    st, r, _ = call(kg2.save, out2)
    st2, kg3, _ = call(klattgrid.openKlattgrid, out2) if st == "ok" else ("exc", r, "")
    n += 2
    if st2 == "exc":
        viols.append(Viol("second-cycle-raised", f"{tag}: {kg3!r}"))
    else:
        m = diff(exp, dump(kg3), "after a second save and reopen")
        if m:
            viols.append(Viol("roundtrip-second-cycle", f"{tag}: {m}"))
    return n, "ok", (src[:3], tuple((a[:2], fs) for a, fs in mods)), viols


# ------------------------------------------------------------------ one live KlattGrid: every sequence of saves and modifications
SEQ_ADDRS = (("pitch",), ("oral_formants", "formants", "formants [1]"), ("oral_formants", "formants"), ("oral_formants", "bandwidths", "bandwidths [2]"))
SEQ_FUNCS = (FUNCS[0], FUNCS[8])
SEQ_OPS = tuple([("save",)] + [("mod", a, f) for a in SEQ_ADDRS for f in SEQ_FUNCS])


def _check_sequence(case):
    """case: a tuple of indices into SEQ_OPS, applied to ONE live KlattGrid; after every save the file is reopened and compared with the model"""
    fn, spec = _source(("syn", 2, 2, 0, " ", True))
    out = os.path.join(scratch_dir(), "c19-seq.KlattGrid")
    kg = klattgrid.openKlattgrid(fn)
    exp = [(k, lo, hi, list(E)) for k, lo, hi, E in dump(kg)]
    n = 0
    names = [SEQ_OPS[i] for i in case] + [("save",)]      # every sequence ends with a save
    for step, op in enumerate(names):
        n += 1
        if op[0] == "save":
            st, r, _ = call(kg.save, out)
            if st == "exc":
                return n, "!", None, [Viol("save-raised:" + type(r).__name__, f"sequence {names[:step + 1]} on one live KlattGrid: {r!r}")]
            st, kg2, _ = call(klattgrid.openKlattgrid, out)
            m = f"reopening raised {kg2!r}" if st == "exc" else diff(exp, dump(kg2), "the file written by the last save")
            if m:
                return n, "!", None, [Viol("sequence-save-is-stale", f"sequence {names[:step + 1]} on one live KlattGrid: {m}")]
        else:
            _, addr, fs = op
            keys = addressed_keys(addr, exp)
            obj, meth = address(kg, addr)
            counter = [0]
            f = mkfunc(fs, counter)
            st, r, _ = call(getattr(obj, meth), addr[1], f) if meth == "modifySubtiers" else call(getattr(obj, meth), f)
            if st == "exc":
                return n, "!", None, [Viol("modify-raised:" + type(r).__name__, f"sequence {names[:step + 1]}: {r!r}")]
            exp = [(k, lo, hi, [(a, pure(fs, b)) for a, b in E] if k in keys else E) for k, lo, hi, E in exp]
            m = diff(exp, dump(kg), "in memory")
            if m:
                return n, "!", None, [Viol("sequence-modify-result", f"sequence {names[:step + 1]} on one live KlattGrid: {m}")]
    return n, "ok", case, []


# ------------------------------------------------------------------ KlattGrids built through the API
def _check_built(case):
    """a KlattGrid assembled with addTier (sub-tiers placed by tierIndex, in every insertion order): save -> open keeps the hierarchy"""
    nform, perm, vi, npts = case
    vals = VALS[vi:] + VALS[:vi]
    kg = klattgrid.Klattgrid()
    kg.addTier(klattgrid.KlattPointTier("pitch", [(0.1, vals[0]), (0.3, vals[1])][:npts], 0, 0.5))
    kct = klattgrid.KlattContainerTier("oral_formants")
    k = 2
    for kitName in ("formants", "bandwidths"):
        kit = klattgrid.KlattIntermediateTier(kitName)
        placed = []
        for i in perm:
            pts = [(0.1 * (j + 1), vals[(k + j) % len(vals)]) for j in range(npts)]
            k += npts
            idx = sum(1 for j in placed if j < i)  # keeps the tier list in ascending formant order
            kit.addTier(klattgrid.KlattSubPointTier("%s [%d]" % (kitName, i), pts, 0, 0.5), tierIndex=idx)
            placed.append(i)
        if kit.tierNameList != ["%s [%d]" % (kitName, i) for i in range(1, nform + 1)]:
            return 1, "!", None, [Viol("klatt-addTier-index", f"KlattIntermediateTier.addTier(tier, tierIndex) in order {perm}: tier list {kit.tierNameList}")]
        kct.addTier(kit)
    kg.addTier(kct)
    tag = f"KlattGrid built with addTier(tierIndex=...) inserting formants in order {perm}, {npts} points per tier"
    d0 = dump(kg)
    out = os.path.join(scratch_dir(), "c19-built.KlattGrid")
    st, r, _ = call(kg.save, out)
    if st == "exc":
        return 1, "X", None, [Viol("save-raised:" + type(r).__name__, f"{tag}: {r!r}")]
    viols = []
    m = diff(d0, dump(kg), "in memory after save")
    if m:
        viols.append(Viol("save-mutated", f"{tag}: {m}"))
    st, kg2, _ = call(klattgrid.openKlattgrid, out)
    if st == "exc":
        return 2, "X", None, viols + [Viol("reopen-raised:" + type(kg2).__name__, f"{tag}: {kg2!r}")]
    m = diff(d0, dump(kg2), "after save and reopen")
    if m:
        viols.append(Viol("roundtrip", f"{tag}: {m}"))
    elif not (kg == kg2):
        viols.append(Viol("roundtrip-eq", f"{tag}: the reopened KlattGrid has the same hierarchy, spans and points but does not compare equal"))
    return 3, "ok", (nform, perm, npts), viols


# ------------------------------------------------------------------ point objects
PNUM = (0.0, 1.0, 5, 0.1, 1e-05, 1.5e-07, 123456789.12345678, 1e16, 2.5e+20, 0.30000000000000004, 2519.3075148880134)


def long1d(pts, lo, hi, trail):
    o = ['File type = "ooTextFile"', 'Object class = "PointProcess"', "", f"xmin = {_r(lo)}{trail}", f"xmax = {_r(hi)}{trail}",
         f"nt = {len(pts)}{trail}", f"t []:{trail}"]
    o += [f"    t [{i + 1}] = {_r(p)}{trail}" for i, p in enumerate(pts)]
    return "\n".join(o) + "\n"


def long2d(cls, pts, lo, hi, trail):
    o = ['File type = "ooTextFile"', f'Object class = "{cls}"', "", f"xmin = {_r(lo)}{trail}", f"xmax = {_r(hi)}{trail}",
         f"points: size = {len(pts)}{trail}"]
    for i, (t, v) in enumerate(pts):
        o += [f"points [{i + 1}]:", f"    number = {_r(t)}{trail}", f"    value = {_r(v)}{trail}"]
    return "\n".join(o) + "\n"


def _r(x):
    return repr(x)


def _check_points(case):
    cls, pts, lo, hi = case
    fn = os.path.join(scratch_dir(), "c19-pt.txt")
    viols = []
    one = cls == "PointProcess"
    rows = [(p,) for p in pts] if one else [(p, q) for p, q in zip(pts, reversed(pts))]
    opener = data_points.open1DPointObject if one else data_points.open2DPointObject
    st, po, _ = call(PointObject1D if one else PointObject2D, rows, cls, lo, hi)
    tag = f"{cls} points {rows} span ({lo},{hi})"
    if st == "exc":
        return 1, "ctor-raised", None, []
    n = 0
    st, r, _ = call(po.save, fn)
    n += 1
    if st == "exc":
        return n, "!", None, [Viol("save-raised:" + type(r).__name__, f"{tag}: {r!r}")]
    st, po2, _ = call(opener, fn)
    n += 1
    if st == "exc":
        viols.append(Viol("open-raised:" + type(po2).__name__, f"{tag}: the saved file cannot be opened: {po2!r}"))
    else:
        if po2.objectClass != cls or po2.minTime != po.minTime or po2.maxTime != po.maxTime:
            viols.append(Viol("roundtrip-header", f"{tag}: reopened class {po2.objectClass}, span ({po2.minTime!r},{po2.maxTime!r})"))
        if [tuple(float(x) for x in row) for row in po2.pointList] != [tuple(float(x) for x in row) for row in po.pointList] or \
                [repr(float(x)) for row in po2.pointList for x in row] != [repr(float(x)) for row in po.pointList for x in row]:
            viols.append(Viol("roundtrip-points", f"{tag}: reopened points {po2.pointList}"))
        if not (po2 == po) or not (po == po2):
            viols.append(Viol("roundtrip-eq", f"{tag}: reopened object != original"))
    for trail in (" ", ""):
        text = long1d(pts, po.minTime, po.maxTime, trail) if one else long2d(cls, rows, po.minTime, po.maxTime, trail)
        with open(fn, "w", encoding="utf-8") as fd:
            fd.write(text)
        st, po3, _ = call(opener, fn)
        n += 1
        if st == "exc":
            viols.append(Viol("open-long-raised:" + type(po3).__name__, f"{tag}: long form (trailing blank {trail!r}): {po3!r}"))
            continue
        if po3.objectClass != cls or (po3.minTime, po3.maxTime) != (po.minTime, po.maxTime) or \
                [tuple(float(x) for x in row) for row in po3.pointList] != [tuple(float(x) for x in row) for row in rows]:
            viols.append(Viol("long-form-content", f"{tag}: long form (trailing blank {trail!r}) opens to class {po3.objectClass} span "
                                                   f"({po3.minTime!r},{po3.maxTime!r}) points {po3.pointList}"))
        elif st == "ok" and po2 is not None and not isinstance(po2, Exception) and not (po3 == po2):
            viols.append(Viol("long-short-differ", f"{tag}: long and short encodings open to unequal objects"))
    return n, "ok", (cls, len(pts), lo, hi), viols


def parts(tier):
    quick = tier == "quick"

    def gen_klatt():
        # plain round trips of synthetic grids: formants x points x value rotation x trailing blank x final newline
        for nform in (1, 2, 3):
            for npts in (0, 1, 2, 3):
                for vi in range(0, len(VALS), 1 if not quick else 3):
                    for trail in (" ", ""):
                        for fin in (True, False):
                            yield (("syn", nform, npts, vi, trail, fin), ())
        # time domains that do not start at 0
        # (the last three: a start a few ulps beyond a whole number, on the side away from zero, is not that whole number)
        for xmin in (0.0125, 0.35, -0.5, -2, 0.30000000000000004, 0.4999999999, 0.49999999999999994, -2.0000000000000004, -1.0000000000000002, -3.00000000000001):
            for nform in (1, 2):
                for npts in (0, 2):
                    yield (("syn", nform, npts, 0, " ", True, xmin), ())
            yield (("syn", 2, 2, 3, "", True, xmin), ((("oral_formants", "formants"), FUNCS[0]),))
            yield (("syn", 2, 2, 3, "", True, xmin), ((("pitch",), FUNCS[1]), (("oral_formants", "bandwidths", "bandwidths [1]"), FUNCS[3])))
        # the size axis: ten and more formants (two-digit indices), ten and more points per tier
        for nform in (9, 10, 11, 12, 25):
            for npts in (1, 10, 12):
                yield (("syn", nform, npts, 0, " ", True), ())
            yield (("syn", nform, 2, 3, "", True), ((("oral_formants", "formants"), FUNCS[0]),))
            yield (("syn", nform, 11, 3, "", True), ((("oral_formants", "bandwidths", "bandwidths [%d]" % nform), FUNCS[1]), (("pitch",), FUNCS[3])))
        # values that occur more than once within one tier (13 and 25 points over the 12 values): the function is still called once per VALUE
        # OCCURRENCE ("every value ... exactly once"), not once per distinct number
        for npts in (13, 25):
            for fs in (FUNCS[0], FUNCS[3]):
                yield (("syn", 2, npts, 0, " ", True), ((("pitch",), fs),))
                yield (("syn", 2, npts, 5, "", True), ((("oral_formants", "formants"), fs),))
                yield (("syn", 2, npts, 5, "", True), ((("oral_formants", "bandwidths", "bandwidths [2]"), fs), (("gain",), FUNCS[1])))
        # the whole time domain far from zero (2**30 s) with a fractional start: nothing may be taken for a whole number
        for xmin in (0.25, 2.0 ** -10, 0):
            for npts in (0, 2):
                yield (("syn", 2, npts, 0, " ", True, xmin, 2.0 ** 30), ())
            yield (("syn", 2, 2, 3, "", True, xmin, 2.0 ** 30), ((("oral_formants", "formants"), FUNCS[0]),))
        # every addressed tier x every function on a synthetic grid
        src = ("syn", 2, 2, 0, " ", True)
        addrs = [("pitch",), ("voicingAmplitude",), ("gain",), ("flutter",), ("oral_formants", "formants"), ("oral_formants", "bandwidths"),
                 ("nasal_antiformants", "oral_formants_amplitudes"), ("delta_formants", "bandwidths"),
                 ("frication_formants", "frication_formants_amplitudes"), ("oral_formants", "formants", "formants [2]"),
                 ("oral_formants", "bandwidths", "bandwidths [1]")]
        for a in addrs:
            for fs in FUNCS:
                yield (src, ((a, fs),))
                yield (("syn", 3, 3, 4, "", False), ((a, fs),))
        # all pairs of modifications on distinct tiers
        for a, b in itertools.combinations(addrs[:7] if quick else addrs, 2):
            for fa, fb in itertools.product(FUNCS[:5] if quick else FUNCS, repeat=2):
                yield (src, ((a, fa), (b, fb)))
        # the repository's reference KlattGrid
        yield (("ref",), ())
        ref_addrs = [("pitch",), ("voicingAmplitude",), ("oral_formants", "formants"), ("oral_formants", "bandwidths"),
                     ("oral_formants", "formants", "formants [5]"), ("oral_formants", "bandwidths", "bandwidths [5]")]
        for a in ref_addrs:
            for fs in FUNCS:
                yield (("ref",), ((a, fs),))
        if not quick:
            for a, b in itertools.combinations(ref_addrs, 2):
                for fa, fb in ((FUNCS[0], FUNCS[3]), (FUNCS[1], FUNCS[5])):
                    yield (("ref",), ((a, fa), (b, fb)))

    def gen_points():
        for n in range(0, 3 if quick else 4):
            for pts in itertools.product(PNUM, repeat=n):
                if n == 3 and len(set(pts)) < 3:
                    continue
                for lo, hi in ((0, None), (0.0, 10.0), (1e-05, 3), (0.5, 1e16), (0, 0)):
                    for cls in ("PointProcess", "PitchTier", "DurationTier"):
                        yield (cls, pts, lo, hi)
        for n in (9, 10, 11, 12, 100, 257, 300):  # the size axis: two- and three-digit point indices
            pts = tuple(PNUM[3] + 0.25 * i for i in range(n))
            for cls in ("PointProcess", "PitchTier", "DurationTier"):
                yield (cls, pts, 0, None)
                yield (cls, pts, 0.0, 100.0)

    return [
        InputPart("klattgrid", gen_klatt, _check_klatt,
                  rule="synthetic KlattGrids (independent Praat-layout writer; 1-3 formants x 0-3 points per tier x value rotations x trailing "
                       "blanks x final newline; also 9-25 formants with 1-12 points per tier; time domains starting at 0 and at 5 other values) and the reference KlattGrid: open, compare with what the file encodes, apply 0-2 "
                       "modifications (every addressed tier x 9 functions; all pairs on distinct tiers), save, reopen, compare every span, "
                       "time and value digit for digit, call counts, untouched tiers; non-trivial = distinct (source, modification list)",
                  bounds={"functions": len(FUNCS)}, chunk=4),
        InputPart("klattgrid-live-sequences", lambda: (seq for k in range(1, (4 if quick else 5) + 1) for seq in itertools.product(range(len(SEQ_OPS)), repeat=k)),
                  _check_sequence,
                  rule="EVERY sequence of up to %d operations from {save, modify one of %d addressed tiers (a top-level tier, two sub-tiers, a whole "
                       "intermediate tier holding one of them) with one of %d functions} on ONE live KlattGrid, followed by a save: the file written by every "
                       "save, reopened, holds exactly the modelled values (modifications of the same tier twice in a row, with and without a save between)"
                       % (4 if quick else 5, len(SEQ_ADDRS), len(SEQ_FUNCS)), bounds={"depth": 4 if quick else 5, "alphabet": len(SEQ_OPS)}, chunk=16),
        InputPart("klattgrid-built-through-api",
                  lambda: ((nform, perm, vi, npts) for nform in (1, 2, 3) for perm in itertools.permutations(range(1, nform + 1))
                           for vi in range(0, len(VALS), 3) for npts in (0, 1, 2)), _check_built,
                  rule="KlattGrids assembled through the API (pitch + oral_formants with formants/bandwidths [1..n], n<=3, sub-tiers inserted in "
                       "every order and placed with addTier(tier, tierIndex)): save -> open yields the same hierarchy, spans, times, values", bounds={}),
        InputPart("point-objects", gen_points, _check_points,
                  rule="all point lists of length 0-%d over %d numbers (integers, 17-digit decimals, exponents) x 3 object classes x 5 "
                       "spans: short form via save/open (class, span, points exactly), long form with/without trailing blanks via an "
                       "independent writer, long == short" % (2 if quick else 3, len(PNUM)), bounds={}, chunk=16),
    ]
