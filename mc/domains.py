"""Finite alphabets shared by the harnesses (DESIGN.md section 3).  Everything here is a
deterministic enumeration in a simplest-first order; nothing is random."""
import itertools

# ------------------------------------------------------------------ time grids
DEC = (0.1, 0.2, 0.3, 0.7, 1.1, 1.3, 2.3)  # non-dyadic decimals
DEC_EDGES = (0.15, 0.45, 0.9, 1.2, 1.9)
DEC_DUR = (0.1, 0.3, 0.7, 1.7)
# ulp-neighbour grid: pairs of floats one ulp apart (0.1+0.2 vs 0.3, 0.1+0.7 vs 0.8) - near-coincidences that are not coincidences
ULP = (0.1, 0.3, 0.1 + 0.2, 0.1 + 0.7, 0.8, 1.3)


def ulp_spans():
    """(lo, hi, grid points inside) for the ulp grid: the whole grid, and spans whose end / start has its one-ulp neighbour INSIDE the span
    (0.7999999999999999 < 0.8, 0.3 < 0.30000000000000004) - an argument one ulp inside the span's end is inside"""
    u = tuple(sorted(ULP))
    return [(lo, hi, tuple(x for x in u if lo <= x <= hi)) for lo, hi in ((u[0], u[-1]), (u[0], u[4]), (u[1], u[-1]), (u[1], u[4]))]


# far-from-zero grid: dyadic offsets from 2**40 (~1.1e12 s), all exactly representable, so the exact oracle applies bit for bit.
# At this magnitude a RELATIVE tolerance is a real duration: math.isclose's default 1e-9 is ~1100 s (all grid values are
# "close" to each other), praatio's 1e-14 is ~0.011 s (BIG[0] and BIG[1], 2**-7 = 7.8 ms apart, are "close"; the others are not).
BIG0 = 2.0 ** 40
BIG = tuple(BIG0 + x for x in (0.0, 2.0 ** -7, 0.25, 0.5, 1.0, 2.0, 3.0, 4.0))
SLV = (1e-12, 1e-10, 5e-9, 9.9e-9, 1e-8, 1.1e-8, 2e-8, 5e-8)


def unit_grid(n):
    return tuple(float(i) for i in range(n))


def half_grid(lo, hi):
    """every multiple of 0.5 in [lo, hi]"""
    return tuple(x / 2.0 for x in range(int(lo * 2), int(hi * 2) + 1))


def interval_sets(grid, maxn):
    """All sets of <= maxn pairwise non-overlapping intervals (touching allowed) whose end
    points lie on the grid; simplest first (fewer intervals first)."""
    grid = tuple(grid)
    ivs = [(a, b) for a in grid for b in grid if a < b]
    out = []

    def rec(start, cur):
        out.append(tuple(cur))
        if len(cur) == maxn:
            return
        for (a, b) in ivs:
            if a >= start:
                cur.append((a, b))
                rec(b, cur)
                cur.pop()

    rec(grid[0], [])
    out.sort(key=lambda t: (len(t), t))
    return out


def labelled(ivset, labels="abc"):
    return tuple((a, b, labels[i % len(labels)]) for i, (a, b) in enumerate(ivset))


def label_assignments(ivset, alphabet):
    for labs in itertools.product(alphabet, repeat=len(ivset)):
        yield tuple((a, b, l) for (a, b), l in zip(ivset, labs))


def point_sets(grid, maxn):
    out = []
    for n in range(0, maxn + 1):
        for pts in itertools.combinations(grid, n):
            out.append(tuple(pts))
    return out


def labelled_points(pts, labels="xyz"):
    return tuple((t, labels[i % len(labels)]) for i, t in enumerate(pts))


def cell_tiers(ncells, labels):
    """All interval tiers on ncells unit cells: every cell is a gap, starts a new interval
    (with any label) or continues the open interval."""
    out = []

    def rec(i, cur, open_):
        if i == ncells:
            out.append(tuple((float(a), float(b), l) for a, b, l in cur))
            return
        rec(i + 1, cur, False)
        for l in labels:
            cur.append([i, i + 1, l])
            rec(i + 1, cur, True)
            cur.pop()
        if open_:
            cur[-1][1] = i + 1
            rec(i + 1, cur, True)
            cur[-1][1] = i

    rec(0, [], False)
    out.sort(key=lambda t: (len(t), t))
    return out


# ------------------------------------------------------------------ labels
SIGMA = ("a", '"', "\n", "=", "1", " ", "é")


def label_strings(maxlen, alphabet=SIGMA, allow_empty=True):
    """All strings over the alphabet up to maxlen, normalised by strip() and de-duplicated,
    shortest first."""
    seen = set()
    out = []
    for n in range(0, maxlen + 1):
        for tup in itertools.product(alphabet, repeat=n):
            s = "".join(tup).strip()
            if s in seen:
                continue
            if not s and not allow_empty:
                continue
            seen.add(s)
            out.append(s)
    return out


KEYWORDS = (
    "item [2]:", "item[2]", "intervals [1]:", "points [1]:", "IntervalTier", '"IntervalTier"',
    "TextTier", 'class = "IntervalTier"', 'text = "x"', 'name = "q"', "xmin = 5", "size = 0",
    "<exists>", "ooTextFile short", "! c",
)

# ------------------------------------------------------------------ numbers
import math as _math


def _ulp_neighbours(x):
    return (_math.nextafter(x, -_math.inf), _math.nextafter(x, _math.inf))


NUM_QUICK = (
    -1234.5678, -2.5, -1.0, -0.3, -1e-05, 0.0, 1e-17, 1e-05, 1.5e-05, 5e-05, 9.999e-05, 1e-04, 0.0001234, 0.1, 0.3, 1 / 3, 0.5, 1.0,
    _math.nextafter(1.0, 0.0), _math.nextafter(1.0, 2.0), 1 - 1e-13, 1 + 1e-13, 1 + 1e-10, 2.5,
    3.0000000000000004, 1234.5678, 123456789012345.6, 999999999999999.9, 1e15, 2.0 ** 52 + 0.5,
)


def num_thorough():
    out = list(NUM_QUICK)
    out += [k / 10 for k in range(1, 51)]
    out += [2.0 ** k for k in range(-20, 50, 3)]
    out += [10.0 ** k for k in range(-17, 16)]
    for k in range(1, 11):
        out += list(_ulp_neighbours(float(k)))
    for k in range(1, 15):
        out += list(_ulp_neighbours(10.0 ** k))
    out += [k / 7 for k in range(1, 30)]
    seen = set()
    res = []
    for x in out:
        if x not in seen and -1e15 <= x <= 1e15:
            seen.add(x)
            res.append(x)
    return tuple(res)


# ------------------------------------------------------------------ the size axis
# Small inputs carry most defects, but not those of code that treats long inputs differently (block-wise scans, bisection, one-digit
# patterns, identity comparison of ints above CPython's small-int cache, chunked reads).  The size families below are enumerated
# completely for each listed size; all positions are multiples of 0.25, so the exact oracles apply bit for bit.
SIZES_QUICK = (10, 11, 16, 17, 33, 64, 257, 258)
SIZES_THOROUGH = SIZES_QUICK + (12, 32, 65, 100, 128, 129, 300, 1000)


def long_intervals(n, gapped=True, labels=None):
    """n intervals: gapped -> (2i, 2i+1.5) with 0.5 s gaps; contiguous -> (i, i+1)"""
    lab = (lambda i: "w%d" % i) if labels is None else (lambda i: labels[i % len(labels)])
    if gapped:
        return tuple((2.0 * i, 2.0 * i + 1.5, lab(i)) for i in range(n))
    return tuple((1.0 * i, 1.0 * i + 1.0, lab(i)) for i in range(n))


def long_points(n, labels=None):
    lab = (lambda i: "p%d" % i) if labels is None else (lambda i: labels[i % len(labels)])
    return tuple((1.0 * i + 0.5, lab(i)) for i in range(n))


def probe_indices(n):
    """entry indices at which a length-dependent shortcut would go wrong first: both ends, the bisection probes, block edges"""
    idx = {0, 1, 8, 9, 10, 15, 16, n // 4, n // 2 - 1, n // 2, 3 * n // 4, n - 2, n - 1, 255, 256, 257}
    return tuple(sorted(i for i in idx if 0 <= i < n))


def size_cuts(entries, idx=None):
    """times in / at / between the probed entries: just before the start (in the gap, if any), the start, inside, the end"""
    n = len(entries)
    out = set()
    for i in (probe_indices(n) if idx is None else idx):
        e = entries[i]
        s, t = e[0], e[-2] if len(e) == 3 else e[0]
        out.update((s - 0.25, s, s + 0.25, t))
    return tuple(sorted(out))


def size_windows(cuts, near=8, far=4):
    """ordered pairs a < b of cut times: b among the next `near` cuts after a, or among the last `far` cuts (wide windows)"""
    out = []
    n = len(cuts)
    for i, a in enumerate(cuts):
        js = set(range(i + 1, min(n, i + 1 + near))) | set(range(max(i + 1, n - far), n))
        for j in sorted(js):
            out.append((a, cuts[j]))
    return out


def size_family(quick, kinds=("gapped", "contiguous")):
    """(n, layout, entries) for every size of the tier"""
    for n in (SIZES_QUICK if quick else SIZES_THOROUGH):
        for k in kinds:
            if n > 130 and k == "gapped" and quick:
                continue
            yield n, k, long_intervals(n, k == "gapped")
