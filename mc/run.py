"""Entry point:  python -m mc.run <PROP> quick|thorough   |   python -m mc.run <PROP> --replay <file>"""
import importlib
import json
import os
import sys
import time

from mc import engine

ROOT = os.path.dirname(os.path.dirname(os.path.abspath(__file__)))
# the mutant runner points these at a scratch directory so that evidence/ and replays/ of the
# real tree are never overwritten by a run against a modified copy
EVDIR = os.environ.get("VERIF_EVIDENCE_DIR") or os.path.join(ROOT, "evidence")
RPDIR = os.environ.get("VERIF_REPLAY_DIR") or os.environ.get("VERIF_EVIDENCE_DIR") or os.path.join(ROOT, "replays")


def load_known(prop):
    path = os.path.join(ROOT, "known_findings.json")
    if not os.path.exists(path):
        return []
    with open(path) as fd:
        data = json.load(fd)
    return [e for e in data.get("findings", []) if e.get("property") == prop and e.get("status") == "known"]


def sig_matches(entry_sig, sig):
    if not isinstance(sig, dict) or not isinstance(entry_sig, dict):
        return False
    return all(sig.get(k) == v for k, v in entry_sig.items()) and set(sig) == set(entry_sig)


def _all_parts(mod, prop, tier):
    """the property's own parts plus the shared default-arguments part (mc/props/defaults.py) reporting-modes part (mc/props/reports.py) results-as-operands part (mc/props/compose.py) path-shapes part (mc/props/paths.py) two-threads part (mc/props/threads.py) trivial-subclass part (mc/props/subclass.py) and keyword-call-forms part (mc/props/callforms.py),
    where their tables have rows for it"""
    parts = list(mod.parts(tier))
    from mc.props import defaults
    if any(r[0] == prop for r in defaults.table()):
        parts.append(defaults.part(prop))
    from mc.props import reports
    rp = reports.part(prop)
    if rp is not None:
        parts.append(rp)
    from mc.props import compose
    cp = compose.part(prop)
    if cp is not None:
        parts.append(cp)
    from mc.props import paths
    pp = paths.part(prop)
    if pp is not None:
        parts.append(pp)
    from mc.props import threads
    tp = threads.part(prop, tier) if not os.environ.get("VERIF_CHILD") else None
    if tp is not None:
        parts.append(tp)
    from mc.props import optimised
    op = optimised.part(prop)
    if op is not None:
        parts.append(op)
    from mc.props import poisoned
    pp2 = poisoned.part(prop)
    if pp2 is not None:
        parts.append(pp2)
    from mc.props import subclass
    sp = subclass.part(prop)
    if sp is not None:
        parts.append(sp)
    from mc.props import callforms
    kp = callforms.part(prop)
    if kp is not None:
        parts.append(kp)
    return parts


def main(argv):
    if len(argv) < 1:
        print(__doc__)
        return 2
    prop = argv[0].upper()
    os.chdir(ROOT)
    # the host application's logging configuration (set by the two child runs): everything below CRITICAL switched off / the root logger at DEBUG.
    # A library that routes its reports through `logging`, or does extra work "only when debugging", behaves differently under them
    how = os.environ.get("VERIF_LOGGING")
    if how:
        import logging
        if how == "disabled":
            logging.disable(logging.CRITICAL)
        else:
            logging.basicConfig(level=logging.DEBUG, handlers=[logging.NullHandler()])
    src = engine.load_praatio()
    if os.environ.get("VERIF_PRELUDE"):      # the process gets a past before anything is checked (mc/props/prelude.py); workers are forked later
        from mc.props import prelude
        prelude.run()
    mod = importlib.import_module("mc.props." + prop.lower())
    if len(argv) >= 3 and argv[1] == "--replay":
        return replay(prop, mod, argv[2])
    tier = argv[1] if len(argv) > 1 else os.environ.get("VERIF_TIER", "quick")
    if tier not in ("quick", "thorough"):
        print("tier must be quick or thorough")
        return 2
    try:
        seed = int(os.environ.get("VERIF_SEED", "0"))
    except ValueError:
        seed = 0
    t0 = time.time()

    def log(*a):
        print(*a, file=sys.stderr, flush=True)

    log(f"[{prop}] tier={tier} seed={seed} praatio={src} nproc={engine.NPROC}")
    parts = _all_parts(mod, prop, tier)
    results = engine.run_parts(parts, seed=seed, log=log)
    wall = time.time() - t0
    return report(prop, mod, tier, seed, parts, results, wall, src)


def report(prop, mod, tier, seed, parts, results, wall, src):
    known = load_known(prop)
    known_hit = {}
    new_viols = []
    nondet = []
    for part in parts:
        tot = results[part.name]
        nondet += [(part.name,) + tuple(x) for x in tot["nondet"]]
        for idx, case_repr, v in sorted(tot["viols"], key=lambda x: (x[0], x[1])):
            entry = next((e for e in known if sig_matches(e.get("signature"), v.get("sig"))), None)
            if entry is not None:
                known_hit.setdefault(json.dumps(entry["signature"], sort_keys=True), (entry, 0))
                e, n = known_hit[json.dumps(entry["signature"], sort_keys=True)]
                known_hit[json.dumps(entry["signature"], sort_keys=True)] = (e, n + 1)
            else:
                new_viols.append((part, idx, case_repr, v))
    # the number of violations that are known findings may exceed what was transferred;
    # recount conservatively: every violation that was not transferred counts as new
    transferred = sum(len(results[p.name]["viols"]) for p in parts)
    total_viol = sum(results[p.name]["nviol"] for p in parts)

    for key, (entry, n) in sorted(known_hit.items()):
        print(f"KNOWN-FINDING: property={prop} {entry.get('what', key)}")

    os.makedirs(RPDIR, exist_ok=True)
    printed = set()
    replay_paths = []
    for part, idx, case_repr, v in new_viols:
        key = (part.name, v["kind"], json.dumps(v.get("sig"), sort_keys=True))
        if key in printed:
            continue
        printed.add(key)
        rid = "%016x" % engine.h64((part.name, case_repr, v["kind"]))
        path = os.path.join(RPDIR, f"{prop}-{rid[:12]}.json")
        snippet = None
        if part.snippet:
            try:
                snippet = part.snippet(engine.parse_case(case_repr))
            except Exception as e:  # pragma: no cover
                snippet = f"# snippet unavailable: {e!r}"
        with open(path, "w") as fd:
            json.dump({"property": prop, "part": part.name, "tier": tier, "case_index": idx,
                       "case": case_repr, "violation": v, "snippet": snippet,
                       "replay": f"./check {prop} --replay {path}"}, fd, indent=1)
        replay_paths.append(path)
        print(f"VIOLATION property={prop} replay={path}")
        print(f"  part={part.name} kind={v['kind']} case#{idx}: {case_repr[:400]}")
        print(f"  {v['msg'][:600]}")
        if len(printed) >= 25:
            break
    for n in nondet[:5]:
        print(f"VIOLATION property={prop} replay=none  (nondeterministic observation in part {n[0]} case#{n[1]}: {n[2]})")

    coverage = build_coverage(prop, parts, results, known_hit, tier)
    nviol_new = len(new_viols) + max(0, total_viol - transferred)
    evidence = {
        "property_id": prop,
        "tier": tier,
        "seed": seed,
        "level": "model_checking",
        "coverage": coverage,
        "assumptions": getattr(mod, "ASSUMPTIONS", []) + [
            "CPython float/repr/struct/json semantics",
            "reference models and independent codecs under /verif/mc/models are correct",
            f"praatio imported from {src} (current working tree)",
        ],
        "wall_s": round(wall, 3),
        "violations": nviol_new + len(nondet),
    }
    os.makedirs(EVDIR, exist_ok=True)
    with open(os.path.join(EVDIR, f"{prop}.json"), "w") as fd:
        json.dump(evidence, fd, indent=1, sort_keys=True)
        fd.write("\n")
    status = "FAIL" if (new_viols or nondet) else "ok"
    print(f"[{prop}] {status}: states={coverage['states']} transitions={coverage['transitions']} "
          f"evaluations={coverage['evaluations']} distinct_nontrivial={coverage['distinct_nontrivial']} "
          f"outcomes={coverage['distinct_outcomes']} known_findings_hit={len(known_hit)} "
          f"violations={nviol_new} wall={wall:.1f}s digest={coverage['run_digest']}")
    return 1 if (new_viols or nondet) else 0


def build_coverage(prop, parts, results, known_hit, tier):
    states = sum(results[p.name]["states"] for p in parts)
    trans = sum(results[p.name]["trans"] for p in parts)
    evals = sum(results[p.name]["evals"] for p in parts)
    nontriv = sum(len(results[p.name]["nontriv"]) for p in parts)
    digest = 0
    per_part = {}
    samples = []
    outcomes_all = set()
    exhaustive = True
    pruned = 0
    for p in parts:
        t = results[p.name]
        digest = (digest + t["digest"]) & (2**64 - 1)
        exhaustive = exhaustive and t["exhaustive"]
        pruned += t["pruned"]
        outcomes_all |= {(p.name, o) for o in t["outcomes"]}
        top = dict(sorted(t["outcomes"].items(), key=lambda kv: (-kv[1], kv[0]))[:12])
        per_part[p.name] = {
            "kind": p.kind,
            "cases_or_expansions": t["evals"],
            "states": t["states"],
            "transitions": t["trans"],
            "distinct_nontrivial": len(t["nontriv"]),
            "distinct_nontrivial_tracking_capped": t["nontriv_capped"],
            "rule": p.rule,
            "bounds": p.bounds,
            "distinct_outcomes": len(t["outcomes"]),
            "outcome_histogram_top": top,
            "exhaustive_within_bounds": t["exhaustive"],
            "depth_completed": t["depth_completed"],
            "pruned_by_bound": t["pruned"],
            "notes": t["notes"],
            "violations_incl_known": t["nviol"],
            "wall_s": round(t.get("wall_s", 0), 2),
        }
        for idx, case_repr, outcome in sorted(t["samples"])[:2]:
            samples.append({"part": p.name, "case_index": idx, "case": case_repr, "outcome": outcome})
    return {
        "states": states,
        "transitions": trans,
        "traces_validated_against_impl": trans,
        "evaluations": evals,
        "distinct_nontrivial": nontriv,
        "rule": "; ".join(f"{p.name}: {p.rule}" for p in parts),
        "samples": samples,
        "exhaustive": exhaustive,
        "distinct_outcomes": len(outcomes_all),
        "pruned_by_bound": pruned,
        "known_findings_hit": sorted(e["what"] for e, _ in known_hit.values()),
        "run_digest": "%016x" % digest,
        "parts": per_part,
        "explanation": "every case/transition listed was executed on the real praatio code and "
                       "compared with the reference model or oracle; states = distinct canonical "
                       "inputs/states, transitions = real-code operation executions; "
                       "traces_validated_against_impl equals transitions because no model-only "
                       "exploration exists",
    }


def _fresh(x):
    if isinstance(x, str):
        return "".join(list(x)) if len(x) > 1 else x
    if isinstance(x, tuple):
        return tuple(_fresh(v) for v in x)
    if isinstance(x, list):
        return [_fresh(v) for v in x]
    return x


def replay(prop, mod, path):
    with open(path) as fd:
        rec = json.load(fd)
    parts = {p.name: p for p in _all_parts(mod, rec.get("property", prop), rec.get("tier", "quick"))}
    part = parts[rec["part"]]
    case = _fresh(engine.parse_case(rec["case"]))  # option strings equal to, but not identical with, interned literals
    res1 = engine._safe_check(part, case)
    res2 = engine._safe_check(part, case)
    n, outcome, nontriv, viols = res1
    print(f"replay {prop} part={part.name} case={rec['case'][:500]}")
    print(f"outcome={outcome}")
    if [v["kind"] for v in viols] != [v["kind"] for v in res2[3]]:
        print("NONDETERMINISTIC replay: two executions disagree")
        return 1
    known = load_known(prop)
    bad = 0
    for v in viols:
        if any(sig_matches(e.get("signature"), v.get("sig")) for e in known):
            print(f"KNOWN-FINDING: property={prop} {v['kind']}")
            continue
        bad += 1
        print(f"VIOLATION property={prop} replay={path}")
        print(f"  kind={v['kind']}  {v['msg'][:800]}")
    if not bad:
        print("no violation on this tree")
    return 1 if bad else 0


if __name__ == "__main__":
    sys.exit(main(sys.argv[1:]))
