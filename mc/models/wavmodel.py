"""Reference model for recordings: (width, rate, list of ints) with exact-rational time -> sample index, and an
independent RIFF/WAVE reader and writer using only struct (no use of the wave module or of praatio)."""
import struct
from fractions import Fraction as F

CODES = {1: "b", 2: "h", 4: "i"}
TIE = F(1, 10 ** 9)


def indices(t, rate):
    """Sample indices that are 'nearest to t*rate' in exact arithmetic; two candidates within 1e-9 of a tie."""
    x = F(t) * rate
    lo = x.__floor__()
    fr = x - lo
    if abs(fr - F(1, 2)) < TIE:
        return [lo, lo + 1]
    return [lo] if fr < F(1, 2) else [lo + 1]


def is_tie(t, rate):
    return len(indices(t, rate)) > 1


def pack(samples, width):
    return struct.pack("<" + CODES[width] * len(samples), *samples)


def unpack(data, width):
    n = len(data) // width
    return list(struct.unpack("<" + CODES[width] * n, data[:n * width]))


def value_range(width):
    return -(2 ** (8 * width - 1)), 2 ** (8 * width - 1) - 1


def write_riff(path, samples, width, rate):
    data = pack(samples, width)
    fmt = struct.pack("<HHIIHH", 1, 1, rate, rate * width, width, 8 * width)
    body = b"WAVE" + b"fmt " + struct.pack("<I", len(fmt)) + fmt + b"data" + struct.pack("<I", len(data)) + data
    with open(path, "wb") as fd:
        fd.write(b"RIFF" + struct.pack("<I", len(body)) + body)


def read_riff(path):
    """-> dict(channels, width, rate, samples, declared_data_bytes, actual_data_bytes)"""
    with open(path, "rb") as fd:
        raw = fd.read()
    if raw[:4] != b"RIFF" or raw[8:12] != b"WAVE":
        raise ValueError("not a RIFF/WAVE file")
    riff_size = struct.unpack("<I", raw[4:8])[0]
    pos = 12
    fmt = None
    data = None
    declared = None
    while pos + 8 <= len(raw):
        cid = raw[pos:pos + 4]
        size = struct.unpack("<I", raw[pos + 4:pos + 8])[0]
        chunk = raw[pos + 8:pos + 8 + size]
        if cid == b"fmt ":
            fmt = struct.unpack("<HHIIHH", chunk[:16])
        elif cid == b"data":
            data = chunk
            declared = size
        pos += 8 + size + (size & 1)
    if fmt is None or data is None:
        raise ValueError("missing fmt or data chunk")
    tag, channels, rate, byterate, blockalign, bits = fmt
    width = bits // 8
    return {"format_tag": tag, "channels": channels, "width": width, "rate": rate, "samples": unpack(data, width),
            "declared_data_bytes": declared, "actual_data_bytes": len(data), "riff_size": riff_size,
            "file_size": len(raw), "block_align": blockalign, "byte_rate": byterate}
