"""Independent TextGrid codec written from Praat's published file-format description
(manual page "TextGrid file formats") and the JSON schemas in praatIO's README ("Output types").
It shares no code with praatIO.

Reader.  Praat reads text files token-wise: only free-standing numbers, double-quoted strings
(with "" for a quote) and <flags> count; '!' starts a comment to the end of the line; everything
else (xmin, =, item, [1]:, intervals: ...) is ignored.  The long and the short layout are therefore
the same token sequence:

    "ooTextFile" "TextGrid" xmin xmax <exists> size
      { class name xmin xmax size { xmin xmax text | number mark }* }*

decode_text() tokenizes, then parses that grammar with size checks and an end-of-input check.

Writers.  Praat-long, ELAN-long (item[1]:, 'intervals [1]' without colon, no trailing blanks), short,
and both JSON schemas, in any number notation.
"""
import json
import re

NUM_RE = re.compile(r"[-+]?(?:\d+\.?\d*|\.\d+)(?:[eE][-+]?\d+)?\Z")


class FormatError(Exception):
    pass


def tokenize(text):
    """-> list of ('s', str) | ('n', token_text) | ('f', flag)"""
    toks = []
    i, n = 0, len(text)
    while i < n:
        c = text[i]
        if c in " \t\r\n\f\v":
            i += 1
        elif c == '"':
            j = i + 1
            buf = []
            while True:
                if j >= n:
                    raise FormatError("unterminated string starting at offset %d" % i)
                if text[j] == '"':
                    if j + 1 < n and text[j + 1] == '"':
                        buf.append('"')
                        j += 2
                        continue
                    break
                buf.append(text[j])
                j += 1
            toks.append(("s", "".join(buf)))
            i = j + 1
        elif c == "!":
            while i < n and text[i] != "\n":
                i += 1
        elif c == "<":
            j = text.find(">", i)
            if j < 0:
                raise FormatError("unterminated flag")
            toks.append(("f", text[i:j + 1]))
            i = j + 1
        else:
            j = i
            while j < n and text[j] not in ' \t\r\n\f\v"':
                j += 1
            word = text[i:j]
            if NUM_RE.match(word):
                toks.append(("n", word))
            i = j
    return toks


def _num(tok):
    """number token -> int when written without point/exponent, else float"""
    if re.match(r"[-+]?\d+\Z", tok):
        return int(tok)
    return float(tok)


class _Cur:
    def __init__(self, toks):
        self.t = toks
        self.i = 0

    def take(self, kind, what):
        if self.i >= len(self.t):
            raise FormatError(f"unexpected end of file, expected {what}")
        k, v = self.t[self.i]
        if k != kind:
            raise FormatError(f"expected {what} ({kind}), found {k}:{v!r} at token {self.i}")
        self.i += 1
        return v

    def done(self):
        return self.i >= len(self.t)


def decode_text(text):
    """Long or short TextGrid text -> dict(xmin, xmax, tiers=[dict(class, name, xmin, xmax, entries)])."""
    cur = _Cur(tokenize(text))
    if cur.take("s", "file type") != "ooTextFile":
        raise FormatError("file type is not ooTextFile")
    if cur.take("s", "object class") != "TextGrid":
        raise FormatError("object class is not TextGrid")
    xmin = _num(cur.take("n", "xmin"))
    xmax = _num(cur.take("n", "xmax"))
    if cur.take("f", "<exists>") != "<exists>":
        raise FormatError("tiers? flag is not <exists>")
    ntiers = _num(cur.take("n", "number of tiers"))
    if not isinstance(ntiers, int) or ntiers < 0:
        raise FormatError("tier count is not a natural number")
    tiers = []
    for k in range(ntiers):
        cls = cur.take("s", "tier class")
        if cls not in ("IntervalTier", "TextTier"):
            raise FormatError(f"unknown tier class {cls!r} for tier {k + 1}")
        name = cur.take("s", "tier name")
        tmin = _num(cur.take("n", "tier xmin"))
        tmax = _num(cur.take("n", "tier xmax"))
        size = _num(cur.take("n", "tier size"))
        if not isinstance(size, int) or size < 0:
            raise FormatError("entry count is not a natural number")
        entries = []
        for _ in range(size):
            if cls == "IntervalTier":
                a = _num(cur.take("n", "interval xmin"))
                b = _num(cur.take("n", "interval xmax"))
                entries.append((a, b, cur.take("s", "interval text")))
            else:
                a = _num(cur.take("n", "point number"))
                entries.append((a, cur.take("s", "point mark")))
        tiers.append({"class": cls, "name": name, "xmin": tmin, "xmax": tmax, "entries": entries})
    if not cur.done():
        k, v = cur.t[cur.i]
        raise FormatError(f"{len(cur.t) - cur.i} tokens after the last declared item, first is {k}:{v!r} "
                          "(a declared size is smaller than the number of items that follow)")
    return {"xmin": xmin, "xmax": xmax, "tiers": tiers}


def decode_json(text, schema):
    try:
        d = json.loads(text)
    except ValueError as e:
        raise FormatError("not JSON: %s" % e)
    if schema == "textgrid_json":
        if set(d) != {"xmin", "xmax", "tiers"} or not isinstance(d["tiers"], list):
            raise FormatError("textgrid_json: top-level keys %s" % sorted(d))
        tiers = []
        for t in d["tiers"]:
            if set(t) != {"class", "name", "xmin", "xmax", "entries"}:
                raise FormatError("textgrid_json: tier keys %s" % sorted(t))
            tiers.append({"class": t["class"], "name": t["name"], "xmin": t["xmin"], "xmax": t["xmax"],
                          "entries": [_jentry(t["class"], e) for e in t["entries"]]})
        return {"xmin": d["xmin"], "xmax": d["xmax"], "tiers": tiers}
    if set(d) != {"start", "end", "tiers"} or not isinstance(d["tiers"], dict):
        raise FormatError("json: top-level keys %s" % sorted(d))
    tiers = []
    for name, t in d["tiers"].items():
        if set(t) != {"type", "entries"}:
            raise FormatError("json: tier keys %s" % sorted(t))
        tiers.append({"class": t["type"], "name": name, "xmin": d["start"], "xmax": d["end"],
                      "entries": [_jentry(t["type"], e) for e in t["entries"]]})
    return {"xmin": d["start"], "xmax": d["end"], "tiers": tiers}


def _jentry(cls, e):
    if cls == "IntervalTier":
        if len(e) != 3 or not isinstance(e[2], str) or any(isinstance(v, (str, bool)) for v in e[:2]):
            raise FormatError("bad interval entry %r" % (e,))
    elif cls == "TextTier":
        if len(e) != 2 or not isinstance(e[1], str) or isinstance(e[0], (str, bool)):
            raise FormatError("bad point entry %r" % (e,))
    else:
        raise FormatError("unknown tier class %r" % (cls,))
    return tuple(e)


def decode(text, fmt):
    if fmt in ("long_textgrid", "short_textgrid"):
        return decode_text(text)
    return decode_json(text, fmt)


# ------------------------------------------------------------------ line-level layout conformance
_STR = r'"(?:[^"]|"")*"'
_N = r"[-+]?(?:\d+\.?\d*|\.\d+)(?:[eE][-+]?\d+)?"


def check_long_layout(text):
    """The long layout as documented in the Praat manual: field names and their order.  A token reader
    cannot see a swapped 'xmin'/'xmax' pair of lines; this does.  Returns None or a message."""
    pos = 0

    def eat(pattern, what):
        nonlocal pos
        m = re.compile(pattern).match(text, pos)
        if not m:
            line = text[pos:pos + 60].split("\n")[0]
            raise FormatError(f"long layout: expected {what} at offset {pos}, found {line!r}")
        pos = m.end()
        return m

    try:
        eat(r'File type = "ooTextFile"[ \t]*\n', "file type line")
        eat(r'Object class = "TextGrid"[ \t]*\n', "object class line")
        eat(r"[ \t]*\n", "blank line")
        eat(rf"xmin = {_N}[ \t]*\n", "xmin")
        eat(rf"xmax = {_N}[ \t]*\n", "xmax")
        eat(r"tiers\? <exists>[ \t]*\n", "tiers? <exists>")
        nt = int(eat(r"size = (\d+)[ \t]*\n", "size").group(1))
        eat(r"item \[\]:[ \t]*\n", "item []:")
        for k in range(1, nt + 1):
            eat(rf"[ \t]*item \[{k}\]:[ \t]*\n", f"item [{k}]:")
            cls = eat(r'[ \t]*class = "(IntervalTier|TextTier)"[ \t]*\n', "class").group(1)
            eat(rf"[ \t]*name = {_STR}[ \t]*\n", "name")
            eat(rf"[ \t]*xmin = {_N}[ \t]*\n", "tier xmin")
            eat(rf"[ \t]*xmax = {_N}[ \t]*\n", "tier xmax")
            word = "intervals" if cls == "IntervalTier" else "points"
            n = int(eat(rf"[ \t]*{word}: size = (\d+)[ \t]*\n", f"{word}: size").group(1))
            for j in range(1, n + 1):
                eat(rf"[ \t]*{word} \[{j}\]:[ \t]*\n", f"{word} [{j}]:")
                if cls == "IntervalTier":
                    eat(rf"[ \t]*xmin = {_N}[ \t]*\n", "interval xmin")
                    eat(rf"[ \t]*xmax = {_N}[ \t]*\n", "interval xmax")
                    eat(rf"[ \t]*text = {_STR}[ \t]*\n", "text")
                else:
                    eat(rf"[ \t]*number = {_N}[ \t]*\n", "number")
                    eat(rf"[ \t]*mark = {_STR}[ \t]*\n", "mark")
        if text[pos:].strip():
            raise FormatError(f"long layout: trailing content {text[pos:pos + 40]!r}")
    except FormatError as e:
        return str(e)
    return None


def check_short_layout(text):
    pos = 0

    def eat(pattern, what):
        nonlocal pos
        m = re.compile(pattern).match(text, pos)
        if not m:
            line = text[pos:pos + 60].split("\n")[0]
            raise FormatError(f"short layout: expected {what} at offset {pos}, found {line!r}")
        pos = m.end()
        return m

    try:
        eat(r'File type = "ooTextFile"[ \t]*\n', "file type line")
        eat(r'Object class = "TextGrid"[ \t]*\n', "object class line")
        eat(r"[ \t]*\n", "blank line")
        eat(rf"{_N}[ \t]*\n", "xmin")
        eat(rf"{_N}[ \t]*\n", "xmax")
        eat(r"<exists>[ \t]*\n", "<exists>")
        nt = int(eat(r"(\d+)[ \t]*\n", "size").group(1))
        for k in range(nt):
            cls = eat(r'"(IntervalTier|TextTier)"[ \t]*\n', "class").group(1)
            eat(rf"{_STR}[ \t]*\n", "name")
            eat(rf"{_N}[ \t]*\n", "tier xmin")
            eat(rf"{_N}[ \t]*\n", "tier xmax")
            n = int(eat(r"(\d+)[ \t]*\n", "tier size").group(1))
            for j in range(n):
                eat(rf"{_N}[ \t]*\n", "time")
                if cls == "IntervalTier":
                    eat(rf"{_N}[ \t]*\n", "end time")
                eat(rf"{_STR}[ \t]*\n", "label")
        if text[pos:].strip():
            raise FormatError(f"short layout: trailing content {text[pos:pos + 40]!r}")
    except FormatError as e:
        return str(e)
    return None


# ------------------------------------------------------------------ writers (used as the encoder in C03)
def fmt_num(x, notation="repr"):
    """Render a number in one of several notations a conformant writer may use."""
    if notation == "repr":
        if float(x) == int(x) and abs(x) < 1e15:
            return str(int(x))
        return repr(float(x))
    if notation == "float":  # always with a decimal point or exponent
        return repr(float(x))
    if notation == "int" and float(x) == int(x):
        return str(int(x))
    if notation == "trailing0":  # 1.50
        r = repr(float(x))
        return r + "0" if ("e" not in r and "E" not in r) else r
    if notation == "exp":  # 1.5e+00
        return "%.17e" % float(x)
    if notation == "EXP":
        return ("%.17e" % float(x)).upper()
    return repr(float(x))


def q(s):
    return '"' + s.replace('"', '""') + '"'


def encode_long(tg, style="praat", notation="repr", neg_zero=False):
    """tg: dict(xmin, xmax, tiers=[dict(class,name,xmin,xmax,entries)])"""
    elan = style == "elan"
    tr = "" if elan else " "
    fn = lambda x: ("-0" if (neg_zero and x == 0) else fmt_num(x, notation))
    out = ['File type = "ooTextFile"', 'Object class = "TextGrid"', ""]
    out.append(f"xmin = {fmt_num(tg['xmin'], notation)}{tr}")
    out.append(f"xmax = {fmt_num(tg['xmax'], notation)}{tr}")
    out.append(f"tiers? <exists>{tr}")
    out.append(f"size = {len(tg['tiers'])}{tr}")
    out.append(f"item []:{tr}")
    for k, t in enumerate(tg["tiers"], 1):
        out.append(("    item[%d]:" if elan else "    item [%d]:") % k)
        out.append(f'        class = "{t["class"]}"{tr}')
        out.append(f"        name = {q(t['name'])}{tr}")
        out.append(f"        xmin = {fn(t['xmin'])}{tr}")
        out.append(f"        xmax = {fmt_num(t['xmax'], notation)}{tr}")
        if t["class"] == "IntervalTier":
            out.append(f"        intervals: size = {len(t['entries'])}{tr}")
            for j, (a, b, l) in enumerate(t["entries"], 1):
                out.append(("        intervals [%d]" if elan else "        intervals [%d]:") % j)
                out.append(f"            xmin = {fn(a)}{tr}")
                out.append(f"            xmax = {fmt_num(b, notation)}{tr}")
                out.append(f"            text = {q(l)}{tr}")
        else:
            out.append(f"        points: size = {len(t['entries'])}{tr}")
            for j, (a, l) in enumerate(t["entries"], 1):
                out.append(("        points [%d]" if elan else "        points [%d]:") % j)
                out.append(f"            number = {fn(a)}{tr}")
                out.append(f"            mark = {q(l)}{tr}")
    return "\n".join(out) + "\n"


def encode_short(tg, notation="repr", neg_zero=False):
    fn = lambda x: ("-0" if (neg_zero and x == 0) else fmt_num(x, notation))
    out = ['File type = "ooTextFile"', 'Object class = "TextGrid"', "",
           fmt_num(tg["xmin"], notation), fmt_num(tg["xmax"], notation), "<exists>", str(len(tg["tiers"]))]
    for t in tg["tiers"]:
        out += [q(t["class"]), q(t["name"]), fn(t["xmin"]), fmt_num(t["xmax"], notation), str(len(t["entries"]))]
        for e in t["entries"]:
            out.append(fn(e[0]))
            if t["class"] == "IntervalTier":
                out.append(fmt_num(e[1], notation))
            out.append(q(e[-1]))
    return "\n".join(out) + "\n"


def encode_json(tg, schema):
    if schema == "textgrid_json":
        d = {"xmin": tg["xmin"], "xmax": tg["xmax"],
             "tiers": [{"class": t["class"], "name": t["name"], "xmin": t["xmin"], "xmax": t["xmax"],
                        "entries": [list(e) for e in t["entries"]]} for t in tg["tiers"]]}
    else:
        d = {"start": tg["xmin"], "end": tg["xmax"],
             "tiers": {t["name"]: {"type": t["class"], "entries": [list(e) for e in t["entries"]]} for t in tg["tiers"]}}
    return json.dumps(d, ensure_ascii=False)
