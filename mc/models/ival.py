"""Reference model: labelled-time algebra on exact rationals.

Written from the property statements (C05-C12), not from praatIO's code.  An interval
entry is (start, end, label), a point entry is (time, label); times are Fractions built
from the exact values of the floats handed to the implementation.
"""
from fractions import Fraction as F


def fr(x):
    return F(x)


def fentries(entries):
    return [tuple(F(v) for v in e[:-1]) + (e[-1],) for e in entries]


class Collision(Exception):
    """The model's 'the operation must be rejected' outcome."""


# ----------------------------------------------------------------------------- crop
def crop_intervals(E, a, b, mode, rebase):
    """E: fraction entries sorted.  Returns (entries, lo, hi)."""
    kept = []
    for s, e, l in E:
        if e <= a or s >= b:
            continue
        if mode == "strict":
            if s >= a and e <= b:
                kept.append((s, e, l))
        elif mode == "lax":
            kept.append((s, e, l))
        else:
            kept.append((max(s, a), min(e, b), l))
    lo, hi = a, b
    if mode == "lax" and kept:
        lo = min(a, kept[0][0])
        hi = max(b, kept[-1][1])
    if rebase:
        kept = [(s - lo, e - lo, l) for s, e, l in kept]
        # the span is [0, b-a], widened just enough to contain overhanging intervals
        top = max([b - a] + [e for _, e, _ in kept])
        return kept, F(0), top
    return kept, lo, hi


def crop_points(P, a, b, rebase):
    kept = [(t, l) for t, l in P if a <= t <= b]
    if rebase:
        return [(t - a, l) for t, l in kept], F(0), b - a
    return kept, a, b


# ----------------------------------------------------------------------------- erase
def erase_intervals(E, lo, hi, a, b, mode, shrink):
    """Returns (entries, lo, hi); raises Collision in 'error' mode when anything overlaps."""
    out = []
    straddler = False
    for s, e, l in E:
        if e <= a or s >= b:
            out.append((s, e, l))
            continue
        if mode == "error":
            raise Collision()
        if mode == "categorical":
            continue
        if s < a and e > b:
            straddler = True
        if s < a:
            out.append((s, a, l))
        if e > b:
            out.append((b, e, l))
    if shrink:
        d = b - a
        moved = []
        for s, e, l in out:
            if e <= a:
                moved.append((s, e, l))
            else:
                moved.append((s - d, e - d, l))
        if straddler:
            # the interval that spanned the region comes out as one interval
            for i in range(len(moved) - 1):
                if moved[i][1] == a == moved[i + 1][0] and moved[i][2] == moved[i + 1][2]:
                    moved[i:i + 2] = [(moved[i][0], moved[i + 1][1], moved[i][2])]
                    break
        return moved, lo, hi - d
    return out, lo, hi


def erase_points(P, lo, hi, a, b, shrink):
    kept = [(t, l) for t, l in P if not (a <= t <= b)]
    if shrink:
        d = b - a
        return [(t if t < a else t - d, l) for t, l in kept], lo, hi - d
    return kept, lo, hi


# ----------------------------------------------------------------------------- insert space
def insert_space_intervals(E, lo, hi, s0, d, mode):
    out = []
    for s, e, l in E:
        if e <= s0:
            out.append((s, e, l))
        elif s >= s0:
            out.append((s + d, e + d, l))
        else:  # straddles s0: selected
            if mode == "stretch":
                out.append((s, e + d, l))
            elif mode == "split":
                out.append((s, s0, l))
                out.append((s0 + d, e + d, l))
            elif mode == "no_change":
                out.append((s, e, l))
            else:
                raise Collision()
    return out, lo, hi + d


def insert_space_points(P, lo, hi, s0, d):
    return [(t if t <= s0 else t + d, l) for t, l in P], lo, hi + d


# ----------------------------------------------------------------------------- shifting
def shift_intervals(E, lo, hi, off):
    """Returns (entries, lo, hi, left_old_span)."""
    out = []
    left = False
    for s, e, l in E:
        ns, ne = s + off, e + off
        if ns < lo or ne > hi:
            left = True
        if ne <= 0:
            continue
        out.append((max(ns, F(0)), ne, l))
    nlo = min([lo] + [s for s, _, _ in out])
    nhi = max([hi] + [e for _, e, _ in out])
    return out, nlo, nhi, left


def shift_points(P, lo, hi, off):
    out = []
    left = False
    for t, l in P:
        nt = t + off
        if nt < lo or nt > hi:
            left = True
        if nt < 0:
            continue
        out.append((nt, l))
    nlo = min([lo] + [t for t, _ in out])
    nhi = max([hi] + [t for t, _ in out])
    return out, nlo, nhi, left


# ----------------------------------------------------------------------------- insertEntry
def insert_interval(E, lo, hi, new, mode):
    """Returns (entries, lo, hi, collided); raises Collision for mode 'error' on collision."""
    a, b, lab = new
    coll = [x for x in E if x[0] < b and x[1] > a]
    rest = [x for x in E if x not in coll]
    if coll and mode == "error":
        raise Collision()
    if coll and mode == "merge":
        grp = sorted(coll + [new], key=lambda x: (x[0], x[1], x[2]))
        new = (min(x[0] for x in grp), max(x[1] for x in grp), "-".join(x[2] for x in grp))
    out = sorted(rest + [new], key=lambda x: (x[0], x[1], x[2]))
    return out, min(lo, out[0][0]), max(hi, out[-1][1]), bool(coll)


def insert_point(P, lo, hi, new, mode):
    t, lab = new
    coll = [x for x in P if x[0] == t]
    rest = [x for x in P if x[0] != t]
    if coll and mode == "error":
        raise Collision()
    if coll and mode == "merge":
        new = (t, coll[0][1] + "-" + lab)
    out = sorted(rest + [new], key=lambda x: (x[0], x[1]))
    return out, min(lo, out[0][0]), max(hi, out[-1][0]), bool(coll)


# ----------------------------------------------------------------------------- set operations
def overlaps(x, y):
    return x[0] < y[1] and y[0] < x[1]


def difference(A, B):
    """A's labelled time not covered by B, maximal runs within each interval of A."""
    out = []
    for s, e, l in A:
        pieces = [(s, e)]
        for bs, be, _ in B:
            nxt = []
            for ps, pe in pieces:
                if be <= ps or bs >= pe:
                    nxt.append((ps, pe))
                    continue
                if ps < bs:
                    nxt.append((ps, bs))
                if pe > be:
                    nxt.append((be, pe))
            pieces = nxt
        out.extend((ps, pe, l) for ps, pe in pieces)
    return sorted(out, key=lambda x: (x[0], x[1]))


def intersection(A, B, dem="-"):
    out = []
    for s, e, l in A:
        for s2, e2, l2 in B:
            if s < e2 and s2 < e:
                out.append((max(s, s2), min(e, e2), l + dem + l2))
    return sorted(out, key=lambda x: (x[0], x[1], x[2]))


def union_components(A, B):
    """Connected components of A+B under positive-length overlap: list of lists of entries."""
    items = sorted(list(A) + list(B), key=lambda x: (x[0], x[1], x[2]))
    comps = []
    for it in items:
        hit = [c for c in comps if any(overlaps(it, o) for o in c)]
        for c in hit:
            comps.remove(c)
        merged = [it]
        for c in hit:
            merged.extend(c)
        comps.append(merged)
    # transitive closure
    changed = True
    while changed:
        changed = False
        for i in range(len(comps)):
            for j in range(i + 1, len(comps)):
                if any(overlaps(p, q) for p in comps[i] for q in comps[j]):
                    comps[i] = comps[i] + comps[j]
                    del comps[j]
                    changed = True
                    break
            if changed:
                break
    return comps


def merge_labels(A, B, dem=","):
    out = []
    for s, e, l in A:
        ov = [x for x in B if overlaps((s, e), x)]
        if ov:
            out.append((s, e, l + "(" + dem.join(x[2] for x in ov) + ")"))
    return out


def labelled_measure(E):
    return sum((e - s for s, e, _ in E), F(0))


def label_function(E):
    """Canonical 'label at every time' form: adjacent pieces with equal labels merged."""
    out = []
    for s, e, l in E:
        if out and out[-1][2] == l and out[-1][1] == s:
            out[-1] = (out[-1][0], e, l)
        else:
            out.append((s, e, l))
    return out


# ----------------------------------------------------------------------------- comparison
TOL = 1e-9


def compare_entries(got, exp, exact, what="entries"):
    """got: tuples of floats from the implementation; exp: model tuples of Fractions.

    exact=True  -> every number must be bit-identical to the exactly computed value
                   (dyadic grids: all arithmetic is exact).
    exact=False -> structural equality (count, labels), numbers within 1e-9, and
                   boundaries that coincide in the model coincide bit-for-bit in got.
    Returns None or a message.
    """
    if len(got) != len(exp):
        return f"{what}: {len(got)} entries, model has {len(exp)}: got {got!r} expected {_fl(exp)!r}"
    for g, x in zip(got, exp):
        if g[-1] != x[-1]:
            return f"{what}: label {g[-1]!r} != model {x[-1]!r}: got {got!r} expected {_fl(exp)!r}"
        for gv, xv in zip(g[:-1], x[:-1]):
            if exact is True:
                if F(gv) != xv:
                    return f"{what}: time {gv!r} != model {float(xv)!r}: got {got!r} expected {_fl(exp)!r}"
            elif abs(F(gv) - xv) > F(TOL):
                return f"{what}: time {gv!r} differs from model {float(xv)!r} by more than 1e-9: got {got!r}"
    if exact == "loose":
        return None  # ulp-neighbour grids under arithmetic: one-ulp gaps / intervals may legitimately close; only counts, labels, 1e-9
    if not exact and len(exp) and len(exp[0]) == 3:
        for (g1, g2), (x1, x2) in zip(zip(got, got[1:]), zip(exp, exp[1:])):
            if (x1[1] == x2[0]) != (g1[1] == g2[0]):
                return f"{what}: adjacency differs from the model between {g1!r} and {g2!r}"
            if g1[1] > g2[0]:
                return f"{what}: overlap between {g1!r} and {g2!r}"
    return None


def tiny_features(E):
    """True if the exact model contains an interval or a gap shorter than 1e-12: float rounding may collapse it, so a
    praatio error (refusing an interval of no length / an overlap) is a legitimate outcome there"""
    tiny = F(1, 10 ** 12)
    for e in E:
        if len(e) == 3 and e[1] - e[0] < tiny:
            return True
    for a, b in zip(E, E[1:]):
        if len(a) == 3 and 0 < b[0] - a[1] < tiny:
            return True
    return False


def compare_num(got, exp, exact, what):
    if exact is True:
        if F(got) != exp:
            return f"{what}: {got!r} != model {float(exp)!r}"
    elif abs(F(got) - exp) > F(TOL):
        return f"{what}: {got!r} differs from model {float(exp)!r} by more than 1e-9"
    return None


def _fl(E):
    return [tuple(float(v) for v in e[:-1]) + (e[-1],) for e in E]
