# C12 prototype: BFS over Textgrid mutators vs ordered-list model, to reachability fixed point
import itertools, collections, io, contextlib
from praatio import textgrid
from praatio.utilities import errors
IT=textgrid.IntervalTier; PT=textgrid.PointTier
NAMES=['a','b','c','d']
def slot(i,name):
    return [lambda n: IT(n,[(0,1,'x')],0,2), lambda n: PT(n,[(1,'p')],0,2), lambda n: IT(n,[(0,3,'y')],0,3), lambda n: PT(n,[],0,2), lambda n: IT(n,[],1,2)][i](name)
def build(hist):
    tg=textgrid.Textgrid()
    for op in hist: apply(tg,op)
    return tg
def apply(tg,op):
    with contextlib.redirect_stdout(io.StringIO()):
        if op[0]=='add': tg.addTier(slot(op[2],op[1]),op[3],op[4])
        elif op[0]=='rm': tg.removeTier(op[1])
        elif op[0]=='ren': tg.renameTier(op[1],op[2])
        elif op[0]=='rep': tg.replaceTier(op[1],slot(op[3],op[2]),op[4])
SPAN={0:(0,2),1:(0,2),2:(0,3),3:(0,2),4:(1,2)}
def m_apply(m,op):
    # m = (list of (name,slot), lo, hi); returns new model or exception class name
    L,lo,hi=list(m[0]),m[1],m[2]
    names=[n for n,_ in L]
    def widen(s,mode):
        nonlocal lo,hi
        a,b=SPAN[s]
        ch=(lo is not None and a<lo) or (hi is not None and b>hi)
        if ch and mode=='error': return 'TextgridStateAutoModified'
        lo=a if lo is None else min(lo,a); hi=b if hi is None else max(hi,b)
    if op[0]=='add':
        if op[1] in names: return 'TierNameExistsError'
        e=widen(op[2],op[4])
        if e: return e
        if op[3] is None: L.append((op[1],op[2]))
        else: L.insert(op[3],(op[1],op[2]))
    elif op[0]=='rm':
        if op[1] not in names: return 'KeyError'
        del L[names.index(op[1])]
    elif op[0]=='ren':
        if op[1] not in names: return 'KeyError'
        if op[2]!=op[1] and op[2] in names: return 'TierNameExistsError'
        i=names.index(op[1]); L[i]=(op[2],L[i][1])
    elif op[0]=='rep':
        if op[1] not in names: return 'ValueError'
        i=names.index(op[1])
        if op[2]!=op[1] and op[2] in names: return 'TierNameExistsError'
        e=widen(op[3],op[4])
        if e: return e
        L[i]=(op[2],op[3])
    return (tuple(L),lo,hi)
def obs(tg): return (tuple((t.name,t.tierType,t.minTimestamp,t.maxTimestamp,tuple(map(tuple,t.entries))) for t in tg.tiers), tg.tierNames, tg.minTimestamp, tg.maxTimestamp)
def m_obs(m):
    out=[]
    for n,s in m[0]:
        t=slot(s,n); out.append((t.name,t.tierType,t.minTimestamp,t.maxTimestamp,tuple(map(tuple,t.entries))))
    return (tuple(out),tuple(n for n,_ in m[0]),m[1],m[2])
def ops(m):
    n=len(m[0])
    for nm in NAMES[:3]:
        for s in range(5):
            for idx in [None]+list(range(-2,n+3)):
                for mode in ('silence','error'): yield ('add',nm,s,idx,mode)
    for nm in NAMES: yield ('rm',nm)
    for a in NAMES:
        for b in NAMES: yield ('ren',a,b)
    for a in NAMES:
        for b in NAMES[:3]:
            for s in (0,2,3):
                for mode in ('silence','error'): yield ('rep',a,b,s,mode)
seen={((),None,None):[]}; frontier=[((),None,None)]; trans=0; bad=collections.Counter(); ex={}
depth=0
while frontier and depth<6:
    nxt=[]
    for m in frontier:
        if len(m[0])>3: continue
        hist=seen[m]
        for op in ops(m):
            trans+=1
            tg=build(hist); before=obs(tg)
            exp=m_apply(m,op)
            try: apply(tg,op); got=None
            except Exception as e_: got=type(e_).__name__
            if isinstance(exp,str):
                if got!=exp: bad[('exc mismatch',op[0],exp,got)]+=1; ex.setdefault(('exc mismatch',op[0],exp,got),(hist,op))
                elif obs(tg)!=before: bad[('changed on failure',op[0])]+=1; ex.setdefault(('changed on failure',op[0]),(hist,op))
                continue
            if got is not None: bad[('unexpected exc',op[0],got)]+=1; ex.setdefault(('unexpected exc',op[0],got),(hist,op)); continue
            if obs(tg)!=m_obs(exp): bad[('state mismatch',op[0])]+=1; ex.setdefault(('state mismatch',op[0]),(hist,op,obs(tg)[1:],m_obs(exp)[1:])); continue
            if exp not in seen: seen[exp]=hist+[op]; nxt.append(exp)
    frontier=nxt; depth+=1
    print('depth',depth,'states',len(seen),'trans',trans,'frontier',len(frontier))
for k,v in sorted(bad.items(),key=str): print(k,v,ex[k])
