import subprocess, sys, os
ROOT=sys.argv[1]
def sub(path, old, new, n=1):
    p=os.path.join(ROOT,path); s=open(p).read()
    assert s.count(old)==n, (path, old, s.count(old))
    open(p,'w').write(s.replace(old,new))
def commit(msg):
    subprocess.check_call(['git','-C',ROOT,'-c','user.name=builder','-c','user.email=builder@example.com','commit','-qam',msg])

# ---- F1
sub('praatio/utilities/textgrid_io.py',
'''                ).groups()[0]
                label = label.strip()
                entries.append(Point(time, label))''',
'''                ).groups()[0]
                label = label.strip()
                label = re.sub(r'""', '"', label)
                entries.append(Point(time, label))''')
commit('fix: un-double quotes in point marks when reading long-format TextGrids')

# ---- F2
sub('praatio/utilities/textgrid_io.py', r'([\d.]+)\s*$', r'([\d.]+(?:[eE][-+]?\d+)?)\s*$', 5)
sub('praatio/utilities/utils.py',
'''    return float(inputStr) if "." in inputStr else int(inputStr)''',
'''    if "." in inputStr or "e" in inputStr.lower():
        return float(inputStr)
    return int(inputStr)''')
commit('fix: read timestamps written in exponent notation (e.g. 5e-05) in TextGrid text files')

# ---- F14
sub('praatio/textgrid.py','''        with io.open(fnFullPath, "r", encoding="utf-8") as fd:''','''        with io.open(fnFullPath, "r", encoding="utf-8-sig") as fd:''')
commit('fix: openTextgrid ignores a UTF-8 byte order mark (json files with a BOM failed to open)')

# ---- F3
sub('praatio/data_classes/interval_tier.py',
'''        if rebaseToZero is True:
            newSmallestValue = newEntryList[0][0]
            if newSmallestValue < cropStart:
                timeDiff = newSmallestValue
            else:
                timeDiff = cropStart
''',
'''        if rebaseToZero is True:
            timeDiff = cropStart
            if len(newEntryList) > 0 and newEntryList[0][0] < cropStart:
                timeDiff = newEntryList[0][0]
''')
commit('fix: IntervalTier.crop with rebaseToZero returns an empty tier when no entries are in the window')

# ---- F4
sub('praatio/data_classes/interval_tier.py',
'''        matchList = self.crop(start, end, CropCollision.LAX, False).entries
        newTier = self.new()

        if len(matchList) == 0:''',
'''        matchList = self.crop(start, end, CropCollision.LAX, False).entries
        newTier = self.new()

        # Does a single interval span the whole region? If so, and we're
        # truncating, its two remaining pieces will be rejoined after shrinking
        hasSpanningInterval = (
            collisionMode == constants.EraseCollision.TRUNCATE
            and len(matchList) == 1
            and matchList[0].start < start
            and matchList[0].end > end
        )

        if len(matchList) == 0:''')
sub('praatio/data_classes/interval_tier.py',
'''                elif interval.start >= end:
                    newEntryList.append(
                        Interval(
                            interval.start - diff, interval.end - diff, interval.label
                        )
                    )

            # Special case: an interval that spanned the deleted
            # section
            for i in range(0, len(newEntryList) - 1):
                rightEdge = newEntryList[i].end == start''',
'''                elif interval.start >= end:
                    # In floating point arithmetic, (end - diff) is not always
                    # start. What began at end now begins at start and
                    # nothing can move to before start
                    if interval.start == end:
                        newStart = start
                    else:
                        newStart = max(start, interval.start - diff)
                    newEntryList.append(
                        Interval(newStart, interval.end - diff, interval.label)
                    )

            # Special case: an interval that spanned the deleted
            # section
            for i in range(0, len(newEntryList) - 1):
                if not hasSpanningInterval:
                    break
                rightEdge = newEntryList[i].end == start''')
commit('fix: IntervalTier.eraseRegion with doShrink is exact at the cut: no rounding overlaps, only a spanning interval is rejoined')

# ---- F5
sub('praatio/data_classes/interval_tier.py',
'''                            start + duration,
                            start + duration + (interval.end - start),
                            interval.label,''',
'''                            start + duration,
                            interval.end + duration,
                            interval.label,''')
commit("fix: IntervalTier.insertSpace 'split' shifts the right piece like every later entry (no rounding gap/overlap)")

# ---- F6
sub('praatio/data_classes/interval_tier.py',
'''        newMin = min([interval.start for interval in newEntryList])
        newMax = max([interval.end for interval in newEntryList])
''',
'''        newMin = min(
            [interval.start for interval in newEntryList], default=self.minTimestamp
        )
        newMax = max(
            [interval.end for interval in newEntryList], default=self.maxTimestamp
        )
''')
sub('praatio/data_classes/point_tier.py',
'''        newMin = min(timeList)
        newMax = max(timeList)
''',
'''        newMin = min(timeList, default=self.minTimestamp)
        newMax = max(timeList, default=self.maxTimestamp)
''')
commit('fix: editTimestamps on a tier that is empty or becomes empty returns an empty tier instead of ValueError')

# ---- F7
sub('praatio/data_classes/point_tier.py',
'''        self.sort()

        if len(matchList) != 0:
            collisionReporter(''',
'''        self.sort()

        if self._entries[0][0] < self.minTimestamp:
            self.minTimestamp = self._entries[0][0]

        if self._entries[-1][0] > self.maxTimestamp:
            self.maxTimestamp = self._entries[-1][0]

        if len(matchList) != 0:
            collisionReporter(''')
commit('fix: PointTier.insertEntry grows the tier span to contain the new point, as IntervalTier does')

# ---- F8
sub('praatio/data_classes/textgrid.py',
'''        if tier.name in self.tierNames:
            raise errors.TierNameExistsError("Tier name already in tier")

        if tierIndex is None:''',
'''        if tier.name in self.tierNames:
            raise errors.TierNameExistsError("Tier name already in tier")

        # Report (and possibly raise) before anything is modified
        minV = tier.minTimestamp
        if self.minTimestamp is not None and minV < self.minTimestamp:
            errorReporter(
                errors.TextgridStateAutoModified,
                f"Minimum timestamp in Textgrid changed from ({self.minTimestamp}) to ({minV})",
            )

        maxV = tier.maxTimestamp
        if self.maxTimestamp is not None and maxV > self.maxTimestamp:
            errorReporter(
                errors.TextgridStateAutoModified,
                f"Maximum timestamp in Textgrid changed from ({self.maxTimestamp}) to ({maxV})",
            )

        if tierIndex is None:''')
sub('praatio/data_classes/textgrid.py',
'''        minV = tier.minTimestamp
        if self.minTimestamp is not None and minV < self.minTimestamp:
            errorReporter(
                errors.TextgridStateAutoModified,
                f"Minimum timestamp in Textgrid changed from ({self.minTimestamp}) to ({minV})",
            )
        if self.minTimestamp is None or minV < self.minTimestamp:
            self.minTimestamp = minV

        maxV = tier.maxTimestamp
        if self.maxTimestamp is not None and maxV > self.maxTimestamp:
            errorReporter(
                errors.TextgridStateAutoModified,
                f"Maximum timestamp in Textgrid changed from ({self.maxTimestamp}) to ({maxV})",
            )
        if self.maxTimestamp is None or maxV > self.maxTimestamp:
            self.maxTimestamp = maxV
''',
'''        if self.minTimestamp is None or minV < self.minTimestamp:
            self.minTimestamp = minV

        if self.maxTimestamp is None or maxV > self.maxTimestamp:
            self.maxTimestamp = maxV
''')
commit("fix: Textgrid.addTier raises for reportingMode='error' before adding the tier, not after")

# ---- F9
sub('praatio/data_classes/textgrid.py',
'''        oldTier = self.getTier(oldName)
        tierIndex = self.tierNames.index(oldName)
        self.removeTier(oldName)
        self.addTier(oldTier.new(newName, oldTier.entries), tierIndex)
''',
'''        oldTier = self.getTier(oldName)
        tierIndex = self.tierNames.index(oldName)
        if newName != oldName and newName in self.tierNames:
            raise errors.TierNameExistsError("Tier name already in tier")
        self.removeTier(oldName)
        self.addTier(oldTier.new(newName, oldTier.entries), tierIndex)
''')
sub('praatio/data_classes/textgrid.py',
'''        tierIndex = self.tierNames.index(name)
        self.removeTier(name)
        self.addTier(newTier, tierIndex, reportingMode)
''',
'''        tierIndex = self.tierNames.index(name)
        oldTier = self.removeTier(name)
        try:
            self.addTier(newTier, tierIndex, reportingMode)
        except Exception:
            # Leave the textgrid as it was
            self.addTier(oldTier, tierIndex, constants.ErrorReportingMode.SILENCE)
            raise
''')
commit('fix: Textgrid.renameTier/replaceTier keep the old tier when the new one cannot be added')

# ---- F10
sub('praatio/audio.py',
'''        return round(startTime * self.frameRate * self.sampleWidth)''',
'''        return round(startTime * self.frameRate) * self.sampleWidth''')
commit('fix: Wav time-to-byte index lands on a whole sample for any time and sample width')

# ---- F11
sub('praatio/audio.py',
'''        samples = self.getSamples(startTime, endTime)

        return _findNextZeroCrossing(startTime, samples, self.frameRate, reverse)''',
'''        samples = self.getSamples(startTime, endTime)

        # The samples begin at the sample that is nearest to startTime
        startTime = round(startTime * self.frameRate) / self.frameRate

        return _findNextZeroCrossing(startTime, samples, self.frameRate, reverse)''')
commit('fix: findNearestZeroCrossing reports the time of the sample it found when timeStep is not a whole number of samples')

# ---- F12
sub('praatio/klattgrid.py','''    sectionIndexList.append(-1)
''','''    sectionIndexList.append(len(data))
''')
sub('praatio/klattgrid.py','''            subList.append(masterIndexList[ii + 1] - 1)
        except IndexError:
            subList.append(-1)''','''            subList.append(masterIndexList[ii + 1])
        except IndexError:
            subList.append(len(sectionData))''')
commit('fix: KlattGrid reader no longer drops the last character of a section (lost digits, unreadable integer values)')

# ---- F13
sub('praatio/pitch_and_intensity.py',
'''        f0Values = [f0Val for f0Val in f0Values if int(f0Val) != 0]''',
'''        f0Values = [f0Val for f0Val in f0Values if f0Val != 0]''')
commit('fix: getPitchMeasures zero filtering removes zeros only, not every value between -1 and 1')
