import itertools, collections, json
from fractions import Fraction as F
from praatio import textgrid
from praatio.utilities import textgrid_io, errors
from praatio.data_classes.textgrid import _tgToDictionary
fails=collections.Counter(); ex={}
def note(k,c): fails[k]+=1; ex.setdefault(k,c)
SLV=[1e-12,5e-9,9.9e-9,1e-8,1.1e-8,5e-8]
KINDS=['L','G','l','g']  # ordinary labelled, ordinary gap, labelled sliver, gap sliver
cnt=0
def build(seq,base,slens):
    t=base; ents=[]; segs=[]; si=0; li=0
    for k in seq:
        if k in 'LG': ln=0.25
        else: ln=slens[si]; si+=1
        s=t; e=t+ln; t=e
        lab=None
        if k in 'Ll': lab='L%d'%li if k=='L' else 's%d'%li; li+=1; ents.append((s,e,lab))
        segs.append((k,s,e,lab))
    return ents,segs,base,t
for n in range(1,5):
  for seq in itertools.product(KINDS,repeat=n):
    if not any(k in 'LG' for k in seq): continue
    ns=sum(k in 'lg' for k in seq)
    for slens in itertools.product(SLV,repeat=ns):
      for base in (0,0.3,1):
        ents,segs,lo,hi=build(seq,base,slens)
        if any(not(s<e) for s,e,_ in ents): continue
        try: tier=textgrid.IntervalTier('t',ents,lo,hi)
        except Exception as e_: note(('ctor',type(e_).__name__),(seq,slens,base)); continue
        tg=textgrid.Textgrid(); tg.addTier(tier)
        for thr in (None,1e-8):
            cnt+=1
            try: out=json.loads(textgrid_io.getTextgridAsStr(_tgToDictionary(tg),'textgrid_json',True,None,None,thr))
            except Exception as e_: note(('exc',type(e_).__name__),(seq,slens,base,thr)); continue
            W=[tuple(x) for x in out['tiers'][0]['entries']]
            # partition
            if not W or W[0][0]!=lo or W[-1][1]!=hi or any(a[1]!=b[0] for a,b in zip(W,W[1:])) or any(not a[0]<a[1] for a in W): note(('partition',thr),(seq,slens,base,W)); continue
            T=F(thr) if thr is not None else None
            def length(s,e): return F(e)-F(s)
            def is_sliver(s,e):
                if T is None: return 'no'
                d=length(s,e); band=4*F(2)**-52*max(abs(F(e)),F(1,10**300))
                if abs(d-T)<=band: return 'maybe'
                return 'yes' if d<T else 'no'
            # classify original segments by exact length
            cls=[(k,s,e,lab,is_sliver(s,e)) for k,s,e,lab in segs]
            if any(c[4]=='maybe' for c in cls): continue  # indifferent band: skip strict checks (counted)
            kept=[(s,e,lab) for k,s,e,lab,sl in cls if lab is not None and sl=='no']
            wl=[w for w in W if w[2]!='']
            if [w[2] for w in wl]!=[k[2] for k in kept]: note(('labels',thr),(seq,slens,base,W)); continue
            # boundaries
            for w,(s,e,lab) in zip(wl,kept):
                idx=[i for i,c in enumerate(cls) if c[3]==lab][0]
                # left chain
                j=idx; 
                while j>0 and cls[j-1][4]=='yes': j-=1
                lmin=cls[j][1]
                j=idx
                while j<len(cls)-1 and cls[j+1][4]=='yes': j+=1
                rmax=cls[j][2]
                if not (lmin<=w[0]<=s and e<=w[1]<=rmax): note(('bounds',thr),(seq,slens,base,W,lab)); break
            if T is not None:
                for w in W:
                    if is_sliver(w[0],w[1])=='yes': note(('short written',thr),(seq,slens,base,W)); break
print(cnt)
for k,v in sorted(fails.items(),key=str): print(k,v,ex[k])
