import itertools, collections, sys, io, contextlib
from praatio import textgrid
from praatio.utilities import errors
IT=textgrid.IntervalTier; PT=textgrid.PointTier
fails=collections.Counter(); ex={}
def note(k,case):
    fails[k]+=1; ex.setdefault(k,case)
N=6
def alltiers(labels):
    # all subsets of non-overlapping intervals on 6 cells: choose a segmentation: each cell is in state: gap / start new interval / continue
    out=[]
    def rec(i,cur,open_):
        if i==N:
            out.append(list(cur)); return
        # gap
        rec(i+1,cur,False)
        # new interval starting at i with each label
        for l in labels:
            cur.append([i,i+1,l]); rec(i+1,cur,True); cur.pop()
        if open_:
            cur[-1][1]=i+1; rec(i+1,cur,True); cur[-1][1]=i
    rec(0,[],False)
    return [[(float(a),float(b),l) for a,b,l in t] for t in out]
TA=alltiers(['a']); TB=alltiers(['x'])
print(len(TA))
def cells(E): 
    m={}
    for s,e,l in E:
        for c in range(int(s),int(e)): m[c]=(s,e,l)
    return m
import random
for A in TA:
    ta=IT('A',A,0,N); ca=cells(A)
    for B in TB:
        tb=IT('B',B,0,N); cb=cells(B)
        # difference
        try:
            d=ta.difference(tb); got=[tuple(x) for x in d.entries]
            exp=[]
            for s,e,l in A:
                run=None
                for c in range(int(s),int(e)):
                    if c not in cb:
                        if run and run[1]==c: run[1]=c+1
                        else:
                            run=[c,c+1,l]; exp.append(run)
            exp=[(float(a),float(b),l) for a,b,l in exp]
            if got!=exp: note(('diff',),(A,B,got,exp))
        except Exception as e_: note(('diff exc',type(e_).__name__),(A,B))
        try:
            i=ta.intersection(tb); got=[tuple(x) for x in i.entries]
            exp=sorted((max(s,s2),min(e,e2),l+'-'+l2) for s,e,l in A for s2,e2,l2 in B if s<e2 and s2<e)
            if got!=exp: note(('inter',),(A,B,got,exp))
        except Exception as e_: note(('inter exc',type(e_).__name__),(A,B))
        try:
            u=ta.union(tb); got=[tuple(x) for x in u.entries]
            # components of union coverage where overlapping (positive overlap) entries fused; touching not fused
            items=sorted([(s,e,l) for s,e,l in A]+[(s,e,l) for s,e,l in B])
            # union-find by overlap
            comp=[]
            for it in items:
                placed=False
                for c in comp:
                    if any(it[0]<o[1] and o[0]<it[1] for o in c): c.append(it); placed=True; break
                if not placed: comp.append([it])
            # merge comps transitively
            changed=True
            while changed:
                changed=False
                for x in range(len(comp)):
                    for y in range(x+1,len(comp)):
                        if any(p[0]<q[1] and q[0]<p[1] for p in comp[x] for q in comp[y]):
                            comp[x]+=comp[y]; del comp[y]; changed=True; break
                    if changed: break
            exp=sorted((min(p[0] for p in c),max(p[1] for p in c)) for c in comp)
            if [(g[0],g[1]) for g in got]!=exp: note(('union extents',),(A,B,got,exp))
            else:
                for g in got:
                    c=[cc for cc in comp if min(p[0] for p in cc)==g[0]][0]
                    labs=g[2].split('-')
                    if sorted(labs)!=sorted(p[2] for p in c): note(('union labels multiset',),(A,B,got)); break
            if not u.validate('silence'): note(('union invalid',),(A,B,got))
        except Exception as e_: note(('union exc',type(e_).__name__),(A,B,str(e_)[:80]))
        try:
            m=ta.mergeLabels(tb); got=[tuple(x) for x in m.entries]
            exp=[]
            for s,e,l in A:
                ov=[(s2,e2,l2) for s2,e2,l2 in B if s<e2 and s2<e]
                if ov: exp.append((s,e,l+'('+','.join(o[2] for o in ov)+')'))
            if got!=exp: note(('mergeLabels',),(A,B,got,exp))
        except Exception as e_: note(('mergeLabels exc',type(e_).__name__),(A,B))
for k,v in sorted(fails.items(),key=str): print(k,v,ex[k])
