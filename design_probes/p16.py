import itertools, collections, statistics, math, os, tempfile
from praatio.utilities import my_math
from praatio import pitch_and_intensity as pi
fails=collections.Counter(); ex={}
def note(k,c): fails[k]+=1; ex.setdefault(k,c)
vals=[1,2,2,5,9.5]
cnt=0
for n in range(0,7):
    for seq in itertools.product(vals[:3] if n>4 else vals,repeat=n):
        seq=list(seq)
        for w in range(0,9):
            off=w//2
            for pad in (True,False):
                cnt+=1
                try: r=my_math.medianFilter(list(seq),w,pad)
                except Exception as e_: note(('exc',type(e_).__name__,w,pad,n),(seq,)); continue
                exp=[]
                for i in range(n):
                    if pad:
                        win=[seq[min(max(j,0),n-1)] for j in range(i-off,i+off+1)]
                        exp.append(statistics.median(win))
                    elif i-off>=0 and i+off<n: exp.append(statistics.median(seq[i-off:i+off+1]))
                    else: exp.append(seq[i])
                if r!=exp: note(('median',w,pad),(seq,r,exp))
print(cnt)
# pitch measures
for n in range(0,5):
    for seq in itertools.product([0,0.0,0.5,100,120.5,-3],repeat=n):
        for fz in (False,True):
            for w in (None,3):
                try: r=pi.getPitchMeasures(list(seq),'n','l',w,fz)
                except Exception as e_: note(('pm exc',type(e_).__name__),(seq,fz,w)); continue
                v=list(seq)
                if w: v=my_math.medianFilter(v,w,True)
                if fz: v=[x for x in v if x!=0]
                if not v: exp=(0,0,0,0,0,0)
                else:
                    m=sum(v)/len(v); var=sum((x-m)**2 for x in v)/len(v)
                    exp=(m,max(v),min(v),max(v)-min(v),var,math.sqrt(var))
                if not all(math.isclose(a,b,abs_tol=1e-9) for a,b in zip(r,exp)): note(('pm',fz),(seq,w,r,exp))
# detectPitchErrors
for n in range(0,5):
    for seq in itertools.product([50,100,140,200,75.5],repeat=n):
        for thr in (0.5,0.7,1.0,0.25):
            pl=[(i*0.1,v) for i,v in enumerate(seq)]
            try: r,_=pi.detectPitchErrors(pl,thr)
            except Exception as e_: note(('dpe exc',type(e_).__name__),(seq,thr)); continue
            exp=[]
            for i in range(1,n):
                last,cur=seq[i-1],seq[i]
                ratio=min(last,cur)/max(last,cur)
                if ratio<thr: exp.append(pl[i][0])
                elif ratio==thr: exp.append(('tie',pl[i][0]))
            got=[p.time for p in r]
            strict=[e for e in exp if not isinstance(e,tuple)]
            ties=[e[1] for e in exp if isinstance(e,tuple)]
            if not (set(strict)<=set(got)<=set(strict)|set(ties)): note(('dpe',thr),(seq,got,exp))
# znorm
for n in range(2,6):
    for seq in itertools.product([1,2,2.5,7],repeat=n):
        if len(set(seq))==1: continue
        r=my_math.znormalizeData(list(seq))
        if len(r)!=n or abs(statistics.mean(r))>1e-9 or abs(statistics.stdev(r)-1)>1e-9: note(('znorm',),(seq,r))
        if any((a<b)!=(x<y) for (a,x),(b,y) in itertools.combinations(zip(seq,r),2)): note(('znorm order',),(seq,r))
# loadTimeSeriesData
d=tempfile.mkdtemp(); fn=os.path.join(d,'x.txt')
for hdr in (True,False):
    for rows in itertools.product(['0.1,100,60','0.2,--undefined--,61','0.3,120,--undefined--','0.4,--undefined--,--undefined--'],repeat=2):
        for uv in (None,0,-1.5):
            open(fn,'w').write(('time,pitch,intensity\n' if hdr else '')+'\n'.join(rows)+'\n')
            try: r=pi.loadTimeSeriesData(fn,uv)
            except Exception as e_: note(('ltsd exc',type(e_).__name__),(rows,uv)); continue
            exp=[]
            for row in rows:
                c=row.split(',')
                if any('--' in x for x in c[1:]) and uv is None: continue
                exp.append(tuple([float(c[0])]+[uv if '--' in x else float(x) for x in c[1:]]))
            if r!=exp: note(('ltsd',),(rows,uv,r,exp))
for k,v in sorted(fails.items(),key=str): print(k,v,ex[k])
