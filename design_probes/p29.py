import itertools, collections, io, contextlib
from praatio import textgrid
from praatio.utilities import errors
IT=textgrid.IntervalTier; PT=textgrid.PointTier
fails=collections.Counter(); ex={}
def note(k,c): fails[k]+=1; ex.setdefault(k,c)
def mk(names, tag, hi):
    tg=textgrid.Textgrid(0,hi)
    for n in names:
        if n=='p': tg.addTier(PT('p',[(1.0,tag+'p')],0,hi))
        elif n=='e': tg.addTier(IT('e',[],0,hi))
        else: tg.addTier(IT(n,[(0.0,1.0,tag+n),(1.0,hi,tag+n+'2')],0,hi))
    return tg
namesets=[[],['a'],['a','b'],['b','a'],['b','c'],['a','p'],['p'],['e','a'],['c','p','a']]
def snap(t): return (t.name,t.tierType,t.minTimestamp,t.maxTimestamp,[tuple(e) for e in t.entries])
for NA in namesets:
  for NB in namesets:
    for flag in (True,False):
        A=mk(NA,'A',2.0); B=mk(NB,'B',3.0)
        try:
            with contextlib.redirect_stdout(io.StringIO()): R=A.appendTextgrid(B,flag)
        except Exception as e_:
            note(('exc',type(e_).__name__),(NA,NB,flag,str(e_)[:60])); continue
        if flag: expn=[n for n in NA if n in NB]
        else: expn=NA+[n for n in NB if n not in NA]
        if list(R.tierNames)!=expn: note(('names',flag),(NA,NB,R.tierNames,expn)); continue
        if (R.minTimestamp,R.maxTimestamp)!=(0,5.0): note(('tg span',),(NA,NB,flag,R.minTimestamp,R.maxTimestamp))
        for n in expn:
            ea=[tuple(e) for e in A.getTier(n).entries] if n in NA else []
            eb=[tuple([x+2.0 for x in e[:-1]]+[e[-1]]) for e in B.getTier(n).entries] if n in NB else []
            t=R.getTier(n)
            if [tuple(e) for e in t.entries]!=ea+eb: note(('entries',flag),(NA,NB,n,t.entries))
            if (t.minTimestamp,t.maxTimestamp)!=(0,5.0): note(('tier span',flag, n in NA, n in NB),(NA,NB,n,t.minTimestamp,t.maxTimestamp))
for k,v in sorted(fails.items(),key=str): print(k,v,ex[k])
