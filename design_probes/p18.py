from praatio import textgrid
import os, tempfile, codecs
d=tempfile.mkdtemp(); fn=os.path.join(d,'x.TextGrid')
tg=textgrid.Textgrid(); tg.addTier(textgrid.IntervalTier('i',[(0,1,'é"a\nb')],0,2)); tg.addTier(textgrid.PointTier('p',[(1,'x')],0,2))
def show(t): return [(x.name,x.minTimestamp,x.maxTimestamp,[tuple(e) for e in x.entries]) for x in t.tiers]
for fmt in ('short_textgrid','long_textgrid','json','textgrid_json'):
    tg.save(fn,fmt,True); txt=open(fn,encoding='utf-8').read()
    for enc,bom in [('utf-8',b''),('utf-8',codecs.BOM_UTF8),('utf-16-le',codecs.BOM_UTF16_LE),('utf-16-be',codecs.BOM_UTF16_BE)]:
        for nl in ('\n','\r\n'):
            open(fn,'wb').write(bom+txt.replace('\n',nl).encode(enc))
            try:
                r=textgrid.openTextgrid(fn,False)
                print(fmt,enc,bool(bom),repr(nl),'OK' if show(r)==show(tg) else ('DIFF',show(r)))
            except Exception as e: print(fmt,enc,bool(bom),repr(nl),'EXC',type(e).__name__,str(e)[:60])
