from praatio import audio
import wave, os, tempfile
def mkwav(samples,width,rate):
    fr=audio.convertToBytes(tuple(samples),width)
    return audio.Wav(fr,[1,width,rate,len(samples),'NONE','not compressed'])
w=mkwav(list(range(1,11)),2,8)
for t0,t1 in [(0.125,0.5),(0.0625,0.5),(0.19,0.44),(0.1875,0.4375)]:
    try: print(t0,t1,w.getSamples(t0,t1), 'expected idx', round(t0*8), round(t1*8))
    except Exception as e: print(t0,t1,type(e).__name__,e)
w=mkwav(list(range(1,11)),2,8); w.deleteSegment(0.0625,0.5)
try: print(audio.convertFromBytes(w.frames,2))
except Exception as e: print('delete offgrid',type(e).__name__,e, len(w.frames))
# save/open
d=tempfile.mkdtemp(); fn=os.path.join(d,'a.wav')
for width in (1,2,4):
    lim=2**(8*width-1)
    s=[0,1,-1,lim-1,-lim,5,-7]
    try:
        w=mkwav(s,width,8000); w.save(fn); del w
        w2=audio.Wav.open(fn); print(width, audio.convertFromBytes(w2.frames,width)==tuple(s), w2.params)
        q=audio.QueryWav(fn); print(' q',q.getSamples(0,q.duration)==tuple(s), q.duration, q.nframes)
    except Exception as e: print(width,type(e).__name__,e)
