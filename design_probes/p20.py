from praatio import textgrid
import os, tempfile, itertools
d=tempfile.mkdtemp(); fn=os.path.join(d,'x.TextGrid')
def q(s): return '"'+s.replace('"','""')+'"'
def num(x): return x if isinstance(x,str) else repr(x)
def long_(tg,elan=False):
    lo,hi,tiers=tg
    o=['File type = "ooTextFile"','Object class = "TextGrid"','','xmin = %s '%num(lo),'xmax = %s '%num(hi),'tiers? <exists> ','size = %d '%len(tiers),'item []: ']
    for i,(cls,name,tlo,thi,ents) in enumerate(tiers):
        o.append(('    item[%d]:' if elan else '    item [%d]:')%(i+1))
        o.append('        class = %s '%q(cls)); o.append('        name = %s '%q(name))
        o.append('        xmin = %s '%num(tlo)); o.append('        xmax = %s '%num(thi))
        kw='intervals' if cls=='IntervalTier' else 'points'
        o.append('        %s: size = %d '%(kw,len(ents)))
        for j,e in enumerate(ents):
            o.append(('        %s [%d]' if elan else '        %s [%d]:')%(kw,j+1))
            if cls=='IntervalTier':
                o+= ['            xmin = %s '%num(e[0]),'            xmax = %s '%num(e[1]),'            text = %s '%q(e[2])]
            else:
                o+= ['            number = %s '%num(e[0]),'            mark = %s '%q(e[1])]
    return '\n'.join(o)+'\n'
def short_(tg):
    lo,hi,tiers=tg
    o=['File type = "ooTextFile"','Object class = "TextGrid"','',num(lo),num(hi),'<exists>',str(len(tiers))]
    for cls,name,tlo,thi,ents in tiers:
        o+=[q(cls),q(name),num(tlo),num(thi),str(len(ents))]
        for e in ents:
            o+=[num(x) for x in e[:-1]]+[q(e[-1])]
    return '\n'.join(o)+'\n'
def show(t): return (t.minTimestamp,t.maxTimestamp,[(x.tierType,x.name,x.minTimestamp,x.maxTimestamp,[tuple(e) for e in x.entries]) for x in t.tiers])
def expect(tg,incl):
    lo,hi,tiers=tg
    f=lambda v: float(v)
    return (f(lo),f(hi),[(c,n,abs(f(a)),f(b),[tuple([abs(f(x)) for x in e[:-1]]+[e[-1]]) for e in ents if incl or e[-1]!='']) for c,n,a,b,ents in tiers])
cases={
 'basic':(0,2,[('IntervalTier','w',0,2,[(0,1,''),(1,2,'a')]),('TextTier','p',0,2,[(0.5,'x')])]),
 'empty tiers':(0,2,[('IntervalTier','w',0,2,[]),('TextTier','p',0,2,[])]),
 'neg zero':('-0',2,[('IntervalTier','w','-0',2,[('-0',1,'a')]),('TextTier','p','-0',2,[('-0','x')])]),
 'exp':(0,2,[('IntervalTier','w',0,2,[('5e-05',1,'a'),(1,'1.5e+00','b')]),('TextTier','p','1e-05',2,[('2.5E-05','x')])]),
 'quotes':(0,2,[('IntervalTier','w"q',0,2,[(0,1,'"a"'),(1,2,'a""b')]),('TextTier','p',0,2,[(0.5,'"'),(1,'x"y\n"z')])]),
 'numlabel':(0,2,[('IntervalTier','w',0,2,[(0,1,'12'),(1,2,'3.5\n4')]),('TextTier','p',0,2,[(0.5,'7')])]),
 'constrained':(0,5,[('IntervalTier','w',1,3,[(1,2,'a')]),('TextTier','p',2,4,[(2.5,'x')])]),
 'int big':(0,1000000,[('IntervalTier','w',0,1000000,[(0,1000000,'a')])]),
 'unicode':(0,2,[('IntervalTier','ü',0,2,[(0,1,'日本'),(1,2,'é=1')])]),
}
for name,tg in cases.items():
    for wname,w in (('long',lambda t: long_(t)),('elan',lambda t: long_(t,True)),('short',short_)):
        for incl in (True,False):
            open(fn,'w',encoding='utf-8').write(w(tg))
            try:
                r=textgrid.openTextgrid(fn,incl,reportingMode='silence')
                print(name,wname,incl,'OK' if show(r)==expect(tg,incl) else ('DIFF',show(r),expect(tg,incl)))
            except Exception as e: print(name,wname,incl,'EXC',type(e).__name__,str(e)[:80])
dup=(0,2,[('IntervalTier','w',0,2,[(0,1,'a')]),('TextTier','w',0,2,[(0.5,'x')]),('IntervalTier','w_2',0,2,[]),('IntervalTier','w',0,2,[])])
for wname,w in (('long',long_),('short',short_)):
    open(fn,'w').write(w(dup))
    for mode in ('error','rename'):
        try: r=textgrid.openTextgrid(fn,True,duplicateNamesMode=mode); print('dup',wname,mode,r.tierNames)
        except Exception as e: print('dup',wname,mode,type(e).__name__)
