import itertools, collections
from praatio import audio, textgrid, praatio_scripts
from praatio.utilities import errors
from p4 import tiers
fails=collections.Counter(); ex={}
def note(k,c): fails[k]+=1; ex.setdefault(k,c)
rate=8; width=2
def mkwav(samples): return audio.Wav(audio.convertToBytes(tuple(samples),width),[1,width,rate,len(samples),'NONE','not compressed'])
main=[3,-2,4,-1,5,-3,2,-4,1,-5,3,-2,4,-1,5,-3]  # 16 samples = 2.0 s, crossings everywhere
splice=[1,-1,2,-2]  # 0.5 s
N=len(main)
G=[0,4,8,12,16]
T=tiers(G,2)
import io,contextlib
cnt=0
for ents in T:
    E=[(a/rate,b/rate,'ab'[i]) for i,(a,b) in enumerate(ents)]
    for pts in ([],[4],[8,12]):
        for align in (False,True):
            for ins in range(0,N+1,2):
                for stop in [None]+[s for s in range(ins+2,N+1,4)]:
                    tg=textgrid.Textgrid(0,N/rate)
                    tg.addTier(textgrid.IntervalTier('w',E,0,N/rate)); tg.addTier(textgrid.PointTier('p',[(t/rate,'P') for t in pts],0,N/rate))
                    w=mkwav(main); sp=mkwav(splice)
                    cnt+=1
                    try:
                        with contextlib.redirect_stdout(io.StringIO()):
                            a2,tg2=praatio_scripts.audioSplice(w,sp,tg,'w','NEW',ins/rate,None if stop is None else stop/rate,align)
                    except errors.CollisionError as e_:
                        note(('collision',align, stop is None),(E,pts,ins,stop)); continue
                    except Exception as e_:
                        note(('exc',type(e_).__name__,align,stop is None),(E,pts,ins,stop,str(e_)[:80])); continue
                    if abs(a2.duration-tg2.maxTimestamp)>1/rate+1e-9: note(('dur',align,stop is None),(E,pts,ins,stop,a2.duration,tg2.maxTimestamp))
                    wt=tg2.getTier('w')
                    news=[e for e in wt.entries if e.label=='NEW']
                    if len(news)!=1: note(('new count',align),(E,ins,stop,wt.entries)); continue
                    if not tg2.validate('silence'): note(('invalid',align, stop is None),(E,pts,ins,stop,[(t.minTimestamp,t.maxTimestamp) for t in tg2.tiers],tg2.maxTimestamp))
                    # earlier entries unchanged
                    for e in E:
                        if e[1]<=ins/rate and not align and tuple(e) not in [tuple(x) for x in wt.entries]: note(('earlier changed',align),(E,ins,stop,wt.entries))
                    labs=[x.label for x in wt.entries if x.label!='NEW']
print(cnt)
for k,v in sorted(fails.items(),key=str): print(k,v,ex[k])
