import itertools, collections, sys
from fractions import Fraction as F
from praatio import textgrid
from praatio.utilities import errors
from p4 import tiers
IT=textgrid.IntervalTier; PT=textgrid.PointTier
fails=collections.Counter(); ex={}
def note(k,case):
    fails[k]+=1; ex.setdefault(k,case)
def close(x,y): return abs(x-y)<=1e-9
def labelfn(entries):
    # canonical: merge adjacent same label
    out=[]
    for s,e,l in entries:
        if out and out[-1][2]==l and out[-1][1]==s: out[-1]=(out[-1][0],e,l)
        else: out.append((s,e,l))
    return out
def run(G,S,Ds,tag):
    T=tiers(G); lo,hi=G[0],G[-1]
    for ents in T:
        lab='abc'
        E=[(float(a),float(b),lab[i]) for i,(a,b) in enumerate(ents)]
        tier=IT('t',E,lo,hi)
        for s0 in S:
            if not lo<=s0<=hi: continue
            for d in Ds:
                for mode in ('stretch','split','no_change','error'):
                    strad=[(s,e,l) for s,e,l in E if s<s0<e]
                    exp=[]
                    if strad and mode=='error': exp=None
                    else:
                        for s,e,l in E:
                            if e<=s0: exp.append((F(s),F(e),l))
                            elif s>=s0: exp.append((F(s)+F(d),F(e)+F(d),l))
                            elif mode=='stretch': exp.append((F(s),F(e)+F(d),l))
                            elif mode=='split': exp+= [(F(s),F(s0),l),(F(s0)+F(d),F(e)+F(d),l)]
                            else: exp.append((F(s),F(e),l))
                    try: r=tier.insertSpace(s0,d,mode)
                    except errors.ArgumentError:
                        if exp is not None: note((tag,'unexpected ArgErr',mode),(E,s0,d))
                        continue
                    except Exception as e_:
                        note((tag,'exc',type(e_).__name__,mode),(E,s0,d,str(e_)[:100])); continue
                    if exp is None: note((tag,'noerr',mode),(E,s0,d)); continue
                    got=[tuple(x) for x in r.entries]
                    if len(got)!=len(exp) or any(g[2]!=x[2] or not close(g[0],float(x[0])) or not close(g[1],float(x[1])) for g,x in zip(got,exp)):
                        note((tag,'entries',mode),(E,s0,d,got)); continue
                    # adjacency preserved
                    for (g1,g2),(x1,x2) in zip(zip(got,got[1:]),zip(exp,exp[1:])):
                        if (x1[1]==x2[0]) != (g1[1]==g2[0]): note((tag,'adjacency',mode),(E,s0,d,got)); break
                    if not close(r.maxTimestamp, float(F(hi)+F(d))) or r.minTimestamp!=lo: note((tag,'span',mode),(E,s0,d,r.minTimestamp,r.maxTimestamp))
                    if not r.validate('silence'): note((tag,'invalid',mode),(E,s0,d,got))
                    if mode in ('stretch','split'):
                        try:
                            back=r.eraseRegion(s0,s0+d,'truncate',True)
                        except Exception as e_:
                            note((tag,'inverse exc',type(e_).__name__,mode),(E,s0,d,str(e_)[:100])); continue
                        gb=labelfn([tuple(x) for x in back.entries]); eb=labelfn(E)
                        if len(gb)!=len(eb) or any(g[2]!=x[2] or not close(g[0],x[0]) or not close(g[1],x[1]) for g,x in zip(gb,eb)) or not close(back.maxTimestamp,hi):
                            note((tag,'inverse',mode),(E,s0,d,gb))
G=[0,1,2,3,4,5,6]
run(G,[x/2 for x in range(0,13)],[0.5,1.0,2.0],'dyadic')
D=[0.1,0.2,0.3,0.7,1.1,1.3,2.3]
run(D,D+[0.15,0.45,0.9,1.2,1.9],[0.1,0.3,0.7,1.7],'dec')
for k,v in sorted(fails.items(),key=str): print(k,v,ex[k])
