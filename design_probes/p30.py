import itertools, collections, io, contextlib, os, tempfile
from praatio import textgrid, audio, praatio_scripts, data_points
from praatio.data_classes.data_point import PointObject1D, PointObject2D
from praatio.utilities import errors
from p4 import tiers
fails=collections.Counter(); ex={}
def note(k,c): fails[k]+=1; ex.setdefault(k,c)
rate=1000; width=2
base=[3,-2,4,-1,5,0,2,-4,1,1,3,3,-4,-1,5,-3]*2   # 32 samples 0.032 s
w=audio.Wav(audio.convertToBytes(tuple(base),width),[1,width,rate,len(base),'NONE','not compressed'])
sg=lambda x:(x>0)-(x<0)
def crossing(t):
    i=round(t*rate)
    if abs(t*rate-i)>1e-6 or not 0<=i<=len(base): return False
    if i==len(base): i-=1
    return base[i]==0 or (i>0 and sg(base[i-1])!=sg(base[i])) or (i<len(base)-1 and sg(base[i+1])!=sg(base[i]))
G=[0,8,10,11,16,24,32]
ok=0
for ents in tiers(G,2):
    for pts in ([],[10],[9,11],[0,32]):
        tg=textgrid.Textgrid(0,0.032)
        E=[(a/rate,b/rate,'ab'[i]) for i,(a,b) in enumerate(ents)]
        tg.addTier(textgrid.IntervalTier('w',E,0,0.032)); tg.addTier(textgrid.PointTier('p',[(t/rate,'P%d'%i) for i,t in enumerate(pts)],0,0.032))
        try:
            with contextlib.redirect_stdout(io.StringIO()): r=praatio_scripts.tgBoundariesToZeroCrossings(tg.new(),w)
        except errors.TextgridStateError: note(('collapse err',),(ents,pts)); continue
        except Exception as e_: note(('exc',type(e_).__name__),(ents,pts,str(e_)[:80])); continue
        ok+=1
        if r.tierNames!=('w','p'): note(('names',),())
        wt=r.getTier('w'); pt=r.getTier('p')
        if [e.label for e in wt.entries]!=[e[2] for e in E] : note(('labels',),(ents,wt.entries))
        if sorted(e.label for e in pt.entries)!=sorted('P%d'%i for i in range(len(pts))): note(('plabels',),(pts,pt.entries))
        for e in wt.entries:
            if not crossing(e.start) or not crossing(e.end): note(('not crossing',),(ents,e)); break
        for e in pt.entries:
            if not crossing(e.time): note(('pt not crossing',),(pts,e)); break
print('ok',ok)
# point objects long format
d=tempfile.mkdtemp(); fn=os.path.join(d,'x')
def long1d(pts,lo,hi,trail=' '):
    o=['File type = "ooTextFile"','Object class = "PointProcess"','','xmin = %r%s'%(lo,trail),'xmax = %r%s'%(hi,trail),'nt = %d%s'%(len(pts),trail),'t []: ']
    o+=['    t [%d] = %r%s'%(i+1,p,trail) for i,p in enumerate(pts)]
    return '\n'.join(o)+'\n'
def long2d(cls,pts,lo,hi,trail=' '):
    o=['File type = "ooTextFile"','Object class = "%s"'%cls,'','xmin = %r%s'%(lo,trail),'xmax = %r%s'%(hi,trail),'points: size = %d%s'%(len(pts),trail)]
    for i,(t,v) in enumerate(pts): o+=['points [%d]:'%(i+1),'    number = %r%s'%(t,trail),'    value = %r%s'%(v,trail)]
    return '\n'.join(o)+'\n'
vals=[0.0,1.0,5,0.1,1e-05,123456789.12345678,1e16,0.30000000000000004]
for n in range(0,3):
    for pts in itertools.product(vals,repeat=n):
        for lo,hi in [(0,10.0),(0.5,1e16),(0,5)]:
            for trail in (' ',''):
                open(fn,'w').write(long1d(pts,lo,hi,trail))
                try:
                    po=data_points.open1DPointObject(fn)
                    if po.pointList!=[(float(p),) for p in pts] or (po.minTime,po.maxTime)!=(lo,hi) or po.objectClass!='PointProcess': note(('1d long',trail),(pts,lo,hi,po.pointList,po.minTime,po.maxTime))
                except Exception as e_: note(('1d long exc',type(e_).__name__,trail,n),(pts,lo,hi,str(e_)[:50]))
                for cls in ('PitchTier','DurationTier'):
                    p2=[(p,q) for p,q in zip(pts,reversed(pts))]
                    open(fn,'w').write(long2d(cls,p2,lo,hi,trail))
                    try:
                        po=data_points.open2DPointObject(fn)
                        if po.pointList!=[(float(a),float(b)) for a,b in p2] or (po.minTime,po.maxTime)!=(lo,hi) or po.objectClass!=cls: note(('2d long',trail),(p2,lo,hi,po.pointList))
                    except Exception as e_: note(('2d long exc',type(e_).__name__,trail,n),(p2,lo,hi,str(e_)[:50]))
for k,v in sorted(fails.items(),key=str): print(k,v,ex[k])
