import re, json, itertools, collections
from praatio import textgrid
from praatio.utilities import textgrid_io
from praatio.data_classes.textgrid import _tgToDictionary
def tokens(txt):
    i=0;n=len(txt);out=[]
    while i<n:
        c=txt[i]
        if c=='"':
            j=i+1;buf=[]
            while True:
                if j>=n: raise ValueError('unterminated string')
                if txt[j]=='"':
                    if j+1<n and txt[j+1]=='"': buf.append('"'); j+=2; continue
                    break
                buf.append(txt[j]); j+=1
            out.append(('s',''.join(buf))); i=j+1
        elif c=='<':
            j=txt.index('>',i); out.append(('f',txt[i:j+1])); i=j+1
        elif c=='!' :
            j=txt.find('\n',i); i=n if j<0 else j
        elif (c.isdigit() or c in '+-') and (i==0 or txt[i-1].isspace()):
            j=i
            while j<n and not txt[j].isspace(): j+=1
            w=txt[i:j]
            try: out.append(('n',float(w)))
            except ValueError: pass
            i=j
        else:
            # skip a word
            j=i
            while j<n and not txt[j].isspace() and txt[j] not in '"<': j+=1
            i=max(j,i+1)
    return out
def parse(txt):
    t=tokens(txt); p=0
    def nxt(kind):
        nonlocal p
        k,v=t[p]; assert k==kind,(k,v,kind,p); p+=1; return v
    assert nxt('s')=='ooTextFile'; assert nxt('s')=='TextGrid'
    lo=nxt('n'); hi=nxt('n'); assert nxt('f')=='<exists>'; nt=nxt('n'); tiers=[]
    for _ in range(int(nt)):
        cls=nxt('s'); name=nxt('s'); a=nxt('n'); b=nxt('n'); cnt=int(nxt('n')); ents=[]
        for _ in range(cnt):
            if cls=='IntervalTier': ents.append((nxt('n'),nxt('n'),nxt('s')))
            else: ents.append((nxt('n'),nxt('s')))
        tiers.append((cls,name,a,b,ents))
    assert p==len(t),('trailing',t[p:])
    return lo,hi,tiers
def mk(tiers, lo=None, hi=None):
    tg=textgrid.Textgrid(lo,hi)
    for t in tiers: tg.addTier(t, reportingMode='silence')
    return tg
labs=['', 'a', 'a"b', '"', '""', 'a\nb', 'item [2]:', 'intervals [1]:', '"IntervalTier"', 'text = "x"', 'ooTextFile short', '1 2', '! x', '<exists>', 'a\n"b\n1.5', '5', 'x\n12\n"q"']
bad=0
for l1,l2 in itertools.product(labs,repeat=2):
    for nm in ['t','na"me','item [1]:','"TextTier"']:
        tg=mk([textgrid.IntervalTier(nm,[(0,1,l1),(1.5,2,l2)],0,3), textgrid.PointTier('p',[(0.5,l2),(2.5,l1)],0,3)])
        for fmt in ('short_textgrid','long_textgrid'):
            for blanks in (True,False):
                s=textgrid_io.getTextgridAsStr(_tgToDictionary(tg),fmt,blanks)
                try: lo,hi,tiers=parse(s)
                except Exception as e:
                    bad+=1; print('PARSE FAIL',fmt,repr(l1),repr(l2),nm,type(e).__name__,e); continue
                exp_i=[(0.0,1.0,l1),(1.5,2.0,l2)]
                got_i=[e for e in tiers[0][4] if e[2]!='' ] if blanks else tiers[0][4]
                if blanks: exp_i=[e for e in exp_i if e[2]!='']
                ok= (lo,hi)==(0,3) and tiers[0][:4]==('IntervalTier',nm,0,3) and got_i==exp_i and tiers[1]==('TextTier','p',0.0,3.0,[(0.5,l2),(2.5,l1)])
                if blanks:
                    E=tiers[0][4]; ok&= E[0][0]==0 and E[-1][1]==3 and all(a[1]==b[0] for a,b in zip(E,E[1:])) and all(a[0]<a[1] for a in E)
                if not ok: bad+=1; print('MISMATCH',fmt,blanks,repr(l1),repr(l2),nm,tiers)
print('bad',bad)
