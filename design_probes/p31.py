from praatio import klattgrid
import os, tempfile, itertools, collections
fn='/repo/tests/files/bobby.KlattGrid'
d=tempfile.mkdtemp(); out=os.path.join(d,'o.KlattGrid')
def leaves(kg):
    for n in kg.tierNames:
        t=kg._tierDict[n]
        if hasattr(t,'tierNameList'):
            for kn in t.tierNameList:
                for sn in t.tierDict[kn].tierNameList: yield (n,kn,sn), t.tierDict[kn].tierDict[sn]
        else: yield (n,), t
def dump(kg): return {k:(repr(t.minTimestamp),repr(t.maxTimestamp),[(repr(float(a)),repr(float(b))) for a,b in t.entries]) for k,t in leaves(kg)}
fails=collections.Counter(); ex={}
def note(k,c): fails[k]+=1; ex.setdefault(k,c)
vals=[5,5.0,0,0.0,-3.5,1e-300,1e300,0.1,2519.3075148880134,1e-05,123456789012345678]
base=klattgrid.openKlattgrid(fn)
keys=[k for k,_ in leaves(base)]
print(len(keys))
# shrink all tiers to <=2 points to be fast
def fresh(npts):
    kg=klattgrid.openKlattgrid(fn)
    for k,t in leaves(kg): t._entries=list(t._entries[:npts])
    return kg
for npts in (0,1,2):
    kg=fresh(npts); kg.save(out)
    try: kg2=klattgrid.openKlattgrid(out)
    except Exception as e_: note(('reopen exc',npts,type(e_).__name__),str(e_)[:80]); continue
    if dump(kg)!=dump(kg2): 
        a,b=dump(kg),dump(kg2); note(('roundtrip',npts),[k for k in a if a[k]!=b.get(k)][:5]+[k for k in b if k not in a][:3])
    if list(dump(kg))!=list(dump(kg2)): note(('hierarchy order',npts),())
# modifications on every leaf / every intermediate
for v in vals:
    for k in keys:
        kg=fresh(2); before=dump(kg)
        t=dict(leaves(kg))[k]
        if len(t.entries)==0: continue
        t.modifyValues(lambda x,v=v: v)
        exp=dict(before); exp[k]=(before[k][0],before[k][1],[(a,repr(float(v))) for a,b in before[k][2]])
        try: kg.save(out); kg2=klattgrid.openKlattgrid(out)
        except Exception as e_: note(('mod exc',type(e_).__name__,repr(v)),(k,str(e_)[:60])); continue
        got=dump(kg2)
        if got!=exp: note(('mod mismatch',repr(v)),(k,[kk for kk in exp if exp[kk]!=got.get(kk)][:3]))
for k,v in sorted(fails.items(),key=str): print(k,v,ex[k])
kg=fresh(1); a=dump(kg); kg.save(out); b=dump(klattgrid.openKlattgrid(out)); 
for k in list(a)[:4]: print(k,a[k],b[k])
a2=dump(kg); print('after save in-memory changed?', a2!=a, [ (k,a[k][:2],a2[k][:2]) for k in a if a[k]!=a2[k]][:3])
