from praatio import textgrid
from praatio.utilities import errors
IT=textgrid.IntervalTier; PT=textgrid.PointTier
def snap(tg): return (tg.tierNames, tg.minTimestamp, tg.maxTimestamp, [(t.name,tuple(t.entries),t.minTimestamp,t.maxTimestamp) for t in tg.tiers])
def mk():
    tg=textgrid.Textgrid()
    tg.addTier(IT('a',[(0,1,'x')],0,2)); tg.addTier(IT('b',[(1,2,'y')],0,2)); tg.addTier(PT('c',[(1,'p')],0,2))
    return tg
def attempt(desc,f):
    tg=mk(); before=snap(tg)
    try: f(tg); print(desc,'no exception; names=',tg.tierNames)
    except Exception as e:
        after=snap(tg)
        print(desc, type(e).__name__, 'UNCHANGED' if after==before else 'CHANGED -> %s'%(after[0],))
attempt('rename to existing', lambda tg: tg.renameTier('a','b'))
attempt('rename missing', lambda tg: tg.renameTier('zz','b'))
attempt('rename same', lambda tg: tg.renameTier('a','a'))
attempt('replace w/ clash', lambda tg: tg.replaceTier('a', IT('b',[(0,1,'q')],0,2)))
attempt('replace missing', lambda tg: tg.replaceTier('zz', IT('q',[(0,1,'q')],0,2)))
attempt('replace span err', lambda tg: tg.replaceTier('a', IT('a',[(0,3,'q')],0,3),'error'))
attempt('replace bad mode', lambda tg: tg.replaceTier('a', IT('a',[(0,1,'q')],0,2),'bogus'))
attempt('add dup', lambda tg: tg.addTier(IT('a',[],0,2)))
attempt('add span err', lambda tg: tg.addTier(IT('z',[(0,3,'q')],0,3),reportingMode='error'))
attempt('add idx span err', lambda tg: tg.addTier(IT('z',[(0,3,'q')],0,3),0,reportingMode='error'))
attempt('add bad mode', lambda tg: tg.addTier(IT('z',[(0,1,'q')],0,2),reportingMode='bogus'))
attempt('remove missing', lambda tg: tg.removeTier('zz'))
for idx in [-5,-2,-1,0,1,2,3,5,7]:
    tg=mk(); tg.addTier(IT('z',[],0,2),idx); l=['a','b','c']; l.insert(idx,'z'); print(idx,tg.tierNames,tuple(l)==tg.tierNames)
tg=mk(); tg.renameTier('a','q'); print(tg.tierNames); tg.replaceTier('b',IT('w',[],0,2)); print(tg.tierNames)
# tier mutators
t=IT('a',[(0,1,'x')],0,2)
try: t.deleteEntry((5,6,'no'))
except Exception as e: print('delete missing',type(e).__name__, t.entries)
try: t.insertEntry((0.5,1.5,'n'),'bogus')
except Exception as e: print('bad mode',type(e).__name__, t.entries)
# save failing leaves file
import os,tempfile
d=tempfile.mkdtemp(); fn=os.path.join(d,'x.TextGrid'); open(fn,'w').write('ORIGINAL')
tg=mk()
for desc,kw in [('min above',dict(minTimestamp=1.5)),('max below',dict(maxTimestamp=0.5)),('bad fmt',dict(format='bogus'))]:
    args=dict(format='short_textgrid',includeBlankSpaces=True); args.update(kw)
    try: tg.save(fn,**args); print(desc,'saved')
    except Exception as e: print(desc,type(e).__name__, open(fn).read()[:20])
tg2=mk(); tg2.addTier(IT('z',[(0,3,'q')],0,3),reportingMode='silence')
try: tg2.save(fn,'short_textgrid',True,reportingMode='error'); print('invalid saved')
except Exception as e: print('invalid tg',type(e).__name__, open(fn).read()[:20])
