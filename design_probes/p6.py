import itertools, collections, sys, io, contextlib
from praatio import textgrid
from praatio.utilities import errors
from p4 import tiers
IT=textgrid.IntervalTier; PT=textgrid.PointTier
fails=collections.Counter(); ex={}
def note(k,case):
    fails[k]+=1; ex.setdefault(k,case)
G=[0,1,2,3,4]
T=tiers(G,3)
offs=[-5,-4,-2.5,-2,-1,-0.5,0,0.5,1,3]
for ents in T:
    E=[(float(a),float(b),'abc'[i]) for i,(a,b) in enumerate(ents)]
    for (lo,hi) in [(0,4),(1,4)]:
        if E and E[0][0]<lo: continue
        tier=IT('t',E,lo,hi)
        for off in offs:
            for mode in ('silence','warning','error'):
                exp=[]
                leaves=False
                for s,e,l in E:
                    ns,ne=s+off,e+off
                    if ns<lo or ne>hi: leaves=True
                    if ne<=0: continue
                    exp.append((max(ns,0),ne,l))
                buf=io.StringIO()
                try:
                    with contextlib.redirect_stdout(buf):
                        r=tier.editTimestamps(off,mode)
                except errors.OutOfBounds:
                    if not (mode=='error' and leaves): note(('iv','unexpected OOB',mode),(E,lo,hi,off))
                    continue
                except Exception as e_:
                    note(('iv','exc',type(e_).__name__,mode,'empty-src' if not E else ('all-dropped' if not exp else 'other')),(E,lo,hi,off)); continue
                if mode=='error' and leaves: note(('iv','no OOB',mode),(E,lo,hi,off)); continue
                if (mode=='warning' and leaves) != bool(buf.getvalue()): note(('iv','warning mismatch',mode),(E,lo,hi,off,buf.getvalue()))
                got=[tuple(x) for x in r.entries]
                if got!=exp: note(('iv','entries',mode),(E,lo,hi,off,got,exp)); continue
                es=(min([lo]+[s for s,e,l in exp]),max([hi]+[e for s,e,l in exp]))
                if (r.minTimestamp,r.maxTimestamp)!=es: note(('iv','span',mode),(E,lo,hi,off,(r.minTimestamp,r.maxTimestamp),es))
# points
for n in range(0,3):
  for pts in itertools.combinations([0,1,2,3,4],n):
    P=[(float(t),'xyz'[i]) for i,t in enumerate(pts)]
    tier=PT('p',P,0,4)
    for off in offs:
        for mode in ('silence','error'):
            exp=[(t+off,l) for t,l in P if t+off>=0]
            leaves=any(t+off<0 or t+off>4 for t,l in P)
            try:
                r=tier.editTimestamps(off,mode)
            except errors.OutOfBounds:
                if not (mode=='error' and leaves): note(('pt','unexpected OOB',mode),(P,off))
                continue
            except Exception as e_:
                note(('pt','exc',type(e_).__name__,mode,'empty-src' if not P else ('all-dropped' if not exp else 'other')),(P,off)); continue
            if mode=='error' and leaves: note(('pt','no OOB'),(P,off)); continue
            got=[tuple(x) for x in r.entries]
            if got!=exp: note(('pt','entries',mode),(P,off,got,exp))
# appendTier
for A in T[:60]:
  for B in T[:60]:
    EA=[(float(a),float(b),'abc'[i]) for i,(a,b) in enumerate(A)]
    EB=[(float(a),float(b),'xyz'[i]) for i,(a,b) in enumerate(B)]
    ta=IT('t',EA,0,4); tb=IT('t',EB,0,4)
    try: r=ta.appendTier(tb)
    except Exception as e_:
        note(('append','exc',type(e_).__name__,'emptyB' if not EB else 'nonemptyB'),(EA,EB)); continue
    exp=EA+[(s+4,e+4,l) for s,e,l in EB]
    if [tuple(x) for x in r.entries]!=exp or (r.minTimestamp,r.maxTimestamp)!=(0,8): note(('append','result'),(EA,EB,r.entries,r.minTimestamp,r.maxTimestamp))
for k,v in sorted(fails.items(),key=str): print(k,v,ex[k])
