from praatio import data_points
from praatio.data_classes.data_point import PointObject1D, PointObject2D
import os, tempfile, itertools
d=tempfile.mkdtemp(); fn=os.path.join(d,'o.txt')
vals=[0.0,1.0,5,0.1,1e-05,1.5e-7,123456789.12345678,1e16,2.5e+20,0.30000000000000004]
bad=[]
for n in range(0,3):
    for pts in itertools.product(vals,repeat=n):
        for (lo,hi) in [(0,None),(0.0,10.0),(1e-05,3),(0.5,1e16),(0,0)]:
            try:
                po=PointObject1D([(p,) for p in pts],'PointProcess',lo,hi)
            except Exception as e:
                bad.append(('ctor1',pts,lo,hi,type(e).__name__)); continue
            try:
                po.save(fn); po2=data_points.open1DPointObject(fn)
                if not (po2.pointList==po.pointList and po2.minTime==po.minTime and po2.maxTime==po.maxTime and po2.objectClass==po.objectClass and [repr(x) for r in po2.pointList for x in r]==[repr(float(x)) for r in po.pointList for x in r]): bad.append(('1d',pts,lo,hi,po2.pointList,po2.minTime,po2.maxTime))
            except Exception as e: bad.append(('1d exc',pts,lo,hi,type(e).__name__,str(e)))
            for cls in ('PitchTier','DurationTier'):
                if n==0 and hi is None: continue
                try:
                    po=PointObject2D([(p,q) for p,q in zip(pts,reversed(pts))],cls,lo,hi)
                    po.save(fn); po2=data_points.open2DPointObject(fn)
                    if not (po2.pointList==po.pointList and po2.minTime==po.minTime and po2.maxTime==po.maxTime and po2.objectClass==po.objectClass): bad.append(('2d',pts,lo,hi,po2.pointList))
                except Exception as e: bad.append(('2d exc',pts,lo,hi,type(e).__name__,str(e)))
import collections
c=collections.Counter(b[0] for b in bad); print(c)
seen=set()
for b in bad:
    if b[0] not in seen: seen.add(b[0]); print(b)
print(open(fn).read())
