import itertools, collections
from praatio import textgrid
from praatio.utilities import errors, utils
from p4 import tiers
IT=textgrid.IntervalTier; PT=textgrid.PointTier
fails=collections.Counter(); ex={}
def note(k,c): fails[k]+=1; ex.setdefault(k,c)
G=[0,1,2,3,4]
# invertIntervalList
ivsets=tiers(G,3)
for ivs in ivsets:
    for lo in (None,0,1,-1):
        for hi in (None,4,3,5):
            L=[(float(a),float(b)) for a,b in ivs]
            try: r=utils.invertIntervalList(list(L),lo,hi)
            except Exception as e_:
                note(('inv exc',type(e_).__name__,'empty' if not L else 'nonempty', lo is None, hi is None),(L,lo,hi)); continue
            # oracle: complement of union within [lo or first start, hi or last end]
            if not L and (lo is None or hi is None): 
                if r!=[]: note(('inv empty',),(L,lo,hi,r))
                continue
            a=lo if lo is not None else L[0][0]; b=hi if hi is not None else L[-1][1]
            # oracle only defined if all intervals inside [a,b]
            if L and (L[0][0]<a or L[-1][1]>b): continue
            pts=[a]
            exp=[]; cur=a
            for s,e in L:
                if s>cur: exp.append((cur,s))
                cur=max(cur,e)
            if cur<b: exp.append((cur,b))
            if [tuple(x) for x in r]!=exp: note(('inv',),(L,lo,hi,r,exp))
# getNonEntries
for ents in ivsets:
    if not ents: continue
    E=[(float(a),float(b),'x') for a,b in ents]
    for hi in (4,6):
        t=IT('t',E,0,hi)
        r=[tuple(x) for x in t.getNonEntries()]
        exp=[];cur=0
        for s,e,l in E:
            if s>cur: exp.append((cur,s,''))
            cur=e
        if cur<hi: exp.append((cur,hi,''))
        if r!=exp: note(('nonentries',),(E,hi,r,exp))
# getValueAtTime fuzzy / exact
times=[0,0.5,1,1.5,2,3]
for n in range(1,4):
  for data in itertools.combinations_with_replacement(times,n):
    D=[(float(t),i) for i,t in enumerate(data)]
    for m in range(0,3):
      for pts in itertools.combinations(times,m):
        pt=PT('p',[(float(t),'l') for t in pts],0,3)
        for fuzzy in (False,True):
            try: r=pt.getValuesAtPoints(list(D),fuzzy)
            except Exception as e_: note(('gvap exc',type(e_).__name__,fuzzy),(D,pts)); continue
            for p,row in zip(pts,r):
                if not fuzzy:
                    c=[d for d in D if d[0]==p]
                    if (row==() and c) or (row!=() and row not in c): note(('exact',),(D,pts,r)); break
                else:
                    best=min(abs(d[0]-p) for d in D)
                    if row==() or abs(row[0]-p)!=best: note(('fuzzy',),(D,pts,r)); break
# getValuesInIntervals
for ents in ivsets:
    E=[(float(a),float(b),'x') for a,b in ents]
    t=IT('t',E,0,4)
    D=[(x/2,x) for x in range(0,9)]; D2=list(reversed(D))
    for data in (D,D2):
        r=t.getValuesInIntervals(data)
        for (iv,vals),(s,e,l) in zip(r,E):
            if vals!=[d for d in data if s<=d[0]<=e]: note(('gvii',),(E,vals))
# overlap check
for a,b,c,d in itertools.product(G,repeat=4):
    if a<b and c<d:
        r=utils.intervalOverlapCheck((a,b),(c,d)); 
        if r!=(max(a,c)<min(b,d)): note(('ovl',),(a,b,c,d))
        r=utils.intervalOverlapCheck((a,b),(c,d),boundaryInclusive=True)
        if r!=(max(a,c)<=min(b,d)): note(('ovl incl',),(a,b,c,d))
for k,v in sorted(fails.items(),key=str): print(k,v,ex[k])
