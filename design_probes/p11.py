from praatio import audio
from praatio.utilities import errors
import itertools, collections
def mkwav(samples,width,rate):
    fr=audio.convertToBytes(tuple(samples),width)
    return audio.Wav(fr,[1,width,rate,len(samples),'NONE','not compressed'])
fails=collections.Counter(); ex={}
def note(k,c): fails[k]+=1; ex.setdefault(k,c)
rate=8
N=7
count=0
for samples in itertools.product([-2,0,1],repeat=N):
    w=mkwav(samples,2,rate)
    for ti in range(0,N+1):
        for stepS in (2,2.2,2.5,3,3.5):
            t=ti/rate; step=stepS/rate
            count+=1
            try: r=w.findNearestZeroCrossing(t,step)
            except errors.FindZeroCrossingError:
                # ok only if no crossing exists at all?
                has=any(s==0 for s in samples) or any((a>0)!=(b>0) for a,b in zip(samples,samples[1:]))
                if has: note(('raise though crossing exists',stepS),(samples,ti))
                continue
            except Exception as e: note(('exc',type(e).__name__,stepS),(samples,ti,str(e))); continue
            if not (0<=r<=w.duration): note(('range',stepS),(samples,ti,r)); continue
            idx=r*rate
            if abs(idx-round(idx))>1e-9: note(('offgrid',stepS),(samples,ti,r,idx)); continue
            i=round(idx)
            if i>=N: note(('idx==N',stepS),(samples,ti,r)); continue
            ok = samples[i]==0 or (i>0 and (samples[i-1]>0)!=(samples[i]>0) and samples[i-1]!=0 or False) or (i<N-1 and (samples[i+1]>0)!=(samples[i]>0))
            sg=lambda x:(x>0)-(x<0)
            ok = samples[i]==0 or (i>0 and sg(samples[i-1])!=sg(samples[i])) or (i<N-1 and sg(samples[i+1])!=sg(samples[i]))
            if not ok: note(('not crossing',stepS),(samples,ti,r))
print(count)
for k,v in sorted(fails.items(),key=str): print(k,v,ex[k])
