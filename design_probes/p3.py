import itertools, collections
from praatio import textgrid
from praatio.utilities import errors
IT=textgrid.IntervalTier; PT=textgrid.PointTier
G=[0,1,2,3,4,5,6]
def tiers(maxn=3):
    # all sets of non-overlapping intervals with endpoints on grid 0..6
    ivs=[(a,b) for a in G for b in G if a<b]
    out=[]
    def rec(start,cur):
        out.append(list(cur))
        if len(cur)==maxn: return
        for (a,b) in ivs:
            if a>=start:
                cur.append((a,b)); rec(b,cur); cur.pop()
    rec(0,[])
    return out
T=tiers()
print(len(T))
fails=collections.Counter(); ex={}
def note(k,case):
    fails[k]+=1; ex.setdefault(k,case)
W=[x/2 for x in range(-2,16)]
for ents in T:
    lab='abc'
    E=[(float(a),float(b),lab[i]) for i,(a,b) in enumerate(ents)]
    tier=IT('t',E,0,6)
    for a in W:
        for b in W:
            for mode in ('strict','lax','truncated'):
                for rb in (False,True):
                    # oracle
                    if a>=b:
                        try:
                            tier.crop(a,b,mode,rb); note(('noerr',mode,rb),(E,a,b))
                        except errors.ArgumentError: pass
                        except Exception as e: note(('wrongexc',type(e).__name__),(E,a,b,mode,rb))
                        continue
                    exp=[]
                    for (s,e,l) in E:
                        if e<=a or s>=b: continue
                        if mode=='strict':
                            if s>=a and e<=b: exp.append((s,e,l))
                        elif mode=='lax': exp.append((s,e,l))
                        else: exp.append((max(s,a),min(e,b),l))
                    lo,hi=a,b
                    if mode=='lax' and exp:
                        lo=min(a,exp[0][0]); hi=max(b,exp[-1][1])
                    if rb:
                        exp=[(s-lo,e-lo,l) for s,e,l in exp]
                        span=(0.0, max([b-a]+[e for s,e,l in exp]))
                    else:
                        span=(lo,hi)
                    try:
                        r=tier.crop(a,b,mode,rb)
                    except Exception as ex_:
                        note(('exc',type(ex_).__name__,mode,rb,'empty' if not exp else 'nonempty'),(E,a,b)); continue
                    got=[tuple(x) for x in r.entries]
                    if got!=exp: note(('entries',mode,rb),(E,a,b,got,exp))
                    elif (r.minTimestamp,r.maxTimestamp)!=span: note(('span',mode,rb),(E,a,b,(r.minTimestamp,r.maxTimestamp),span))
for k,v in sorted(fails.items(),key=str): print(k,v,ex[k])
