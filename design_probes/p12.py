from praatio import klattgrid
import os, tempfile
fn='/repo/tests/files/bobby.KlattGrid'
kg=klattgrid.openKlattgrid(fn)
print(kg.tierNames)
def dump(kg):
    out={}
    for n in kg.tierNames:
        t=kg._tierDict[n]
        if hasattr(t,'tierNameList'):
            for kn in t.tierNameList:
                kit=t.tierDict[kn]
                for sn in kit.tierNameList:
                    st=kit.tierDict[sn]
                    out[(n,kn,sn)]=(st.minTimestamp,st.maxTimestamp,tuple(st.entries))
        else: out[(n,)]=(t.minTimestamp,t.maxTimestamp,tuple(t.entries))
    return out
d0=dump(kg)
print(len(d0), [ (k,len(v[2])) for k,v in d0.items() if len(v[2])][:20])
# compare against raw text: last values of each section
import re
txt=open(fn).read()
# bandwidths [5] last point in oral_formants
k=('oral_formants','bandwidths','bandwidths [5]')
print(d0[k][2][-1])
i=txt.index('nasal_formants? <exists>'); print(repr(txt[i-120:i]))
k=('oral_formants','formants','formants [5]'); print(d0[k][2][-1])
i=txt.index('bandwidths: size = 5'); print(repr(txt[i-100:i]))
d=tempfile.mkdtemp(); out=os.path.join(d,'o.KlattGrid')
kg.save(out); kg2=klattgrid.openKlattgrid(out); d1=dump(kg2)
print('keys same',list(d0)==list(d1)); 
bad=[k for k in d0 if d0[k]!=d1[k]]; print('diff tiers',bad[:10])
for k in bad[:3]:
    a,b=d0[k],d1[k]; print(k,a[:2],b[:2],len(a[2]),len(b[2]),[ (x,y) for x,y in zip(a[2],b[2]) if x!=y][:3])
# modify
kg=klattgrid.openKlattgrid(fn)
kg._tierDict['oral_formants'].modifySubtiers('formants', lambda v: 5)
kg._tierDict['pitch'].modifyValues(lambda v: v*1.1)
kg.save(out); kg2=klattgrid.openKlattgrid(out); e0=dump(kg); e1=dump(kg2)
bad=[k for k in e0 if e0[k]!=e1.get(k)]; print('after modify diff',bad)
for k in bad[:4]:
    a,b=e0[k],e1.get(k); print(k, a[2][-2:], b and b[2][-2:])
print(kg2.tierNames==kg.tierNames, list(e0)==list(e1))
