# C01 oracle prototype: label layer + number layer + structure layer, all formats/flags
import itertools, collections, math
from praatio import textgrid
from praatio.utilities import textgrid_io
from praatio.data_classes.textgrid import _tgToDictionary
from praatio.textgrid import _dictionaryToTg
fails=collections.Counter(); ex={}
def note(k,c): fails[k]+=1; ex.setdefault(k,c)
FMTS=('short_textgrid','long_textgrid','json','textgrid_json')
def teq(t,t2):
    if t==t2 and math.copysign(1,t)==math.copysign(1,t2): return True
    return float(t2).is_integer() and abs(t-t2)<=1e-14*max(abs(t),abs(t2))
def model(tg,fmt,blanks,incl):
    out=[]
    lo,hi=tg.minTimestamp,tg.maxTimestamp
    for t in tg.tiers:
        E=[tuple(e) for e in t.entries]
        tlo,thi=t.minTimestamp,t.maxTimestamp
        if t.tierType=='IntervalTier' and blanks:
            W=[];cur=lo
            for s,e,l in E:
                if s>cur: W.append((cur,s,''))
                W.append((s,e,l)); cur=e
            if cur<hi: W.append((cur,hi,''))
            if not E: W=[(lo,hi,'')]
        else: W=E
        R=W if incl else [e for e in W if e[-1]!='']
        if fmt=='json': tlo,thi=lo,hi
        ts=[x for e in R for x in e[:-1]]
        if ts: tlo=min([tlo]+ts); thi=max([thi]+ts)
        out.append((t.tierType,t.name,tlo,thi,R))
    return lo,hi,out
def check(tg,tag):
    d0=_tgToDictionary(tg)
    for fmt in FMTS:
        for blanks in (True,False):
            try: s=textgrid_io.getTextgridAsStr(_tgToDictionary(tg),fmt,blanks,None,None,None)
            except Exception as e_: note((tag,'save exc',fmt,type(e_).__name__),(d0,)); continue
            for incl in (True,False):
                try: r=_dictionaryToTg(textgrid_io.parseTextgridStr(s,incl),'silence')
                except Exception as e_: note((tag,'open exc',fmt,type(e_).__name__),(d0,blanks,incl)); continue
                lo,hi,exp=model(tg,fmt,blanks,incl)
                ok = teq(lo,r.minTimestamp) and teq(hi,r.maxTimestamp) and len(r.tiers)==len(exp)
                if ok:
                    for rt,(ty,nm,tlo,thi,R) in zip(r.tiers,exp):
                        ok&= rt.tierType==ty and rt.name==nm and teq(tlo,rt.minTimestamp) and teq(thi,rt.maxTimestamp) and len(rt.entries)==len(R)
                        if ok:
                            for a,b in zip(rt.entries,R):
                                ok&= a[-1]==b[-1] and all(teq(y,x) for x,y in zip(a[:-1],b[:-1]))
                if not ok: note((tag,'mismatch',fmt,blanks,incl),(d0,[(t.name,t.minTimestamp,t.maxTimestamp,t.entries) for t in r.tiers])); continue
                has_empty=any(e[-1]=='' for t in tg.tiers for e in t.entries)
                widened=any((t.minTimestamp,t.maxTimestamp)!=(e[2],e[3]) for t,e in zip(tg.tiers,exp)) and fmt!='json'
                if fmt=='json': widened=any((e[2],e[3])!=(lo,hi) for e in exp)
                if (incl or not has_empty) and not widened:
                    s2=textgrid_io.getTextgridAsStr(_tgToDictionary(r),fmt,blanks,None,None,None)
                    if s2!=s: note((tag,'not fixed point',fmt,blanks,incl),(d0,s,s2))
IT=textgrid.IntervalTier; PT=textgrid.PointTier
def mk(tiers,lo,hi):
    tg=textgrid.Textgrid(float(lo),float(hi))
    for t in tiers: tg.addTier(t,reportingMode='silence')
    return tg
# label layer
SIG=['a','"','\n','=','1',' ','é']
labs=set()
for L in range(0,4):
    for tup in itertools.product(SIG,repeat=L): labs.add(''.join(tup).strip())
labs=sorted(labs,key=lambda s:(len(s),s)); print('labels',len(labs))
n=0
for l in labs:
    for pos in range(4):
        nm=l if pos==3 else 't'
        if pos==3 and (not l or '\n' in l): continue
        tg=mk([IT(nm,[(0,1,l if pos==0 else 'x'),(1.5,2,l if pos==1 else 'y')],0,3),PT('p',[(1,l if pos==2 else 'z'),(2,'w')],0,3)],0,3)
        check(tg,'label'); n+=1
print('label cases',n)
# number layer
NUM=[0,1e-17,1e-05,1.5e-05,5e-05,9.999e-05,1e-04,0.0001234,0.1,0.3,1/3,0.5,1,1+2**-52,1-2**-53,1+1e-13,1-1e-13,1+1e-10,2.5,3.0000000000000004,1234.5678,123456789012345.6,999999999999999.9,1e15,2**52+0.5]
m=0
def coll(x): return float(int(x)) if abs(x-int(x))<=1e-14*max(abs(x),abs(int(x))) else x
for a,b in itertools.combinations(sorted(NUM),2):
    if not coll(a)<coll(b): continue
    tg=mk([IT('i',[(a,b,'x')],a,b),PT('p',[(a,'u'),(b,'v')],a,b)],a,b); check(tg,'num'); m+=1
    tg=mk([IT('i',[(a,b,'x')],0,1e15),PT('p',[(b,'v')],0,1e15)],0,1e15); check(tg,'num2'); m+=1
print('num cases',m)
# structure layer
G=[0.0,1.0,2.0,3.0]
ivs=[[]]+[[(a,b,l)] for a,b in itertools.combinations(G,2) for l in ('x','')]+[[(0.0,1.0,'x'),(1.0,2.0,'y')],[(0.0,1.0,''),(2.0,3.0,'y')],[(1.0,2.0,'x'),(2.0,3.0,'')]]
pts=[[],[(1.0,'u')],[(0.0,''),(3.0,'v')],[(1.0,'u'),(1.0,'v2')]]
k=0
for iv in ivs:
    for pt in pts:
        for (ilo,ihi) in [(0,3),(1,2),(0,4)]:
            for (glo,ghi) in [(0,3),(0,4)]:
                for order in (0,1):
                    if iv and (iv[0][0]<ilo or iv[-1][1]>ihi) and (ilo,ihi)==(1,2): continue
                    ti=IT('i',iv,ilo,ihi); tp=PT('p',pt,0,3)
                    tg=mk([ti,tp] if order==0 else [tp,ti],glo,ghi); check(tg,'struct'); k+=1
print('struct cases',k)
for kk,v in sorted(fails.items(),key=str): print(kk,v,str(ex[kk])[:400])
