import io, os, tempfile, traceback
from praatio import textgrid
from praatio.utilities import textgrid_io
from praatio.data_classes.textgrid import _tgToDictionary
from praatio.textgrid import _dictionaryToTg

def rt(tg, fmt, blanks=True, incl=True):
    d=_tgToDictionary(tg)
    s=textgrid_io.getTextgridAsStr(d, fmt, blanks)
    d2=textgrid_io.parseTextgridStr(s, incl)
    return s,_dictionaryToTg(d2,'silence')

def show(tg):
    return [(t.name,t.tierType,t.minTimestamp,t.maxTimestamp,list(map(tuple,t.entries))) for t in tg.tiers]

def mk(tiers, lo=None, hi=None):
    tg=textgrid.Textgrid(lo,hi)
    for t in tiers: tg.addTier(t, reportingMode='silence')
    return tg

cases = {
 'point_quote': mk([textgrid.PointTier('p',[(1.0,'a"b')],0,2)]),
 'small_time': mk([textgrid.IntervalTier('i',[(5e-05,1.0,'a')],0,2)]),
 'small_tier_min': mk([textgrid.IntervalTier('i',[(5e-05,1.0,'a')],5e-05,2)]),
 'tier_min_1e-5': mk([textgrid.PointTier('i',[(1.0,'a')],1e-05,2)]),
 'label_item': mk([textgrid.IntervalTier('i',[(0,1.0,'item [2]:')],0,2)]),
 'label_intervals': mk([textgrid.IntervalTier('i',[(0,1.0,'intervals [1]:')],0,2)]),
 'label_IT': mk([textgrid.IntervalTier('i',[(0,1.0,'"IntervalTier"')],0,2)]),
 'label_text': mk([textgrid.IntervalTier('i',[(0,1.0,'text = "x"')],0,2)]),
 'label_nl_quote': mk([textgrid.IntervalTier('i',[(0,1.0,'a"\nb')],0,2)]),
 'label_quote_nl': mk([textgrid.IntervalTier('i',[(0,1.0,'a\n"b')],0,2)]),
 'label_endquote': mk([textgrid.IntervalTier('i',[(0,1.0,'a"'),(1.0,2.0,'"')],0,2)]),
 'near_int': mk([textgrid.IntervalTier('i',[(0,1.0000000000000002,'a')],0,3.0000000000000004)]),
 'big': mk([textgrid.IntervalTier('i',[(0,123456789012345.6,'a')],0,1e15)]),
 'name_quote': mk([textgrid.IntervalTier('na"me',[(0,1.0,'a')],0,2)]),
 'two_names_ooshort': mk([textgrid.IntervalTier('ooTextFile short',[(0,1.0,'a')],0,2)]),
 'label_num': mk([textgrid.IntervalTier('i',[(0,1.0,'12'),(1,2,'=')],0,2)]),
 'label_nl_num': mk([textgrid.IntervalTier('i',[(0,1.0,'a\n12\nb')],0,2)]),
 'empty_tier': mk([textgrid.IntervalTier('i',[],0,2), textgrid.PointTier('p',[],0,2)]),
}
for name,tg in cases.items():
    for fmt in ['short_textgrid','long_textgrid','json','textgrid_json']:
        for blanks in (True,False):
            try:
                s,tg2=rt(tg,fmt,blanks,False)
                ok = show(tg)==show(tg2)
                s2,_=rt(tg2,fmt,blanks,False)
                print(name,fmt,blanks,'OK' if ok else 'DIFF', 'fix' if s==s2 else 'NOFIX', '' if ok else (show(tg),show(tg2)))
            except Exception as e:
                print(name,fmt,blanks,'EXC',type(e).__name__,e)
