import itertools, collections
from fractions import Fraction as F
from praatio import audio
fails=collections.Counter(); ex={}
def note(k,c): fails[k]+=1; ex.setdefault(k,c)
def mk(samples,width,rate): return audio.Wav(audio.convertToBytes(tuple(samples),width),[1,width,rate,len(samples),'NONE','not compressed'])
def idx(t,rate,n):
    x=F(t)*rate
    lo=x.__floor__(); fr=x-lo
    if abs(fr-F(1,2))<F(1,10**9): c=[lo,lo+1]
    elif fr<F(1,2): c=[lo]
    elif fr>F(1,2): c=[lo+1]
    else: c=[lo,lo+1]
    return c
for width,rate in [(1,8),(2,8),(4,8),(2,8000),(2,44100),(1,44100)]:
    N=6
    times=sorted(set([k/rate for k in range(0,N+3)]+[(k+1/3)/rate for k in range(0,N+1)]+[(k+0.5)/rate for k in range(0,N+1)]+[(k+0.75)/rate for k in range(N)]))
    init=list(range(1,N+1))
    seen={tuple(init)}; front=[tuple(init)]; trans=0
    mark=[-1,-2]
    for depth in range(2):
        nx=[]
        for st in front:
            for op in ['ins','del','rep']:
                for t0 in times:
                    for t1 in (times if op!='ins' else [None]):
                        if t1 is not None and t1<t0: continue
                        w=mk(st,width,rate); trans+=1
                        n=len(st)
                        try:
                            if op=='ins': w.insert(t0,audio.convertToBytes(tuple(mark),width))
                            elif op=='del': w.deleteSegment(t0,t1)
                            else: w.replaceSegment(t0,t1,audio.convertToBytes(tuple(mark),width))
                            got=audio.convertFromBytes(w.frames,width)
                        except Exception as e_:
                            note(('exc',op,type(e_).__name__,width,rate),(st,t0,t1)); continue
                        ok=False
                        for i in idx(t0,rate,n):
                            i=min(max(i,0),n)
                            if op=='ins': 
                                if list(got)==list(st[:i])+mark+list(st[i:]): ok=True
                            else:
                                for j in idx(t1,rate,n):
                                    j=min(max(j,0),n)
                                    base=list(st[:i])+list(st[max(i,j):]) if True else None
                                    exp=list(st[:i])+list(st[j:]) if j>=i else None
                                    if op=='del' and exp is not None and list(got)==exp: ok=True
                                    if op=='rep' and exp is not None and list(got)==list(st[:i])+mark+list(st[j:]): ok=True
                        if not ok: note((op,width,rate),(st,t0,t1,got))
                        elif len(got)<=8 and tuple(got) not in seen: seen.add(tuple(got)); nx.append(tuple(got))
        front=nx
    print(width,rate,'states',len(seen),'trans',trans)
for k,v in sorted(fails.items(),key=str): print(k,v,ex[k])
