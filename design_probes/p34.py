# C15 equality / validate / find ; C10 point union, mergeTiers
import itertools, collections, io, contextlib, re
from praatio import textgrid
from praatio.utilities import errors
from p4 import tiers
IT=textgrid.IntervalTier; PT=textgrid.PointTier
fails=collections.Counter(); ex={}
def note(k,c): fails[k]+=1; ex.setdefault(k,c)
G=[0,1,2,3,4]
base=[]
for ents in tiers(G,2):
    base.append(('I',[(float(a),float(b),'xy'[i]) for i,(a,b) in enumerate(ents)]))
for n in range(3):
    for pts in itertools.combinations(G,n): base.append(('P',[(float(t),'xy'[i]) for i,t in enumerate(pts)]))
def mk(kind,E,name='t',lo=0,hi=4): return (IT if kind=='I' else PT)(name,list(E),lo,hi)
for kind,E in base:
    t=mk(kind,E)
    if not (t==mk(kind,E)): note(('not reflexive',),(kind,E))
    variants=[('name',mk(kind,E,'u')),('lo',mk(kind,E,'t',-1,4)),('hi',mk(kind,E,'t',0,5)),('type',mk('P' if kind=='I' else 'I',[] ,'t')) if not E else ('type',None)]
    for i in range(len(E)):
        e=list(E[i]); e[-1]='q'; variants.append(('label',mk(kind,E[:i]+[tuple(e)]+E[i+1:])))
        variants.append(('count',mk(kind,E[:i]+E[i+1:])))
        for j in range(len(e)-1):
            e2=list(E[i]); e2[j]=e2[j]+0.001
            try: variants.append(('time',mk(kind,E[:i]+[tuple(e2)]+E[i+1:])))
            except errors.TextgridStateError: pass
            e3=list(E[i]); e3[j]=e3[j]+1e-13
            try: variants.append(('noise',mk(kind,E[:i]+[tuple(e3)]+E[i+1:])))
            except errors.TextgridStateError: pass
    for what,v in variants:
        if v is None: continue
        a=(t==v); b=(v==t)
        if a!=b: note(('asymmetric',what),(kind,E))
        if what=='noise':
            if not a: note(('noise distinguishes',),(kind,E))
        elif a: note(('does not distinguish',what),(kind,E))
    # textgrid equality
    tg=textgrid.Textgrid(); tg.addTier(t); tg2=textgrid.Textgrid(); tg2.addTier(mk(kind,E))
    if not tg==tg2 or not tg2==tg: note(('tg eq',),(kind,E))
    tg3=textgrid.Textgrid(); tg3.addTier(mk(kind,E)); tg3.addTier(PT('z',[],0,4))
    if tg==tg3 or tg3==tg: note(('tg count',),(kind,E))
    # validate
    if not t.validate('silence') or not tg.validate('silence'): note(('valid says invalid',),(kind,E))
    if E:
        t2=mk(kind,E); t2.maxTimestamp=E[-1][-2]-0.5
        if t2.validate('silence'): note(('validate misses overshoot',),(kind,E))
        t2=mk(kind,E); t2.minTimestamp=E[0][0]+0.5
        if t2.validate('silence'): note(('validate misses undershoot',),(kind,E))
        tgx=textgrid.Textgrid(); tgx.addTier(mk(kind,E)); tgx.maxTimestamp=9
        if tgx.validate('silence'): note(('tg validate misses span mismatch',),(kind,E))
    if len(E)>1:
        t2=mk(kind,E); t2._entries=list(reversed(t2._entries))
        if t2.validate('silence'): note(('validate misses order',kind),(E,))
# find
labs=['a','ab','b','A','']
qs=['a','b','ab','A','','a|b','^a$','.','b+']
for L in itertools.product(labs,repeat=3):
    t=IT('t',[(i,i+1,l) for i,l in enumerate(L)],0,3)
    for q in qs:
        if t.find(q)!=[i for i,l in enumerate(L) if l==q]: note(('find eq',),(L,q))
        if t.find(q,substrMatchFlag=True)!=[i for i,l in enumerate(L) if q in l]: note(('find sub',),(L,q))
        if t.find(q,usingRE=True)!=[i for i,l in enumerate(L) if re.search(q,l,re.I)]: note(('find re',),(L,q,t.find(q,usingRE=True)))
# point union & mergeTiers
for A in itertools.chain.from_iterable(itertools.combinations(G,n) for n in range(4)):
    for B in itertools.chain.from_iterable(itertools.combinations(G,n) for n in range(4)):
        ta=PT('a',[(float(t),'a%d'%t) for t in A],0,4); tb=PT('b',[(float(t),'b%d'%t) for t in B],0,4)
        u=ta.union(tb); got=[tuple(e) for e in u.entries]
        exp=[]
        for t in sorted(set(A)|set(B)):
            l=[]
            if t in A: l.append('a%d'%t)
            if t in B: l.append('b%d'%t)
            exp.append((float(t),'-'.join(l)))
        if got!=exp: note(('pt union',),(A,B,got,exp))
for k,v in sorted(fails.items(),key=str): print(k,v,str(ex[k])[:200])
print('done')
