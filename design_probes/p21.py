import itertools, collections, io, contextlib
from praatio import textgrid
from praatio.utilities import errors
from p4 import tiers
IT=textgrid.IntervalTier; PT=textgrid.PointTier
fails=collections.Counter(); ex={}
def note(k,c): fails[k]+=1; ex.setdefault(k,c)
G=[0,1,2,3,4]
T=tiers(G,2)
W=[0,0.5,1,2,3,4]
def snap(t): return (t.name,t.tierType,t.minTimestamp,t.maxTimestamp,[tuple(e) for e in t.entries])
import random
cnt=0
for A in T:
  for B in T[::3]:
    for pts in ([],[1],[0,2.5,4]):
        tg=textgrid.Textgrid(0,4)
        tg.addTier(IT('a',[(float(s),float(e),'x') for s,e in A],0,4)); tg.addTier(PT('p',[(float(t),'q') for t in pts],0,4)); tg.addTier(IT('b',[(float(s),float(e),'y') for s,e in B],0,4))
        for a in W:
            for b in W:
                if a>=b: continue
                for mode in ('strict','lax','truncated'):
                    for rb in (False,True):
                        cnt+=1
                        try:
                            with contextlib.redirect_stdout(io.StringIO()): r=tg.crop(a,b,mode,rb)
                        except Exception as e_: note(('crop exc',type(e_).__name__),(A,B,pts,a,b,mode,rb)); continue
                        if r.tierNames!=tg.tierNames: note(('crop names',),()); continue
                        for t in tg.tiers:
                            if snap(r.getTier(t.name))!=snap(t.crop(a,b,mode,rb)): note(('crop tierwise',mode),(A,B,a,b,rb))
                        if mode!='lax' and not r.validate('silence'): note(('crop invalid',mode,rb),(A,B,pts,a,b,[snap(x)[2:4] for x in r.tiers],r.minTimestamp,r.maxTimestamp))
                for sh in (False,True):
                    try:
                        with contextlib.redirect_stdout(io.StringIO()): r=tg.eraseRegion(a,b,sh)
                    except Exception as e_: note(('erase exc',type(e_).__name__),(A,B,pts,a,b,sh)); continue
                    for t in tg.tiers:
                        if snap(r.getTier(t.name))!=snap(t.eraseRegion(a,b,'truncate',sh)): note(('erase tierwise',),(A,B,a,b,sh))
                    if r.tierNames!=tg.tierNames or not r.validate('silence'): note(('erase invalid',sh),(A,B,pts,a,b,[snap(x)[2:4] for x in r.tiers],r.minTimestamp,r.maxTimestamp))
            for d in (0.5,1):
                for mode in ('stretch','split','no_change','error'):
                    try:
                        with contextlib.redirect_stdout(io.StringIO()): r=tg.insertSpace(a,d,mode)
                    except errors.ArgumentError: continue
                    except Exception as e_: note(('ins exc',type(e_).__name__),(A,B,pts,a,d,mode)); continue
                    for t in tg.tiers:
                        if snap(r.getTier(t.name))!=snap(t.insertSpace(a,d,mode)): note(('ins tierwise',),(A,B,a,d,mode))
                    if r.tierNames!=tg.tierNames or not r.validate('silence'): note(('ins invalid',mode),(A,B,pts,a,d))
        for off in (-5,-1.5,0,1):
            for mode in ('silence','warning','error'):
                try:
                    with contextlib.redirect_stdout(io.StringIO()): r=tg.editTimestamps(off,mode)
                except (errors.OutOfBounds, errors.TextgridStateAutoModified): continue
                except Exception as e_: note(('edit exc',type(e_).__name__,mode),(A,B,pts,off)); continue
                if r.tierNames!=tg.tierNames: note(('edit names',),()); continue
                for t in tg.tiers:
                    with contextlib.redirect_stdout(io.StringIO()): 
                        if snap(r.getTier(t.name))!=snap(t.editTimestamps(off,'silence')): note(('edit tierwise',),(A,B,pts,off,snap(r.getTier(t.name)),snap(t.editTimestamps(off,'silence'))))
print(cnt)
for k,v in sorted(fails.items(),key=str): print(k,v,ex[k])
