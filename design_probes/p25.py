import io, contextlib, collections, itertools
import p22
from p22 import *
fails=collections.Counter(); ex={}
def note(k,c): fails[k]+=1; ex.setdefault(k,c)
# reuse: for all states seen at depth<=2 and all ops, check receiver and 'other' args unchanged
states=[]
seen=set()
front=[t for t in init]
for t in front: seen.add(canon(t))
allst=list(front)
for d in range(2):
    nx=[]
    for t in front:
        for name,f in ops(t):
            try:
                with contextlib.redirect_stdout(io.StringIO()): r=f(t)
            except Exception: continue
            c=canon(r)
            if c not in seen: seen.add(c); nx.append(r); allst.append(r)
    front=nx
print(len(allst))
osn=[canon(o) for o in other_i+other_p]
n=0
for t in allst:
    before=(t.name,canon(t))
    for name,f in ops(t):
        if name[0] in ('insE','del0'): continue
        n+=1
        try:
            with contextlib.redirect_stdout(io.StringIO()): r=f(t)
        except Exception: r=None
        if (t.name,canon(t))!=before: note(('receiver mutated',name[0]),(before,name)); break
        if [canon(o) for o in other_i+other_p]!=osn: note(('arg mutated',name[0]),(before,name)); break
        if r is not None and r is not t and len(r.entries)>0:
            # mutate result, source must not change
            try:
                r.deleteEntry(r.entries[0])
            except Exception as e: note(('cannot mutate result',name[0],type(e).__name__),(before,name))
            if (t.name,canon(t))!=before: note(('alias',name[0]),(before,name)); break
        if r is t: note(('returns self',name[0]),(before,name))
print(n)
for k,v in sorted(fails.items(),key=str): print(k,v,ex[k])
