import itertools, collections, os, tempfile, wave, shutil
from praatio import audio, textgrid, praatio_scripts
from praatio.utilities import errors
fails=collections.Counter(); ex={}
def note(k,c): fails[k]+=1; ex.setdefault(k,c)
d=tempfile.mkdtemp(); fn=os.path.join(d,'a.wav')
rate=8; N=12; width=2
samples=list(range(1,N+1))
w=audio.Wav(audio.convertToBytes(tuple(samples),width),[1,width,rate,N,'NONE','not compressed']); w.save(fn); del w
G=[x/rate for x in range(0,N+1)]
from p4 import tiers
sets=tiers(list(range(0,N+1,2))+[N] if False else [0,2,3,6,9,12],3)
gen=audio.AudioGenerator(width,rate)
for ivs in sets:
    L=[(a/rate,b/rate) for a,b in ivs]
    for kind in ('keep','delete'):
        for repl in (None,gen.generateSilence):
            af=wave.open(fn,'r')
            try:
                fr=audio.readFramesAtTimes(af, keepIntervals=L if kind=='keep' else None, deleteIntervals=L if kind=='delete' else None, replaceFunc=repl)
            except Exception as e_:
                note(('exc',type(e_).__name__,kind,'empty' if not L else ''),(ivs,)); continue
            got=audio.convertFromBytes(fr,width)
            inside=[any(a<=i<b for a,b in ivs) for i in range(N)]
            keepmask=inside if kind=='keep' else [not x for x in inside]
            if not L: keepmask=[True]*N
            if repl: exp=[s if k else 0 for s,k in zip(samples,keepmask)]
            else: exp=[s for s,k in zip(samples,keepmask) if k]
            if list(got)!=exp: note(('frames',kind,bool(repl)),(ivs,got,exp))
af=wave.open(fn,'r')
for args in [dict(keepIntervals=[(0,0.5)],deleteIntervals=[(1,1.25)]), dict(keepIntervals=[(0,2.0)]), dict(deleteIntervals=[(1,2.0)])]:
    try: audio.readFramesAtTimes(af,**args); print('no error',args)
    except Exception as e_: print(type(e_).__name__,args)
# extractSubwav
out=os.path.join(d,'o.wav')
for a in range(0,N):
    for b in range(a+1,N+1):
        audio.extractSubwav(fn,out,a/rate,b/rate)
        q=wave.open(out,'r'); p=q.getparams(); s=audio.convertFromBytes(q.readframes(p.nframes),width); q.close()
        if list(s)!=samples[a:b] or (p.nchannels,p.sampwidth,p.framerate)!=(1,width,rate): note(('extract',),(a,b,s,p))
# generated lengths
for r_ in (8,8000,44100):
    g=audio.AudioGenerator(2,r_)
    for dur in (0,0.1,0.33,1/3,0.5,1.0001):
        if len(g.generateSilence(dur))//2!=round(r_*dur) or len(g.generateSineWave(dur,200))//2!=round(r_*dur): note(('genlen',),(r_,dur))
# splitAudioOnTier
tgfn=os.path.join(d,'a.TextGrid')
for ivs in [s for s in sets if s]:
  for other in [[],[(0,2)],[(1,7)],[(3,6),(6,12)]]:
    for pts in [[],[3],[0,12]]:
      for flag in (False,True,'o'):
        for npi in (False,True):
          for ns in (None,'append','append_no_i','label'):
            tg=textgrid.Textgrid()
            tg.addTier(textgrid.IntervalTier('w',[(a/rate,b/rate,'L%d'%i) for i,(a,b) in enumerate(ivs)],0,N/rate))
            tg.addTier(textgrid.IntervalTier('o',[(a/rate,b/rate,'O%d'%i) for i,(a,b) in enumerate(other)],0,N/rate))
            tg.addTier(textgrid.PointTier('p',[(t/rate,'P') for t in pts],0,N/rate))
            tg.save(tgfn,'short_textgrid',True)
            od=os.path.join(d,'out'); shutil.rmtree(od,ignore_errors=True)
            import io,contextlib
            try:
                with contextlib.redirect_stdout(io.StringIO()):
                    r=praatio_scripts.splitAudioOnTier(fn,tgfn,'w',od,flag,ns,npi)
            except Exception as e_:
                note(('split exc',type(e_).__name__,str(e_)[:60],flag,npi),(ivs,other,pts,ns)); continue
            files=sorted(os.listdir(od))
            nw=len([f for f in files if f.endswith('.wav')]); nt=len([f for f in files if f.endswith('.TextGrid')])
            if nw!=len(ivs) or nt!=(len(ivs) if flag else 0): note(('split counts',flag),(ivs,files)); continue
            for (a,b),(s,e,name) in zip(ivs,r):
                q=wave.open(os.path.join(od,name),'r'); p=q.getparams(); sm=audio.convertFromBytes(q.readframes(p.nframes),width); q.close()
                if list(sm)!=samples[a:b]: note(('split samples',),(ivs,a,b,sm))
                if flag:
                    try:
                        sub=textgrid.openTextgrid(os.path.join(od,name[:-4]+'.TextGrid'),False,reportingMode='silence')
                    except Exception as e_: note(('split tg open exc',type(e_).__name__),(ivs,other,pts,flag)); continue
                    if (sub.minTimestamp,sub.maxTimestamp)!=(0,(b-a)/rate): note(('split tg span',flag),(ivs,a,b,sub.minTimestamp,sub.maxTimestamp))
                    wt=sub.getTier('w') if 'w' in sub.tierNames else None
                    if flag is True and (wt is None or len(wt.entries)!=1): note(('split tg label',),(ivs,a,b, wt and wt.entries))
for k,v in sorted(fails.items(),key=str): print(k,v,ex[k])
