import itertools, collections, io, contextlib, sys
from praatio import textgrid
from praatio.utilities import errors
IT=textgrid.IntervalTier; PT=textgrid.PointTier
PE=tuple(v for v in vars(errors).values() if isinstance(v,type) and issubclass(v,Exception))
fails=collections.Counter(); ex={}
def note(k,c): fails[k]+=1; ex.setdefault(k,c)
def canon(t): return (t.tierType,t.minTimestamp,t.maxTimestamp,tuple(tuple(e) for e in t.entries))
def wf(t):
    E=t.entries
    if t.tierType=='IntervalTier':
        if any(not(e.start<e.end) for e in E): return 'start>=end'
        if any(a.end>b.start for a,b in zip(E,E[1:])): return 'overlap/order'
        if E and (E[0].start<t.minTimestamp or E[-1].end>t.maxTimestamp): return 'span'
    else:
        if any(a.time>b.time for a,b in zip(E,E[1:])): return 'order'
        if E and (E[0].time<t.minTimestamp or E[-1].time>t.maxTimestamp): return 'span'
    if any(e.label!=e.label.strip() for e in E): return 'ws'
    if not t.validate('silence'): return 'validate'
    pass
    return None
V=[0,0.5,1,2,3]
other_i=[IT('o',[(0.5,2,'m')],0,3), IT('o',[(0,1,'m'),(1,3,'n')],0,3), IT('o',[],0,3)]
other_p=[PT('o',[(1,'m')],0,3), PT('o',[(0,'m'),(3,'n')],0,3), PT('o',[],0,3)]
def ops(t):
    isI=t.tierType=='IntervalTier'
    for a,b in itertools.combinations(V,2):
        for m in ('strict','lax','truncated'):
            for rb in (False,True): yield ('crop',a,b,m,rb), lambda t,a=a,b=b,m=m,rb=rb: t.crop(a,b,m,rb)
        for m in ('truncate','categorical','error'):
            for sh in (False,True): yield ('erase',a,b,m,sh), lambda t,a=a,b=b,m=m,sh=sh: t.eraseRegion(a,b,m,sh)
    for s in V:
        for d in (0.5,1):
            for m in ('stretch','split','no_change','error'): yield ('ins',s,d,m), lambda t,s=s,d=d,m=m: t.insertSpace(s,d,m)
    for off in (-1,-0.5,0.5,2): yield ('edit',off), lambda t,off=off: t.editTimestamps(off,'silence')
    if isI:
        for a,b in itertools.combinations(V,2):
            for m in ('error','replace','merge'):
                def f(t,a=a,b=b,m=m):
                    n=t.new(); n.insertEntry((a,b,'n'),m,'silence'); return n
                yield ('insE',a,b,m), f
        for i,o in enumerate(other_i):
            yield ('union',i), lambda t,o=o: t.union(o)
            yield ('diff',i), lambda t,o=o: t.difference(o)
            yield ('inter',i), lambda t,o=o: t.intersection(o)
            yield ('mergeL',i), lambda t,o=o: t.mergeLabels(o)
            yield ('append',i), lambda t,o=o: t.appendTier(o)
            yield ('dejit',i), lambda t,o=o: t.dejitter(o,0.5)
            yield ('morph',i), lambda t,o=o: t.morph(o)
    else:
        for a in V:
            for m in ('error','replace','merge'):
                def f(t,a=a,m=m):
                    n=t.new(); n.insertEntry((a,'n'),m,'silence'); return n
                yield ('insE',a,m), f
        for i,o in enumerate(other_p):
            yield ('union',i), lambda t,o=o: t.union(o)
            yield ('append',i), lambda t,o=o: t.appendTier(o)
            yield ('dejit',i), lambda t,o=o: t.dejitter(o,0.5)
    if len(t.entries):
        def g(t):
            n=t.new(); n.deleteEntry(n.entries[0]); return n
        yield ('del0',), g
init=[IT('t',[(0,1,'a'),(1,2,'b')],0,3), IT('t',[(0.5,2,'a')],0,3), PT('t',[(0,'a'),(2,'b')],0,3)]
seen={}
frontier=[(t,[]) for t in init]
for t,_ in frontier: seen[canon(t)]=[]
trans=0
DEPTH=int(sys.argv[1]) if len(sys.argv)>1 else 2
for depth in range(DEPTH):
    nxt=[]
    for t,hist in frontier:
        for name,f in ops(t):
            trans+=1
            try:
                with contextlib.redirect_stdout(io.StringIO()): r=f(t)
            except PE: continue
            except Exception as e_:
                note(('nonpraatio exc',type(e_).__name__,name[0]),(hist,name,canon(t))); continue
            w=wf(r)
            if w: note(('illformed',w,name[0]),(hist,name,canon(t),canon(r))); continue
            c=canon(r)
            if c not in seen:
                seen[c]=hist+[name]; nxt.append((r,hist+[name]))
    frontier=nxt
    print('depth',depth+1,'states',len(seen),'trans',trans,file=sys.stderr)
for k,v in sorted(fails.items(),key=str): print(k,v,ex[k])
