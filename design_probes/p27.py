from praatio import textgrid
from praatio.utilities import textgrid_io
from praatio.data_classes.textgrid import _tgToDictionary
from praatio.textgrid import _dictionaryToTg
K=['item [2]:','item[2]','intervals [1]:','intervals[1]','points [1]:','IntervalTier','"IntervalTier"','TextTier','"TextTier"','class = "IntervalTier"','text = "x"','mark = "x"','name = "q"','xmin = 5','xmax = 5','number = 5','size = 0','<exists>','ooTextFile short','! c','a\nitem [2]:','a\nxmin = 5 ','a\ntext = "q" ', 'a\n"IntervalTier"\nb','a\nIntervalTier\nb']
def show(tg): return [(t.name,t.tierType,t.minTimestamp,t.maxTimestamp,list(map(tuple,t.entries))) for t in tg.tiers]
for tok in K:
    for pos in ('ilabel1','ilabel2','plabel','iname','pname'):
        if pos.endswith('name') and '\n' in tok: continue
        iname = tok if pos=='iname' else 'i'; pname= tok if pos=='pname' else 'p'
        l1 = tok if pos=='ilabel1' else 'a'; l2 = tok if pos=='ilabel2' else 'b'; pl = tok if pos=='plabel' else 'c'
        tg=textgrid.Textgrid(0,3); tg.addTier(textgrid.IntervalTier(iname,[(0,1,l1),(1,2,l2)],0,3)); tg.addTier(textgrid.PointTier(pname,[(1,pl),(2,'d')],0,3))
        for fmt in ('short_textgrid','long_textgrid','json','textgrid_json'):
            try:
                s=textgrid_io.getTextgridAsStr(_tgToDictionary(tg),fmt,False)
                r=_dictionaryToTg(textgrid_io.parseTextgridStr(s,True),'silence')
                if show(r)!=show(tg): print('DIFF',repr(tok),pos,fmt)
            except Exception as e: print('EXC ',repr(tok),pos,fmt,type(e).__name__)
