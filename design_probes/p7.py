import itertools, collections, sys, io, contextlib
from praatio import textgrid
from praatio.utilities import errors
from p4 import tiers
IT=textgrid.IntervalTier; PT=textgrid.PointTier
fails=collections.Counter(); ex={}
def note(k,case):
    fails[k]+=1; ex.setdefault(k,case)
G=[0,1,2,3,4,5]
T=tiers(G,3)
H=[x/2 for x in range(-2,14)]
for ents in T:
    E=[(float(a),float(b),'abc'[i]) for i,(a,b) in enumerate(ents)]
    for a in H:
        for b in H:
            for mode in ('error','replace','merge'):
                tier=IT('t',E,0,5)
                new=(a,b,'n')
                coll=[x for x in E if x[0]<b and x[1]>a] if a<b else None
                try:
                    with contextlib.redirect_stdout(io.StringIO()):
                        tier.insertEntry(new,mode,'warning')
                except errors.CollisionError:
                    if not(mode=='error' and coll): note(('unexpected coll',mode),(E,new))
                    if [tuple(x) for x in tier.entries]!=E: note(('mutated on error',mode),(E,new))
                    continue
                except errors.ArgumentError as e_:
                    if a<b: note(('argerr',mode),(E,new))
                    if [tuple(x) for x in tier.entries]!=E: note(('mutated on error',mode),(E,new))
                    continue
                except Exception as e_:
                    note(('exc',type(e_).__name__,mode),(E,new)); continue
                if a>=b: note(('accepted degenerate',mode),(E,new,tier.entries)); continue
                if mode=='error' and coll: note(('no coll',mode),(E,new)); continue
                rest=[x for x in E if x not in coll]
                if mode=='merge' and coll:
                    grp=sorted(coll+[new])
                    m=(min(x[0] for x in grp),max(x[1] for x in grp),'-'.join(x[2] for x in grp))
                    exp=sorted(rest+[m])
                else: exp=sorted(rest+[new])
                got=[tuple(x) for x in tier.entries]
                if got!=exp: note(('entries',mode),(E,new,got,exp)); continue
                es=(min(0,exp[0][0]),max(5,exp[-1][1]))
                if (tier.minTimestamp,tier.maxTimestamp)!=es: note(('span',mode),(E,new,(tier.minTimestamp,tier.maxTimestamp),es))
                if not tier.validate('silence'): note(('invalid',mode),(E,new,got))
# points
for n in range(0,4):
  for pts in itertools.combinations([0,1,2,3,4],n):
    P=[(float(t),'xyz'[i]) for i,t in enumerate(pts)]
    for t in [-1,0,0.5,1,2,4,6]:
        for mode in ('error','replace','merge'):
            tier=PT('p',P,0,4)
            coll=[x for x in P if x[0]==t]
            try:
                with contextlib.redirect_stdout(io.StringIO()):
                    tier.insertEntry((t,'n'),mode,'warning')
            except errors.CollisionError:
                if not(mode=='error' and coll): note(('pt unexpected coll',mode),(P,t))
                continue
            except Exception as e_:
                note(('pt exc',type(e_).__name__,mode),(P,t)); continue
            if mode=='error' and coll: note(('pt no coll',mode),(P,t)); continue
            rest=[x for x in P if x not in coll]
            if mode=='merge' and coll: exp=sorted(rest+[(t,coll[0][1]+'-n')])
            else: exp=sorted(rest+[(t,'n')])
            got=[tuple(x) for x in tier.entries]
            if got!=exp: note(('pt entries',mode),(P,t,got,exp)); continue
            es=(min(0,exp[0][0]),max(4,exp[-1][0]))
            if (tier.minTimestamp,tier.maxTimestamp)!=es: note(('pt span',mode),(P,t,(tier.minTimestamp,tier.maxTimestamp),es))
            if not tier.validate('silence'): note(('pt invalid',mode),(P,t,got))
for k,v in sorted(fails.items(),key=str): print(k,v,ex[k])
