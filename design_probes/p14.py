import itertools, collections
from praatio import textgrid, praatio_scripts
from praatio.utilities import errors
from p4 import tiers
IT=textgrid.IntervalTier; PT=textgrid.PointTier
fails=collections.Counter(); ex={}
def note(k,c): fails[k]+=1; ex.setdefault(k,c)
G=[x/4 for x in range(0,9)]  # 0..2 step .25
T=[t for t in tiers(G,2)]
print(len(T))
refsets=[list(c) for n in range(0,3) for c in itertools.combinations(G,n)]
for ents in T:
    E=[(a,b,'ab'[i]) for i,(a,b) in enumerate(ents)]
    tier=IT('t',E,0,2)
    for ref in refsets:
        rt=PT('r',[(t,'r') for t in ref],0,2)
        for md in (0.25,0.5,0.3):
            def adj(t):
                if not ref: return None
                best=min(abs(r-t) for r in ref)
                cands=[r for r in ref if abs(r-t)==best]
                return cands if best<=md else [t]
            try:
                r=tier.dejitter(rt,md)
            except errors.TextgridStateError as e_:
                # acceptable only if adjustment collapses/crosses
                if ref:
                    ok=False
                    # any choice leads to ill-formed?
                    opts=[ [ (s,e,l) for s in adj(a) for e in adj(b)] for a,b,l in E]
                    good=False
                    for combo in itertools.product(*opts):
                        if all(s<e for s,e,l in combo) and all(x[1]<=y[0] for x,y in zip(combo,combo[1:])): good=True
                    if good and all(len(adj(a))==1 and len(adj(b))==1 for a,b,l in E): note(('raised though fine',md),(E,ref))
                continue
            except Exception as e_:
                note(('exc',type(e_).__name__,'emptyref' if not ref else ''),(E,ref,md)); continue
            got=[tuple(x) for x in r.entries]
            if len(got)!=len(E) or [g[2] for g in got]!=[e[2] for e in E]: note(('count/labels',md),(E,ref,got)); continue
            for g,(a,b,l) in zip(got,E):
                if g[0] not in adj(a) or g[1] not in adj(b): note(('wrong move',md),(E,ref,got)); break
            if not r.validate('silence'): note(('invalid',md),(E,ref,got))
# morph
T3=[t for t in tiers([0,1,2,3,4],3)]
for A in T3:
    EA=[(float(a),float(b),'abc'[i]) for i,(a,b) in enumerate(A)]
    ta=IT('t',EA,0,5)
    for B in T3:
        EB=[(float(a),float(b),'xyz'[i]) for i,(a,b) in enumerate(B)]
        tb=IT('t',EB,0,4)
        for filt in (None, lambda l: l in 'ac', lambda l: False):
            try: r=ta.morph(tb,filt)
            except errors.SafeZipException:
                if len(EA)==len(EB): note(('safezip',),(EA,EB))
                continue
            except Exception as e_:
                note(('morph exc',type(e_).__name__, 'empty' if not EA else ''),(EA,EB)); continue
            if len(EA)!=len(EB): note(('no err mismatch',),(EA,EB)); continue
            got=[tuple(x) for x in r.entries]
            ok=len(got)==len(EA) and [g[2] for g in got]==[e[2] for e in EA]
            if ok and got:
                ok&= got[0][0]==EA[0][0]
                for i,(g,a,b) in enumerate(zip(got,EA,EB)):
                    sel = filt is None or filt(a[2])
                    ok&= (g[1]-g[0])==((b[1]-b[0]) if sel else (a[1]-a[0]))
                for (g1,g2),(a1,a2) in zip(zip(got,got[1:]),zip(EA,EA[1:])): ok&= (g2[0]-g1[1])==(a2[0]-a1[1])
                ok&= (r.maxTimestamp-got[-1][1])==(5-EA[-1][1]) and r.minTimestamp==0
            if not ok: note(('morph result',),(EA,EB,got,r.maxTimestamp))
for k,v in sorted(fails.items(),key=str): print(k,v,ex[k])
