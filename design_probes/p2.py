from praatio import textgrid
from praatio.utilities import textgrid_io
from praatio.data_classes.textgrid import _tgToDictionary
import json
def save(tg, blanks=True, lo=None, hi=None, thr=1e-8, fmt='textgrid_json'):
    return json.loads(textgrid_io.getTextgridAsStr(_tgToDictionary(tg), fmt, blanks, lo, hi, thr))
def mk(entries, lo=None, hi=None):
    tg=textgrid.Textgrid(); tg.addTier(textgrid.IntervalTier('i',entries,lo,hi)); return tg
def t(desc, *a, **k):
    try: print(desc, save(*a,**k)['tiers'][0]['entries'])
    except Exception as e: print(desc,'EXC',type(e).__name__,e)
t('first sliver', mk([(0,5e-9,'s'),(5e-9,1,'a')],0,2))
t('first sliver then gap', mk([(0,5e-9,'s'),(0.5,1,'a')],0,2))
t('lead gap sliver', mk([(5e-9,1,'a')],0,2))
t('mid sliver', mk([(0,1,'a'),(1,1+5e-9,'s'),(1+5e-9,2,'b')],0,2))
t('mid gap sliver', mk([(0,1,'a'),(1+5e-9,2,'b')],0,2))
t('end sliver', mk([(0,1,'a'),(1,1+5e-9,'s')],0,1+5e-9))
t('end gap sliver', mk([(0,1,'a')],0,1+5e-9))
t('chain', mk([(0,1,'a'),(1,1+5e-9,'s'),(1+5e-9,1+1e-8,'t'),(1+1e-8,2,'b')],0,2))
t('all sliver', mk([(0,5e-9,'s')],0,5e-9))
t('two lead slivers', mk([(0,5e-9,'s'),(5e-9,9e-9,'t'),(9e-9,1,'a')],0,1))
t('thr none', mk([(0,5e-9,'s'),(5e-9,1,'a')],0,2), thr=None)
t('thr .06', mk([(0.05,1,'a')],0,2), thr=0.06)
t('min override below', mk([(1,2,'a')],1,3), lo=0.5)
t('min override above', mk([(1,2,'a')],1,3), lo=1.5)
t('max override below', mk([(1,2,'a')],1,3), hi=1.5)
t('max override above', mk([(1,2,'a')],1,3), hi=4)
t('min override noblank', mk([(1,2,'a')],1,3), blanks=False, lo=1.5)
print(save(mk([(1,2,'a')],1,3), lo=0.5, hi=4))
# sliver lead when min override
t('lead sliver w/ override', mk([(1,1+5e-9,'s'),(1+5e-9,2,'a')],1,3), lo=0.5)
t('lone labelled sliver after gap', mk([(0.5,0.5+5e-9,'s'),(1,2,'a')],0,3))
