import time
from praatio import textgrid
from praatio.utilities import textgrid_io
from praatio.data_classes.textgrid import _tgToDictionary
from praatio.textgrid import _dictionaryToTg
tg=textgrid.Textgrid(0,3); tg.addTier(textgrid.IntervalTier('i',[(0,1,'a"b'),(1.5,2,'c\nd')],0,3)); tg.addTier(textgrid.PointTier('p',[(1,'x')],0,3))
for fmt in ('short_textgrid','long_textgrid','json','textgrid_json'):
    t=time.time(); n=2000
    for _ in range(n):
        s=textgrid_io.getTextgridAsStr(_tgToDictionary(tg),fmt,True)
        d=textgrid_io.parseTextgridStr(s,False); r=_dictionaryToTg(d,'silence')
    print(fmt,(time.time()-t)/n*1e6,'us')
import os,tempfile
d=tempfile.mkdtemp(dir='/dev/shm'); fn=os.path.join(d,'x')
t=time.time()
for _ in range(1000):
    tg.save(fn,'short_textgrid',True); textgrid.openTextgrid(fn,False)
print('file',(time.time()-t)/1000*1e6,'us')
