import itertools, collections, sys
from fractions import Fraction as F
from praatio import textgrid
from praatio.utilities import errors
IT=textgrid.IntervalTier; PT=textgrid.PointTier
def tiers(G,maxn=3):
    ivs=[(a,b) for a in G for b in G if a<b]
    out=[]
    def rec(start,cur):
        out.append(list(cur))
        if len(cur)==maxn: return
        for (a,b) in ivs:
            if a>=start:
                cur.append((a,b)); rec(b,cur); cur.pop()
    rec(G[0],[])
    return out
fails=collections.Counter(); ex={}
def note(k,case):
    fails[k]+=1; ex.setdefault(k,case)
def close(x,y): return abs(x-y)<=1e-9
def run(G,W,tag,same_label=False):
    T=tiers(G)
    lo,hi=G[0],G[-1]
    for ents in T:
        lab='abc' if not same_label else 'aaa'
        E=[(float(a),float(b),lab[i]) for i,(a,b) in enumerate(ents)]
        tier=IT('t',E,lo,hi)
        for a in W:
            for b in W:
                if not (lo<=a<b<=hi): continue
                for mode in ('truncate','categorical','error'):
                    for sh in (False,True):
                        ov=[(s,e,l) for s,e,l in E if s<b and e>a]
                        # model with fractions
                        exp=[]; 
                        if mode=='error' and ov: exp=None
                        else:
                            for s,e,l in E:
                                if e<=a or s>=b: exp.append((F(s),F(e),l)); continue
                                if mode=='categorical': continue
                                if s<a: exp.append((F(s),F(a),l))
                                if e>b: exp.append((F(b),F(e),l))
                            if sh:
                                d=F(b)-F(a)
                                n=[]
                                for s,e,l in exp:
                                    if e<=F(a): n.append((s,e,l))
                                    else: n.append((s-d,e-d,l))
                                # rejoin straddler
                                m=[]
                                for x in n:
                                    if m and m[-1][1]==x[0]==F(a) and m[-1][2]==x[2] and any(s<a and e>b for s,e,l in E): m[-1]=(m[-1][0],x[1],x[2])
                                    else: m.append(x)
                                exp=m
                        try:
                            r=tier.eraseRegion(a,b,mode,sh)
                        except errors.CollisionError:
                            if exp is not None: note((tag,'unexpected collision',mode,sh),(E,a,b))
                            continue
                        except Exception as e_:
                            note((tag,'exc',type(e_).__name__,mode,sh),(E,a,b,str(e_)[:80])); continue
                        if exp is None: note((tag,'no collision error',mode,sh),(E,a,b)); continue
                        got=[tuple(x) for x in r.entries]
                        if len(got)!=len(exp) or any(g[2]!=x[2] or not close(g[0],float(x[0])) or not close(g[1],float(x[1])) for g,x in zip(got,exp)):
                            note((tag,'entries',mode,sh),(E,a,b,got,[(float(s),float(e),l) for s,e,l in exp]))
                        espan=(lo, float(F(hi)-(F(b)-F(a))) if sh else hi)
                        if not (close(r.minTimestamp,espan[0]) and close(r.maxTimestamp,espan[1])): note((tag,'span',mode,sh),(E,a,b,(r.minTimestamp,r.maxTimestamp),espan))
                        if not r.validate('silence'): note((tag,'invalid',mode,sh),(E,a,b))
if __name__=="__main__": G=[0,1,2,3,4,5,6]
if __name__=="__main__": run(G,[x/2 for x in range(0,13)],'dyadic')
if __name__=="__main__": run(G,[x/2 for x in range(0,13)],'dyadic-same',True)
if __name__=="__main__": D=[0.1,0.2,0.3,0.7,1.1,1.3,2.3]
if __name__=="__main__": run(D,D+[0.15,0.45,0.9,1.2,1.9],'dec')
if __name__=="__main__": run(D,D+[0.15,0.45,0.9,1.2,1.9],'dec-same',True)
if __name__=="__main__":
  for k,v in sorted(fails.items(),key=str): print(k,v,ex[k])
