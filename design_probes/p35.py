# C05 deep regime feasibility: reduced menu, caps, BFS to reachability fixed point
import itertools, collections, io, contextlib, sys, time
from praatio import textgrid
from praatio.utilities import errors
IT=textgrid.IntervalTier
PE=tuple(v for v in vars(errors).values() if isinstance(v,type) and issubclass(v,Exception))
V=[0.0,1.0,2.0,3.0,4.0]
CAPMAX=5.0
def canon(t): return (t.minTimestamp,t.maxTimestamp,tuple(tuple(e) for e in t.entries))
def wf(t):
    E=t.entries
    if any(not(e.start<e.end) for e in E): return 'start>=end'
    if any(a.end>b.start for a,b in zip(E,E[1:])): return 'overlap'
    if E and (E[0].start<t.minTimestamp or E[-1].end>t.maxTimestamp): return 'span'
    if not t.validate('silence'): return 'validate'
ref=IT('r',[(1.0,3.0,'r')],0,4)
def ops(t):
    lo,hi=t.minTimestamp,t.maxTimestamp
    for a,b in itertools.combinations(V,2):
        for m in ('strict','truncated'):
            for rb in (False,True): yield ('crop',a,b,m,rb), lambda t,a=a,b=b,m=m,rb=rb: t.crop(a,b,m,rb)
        if lo<=a and b<=hi:
            for m in ('truncate','categorical'):
                for sh in (False,True): yield ('erase',a,b,m,sh), lambda t,a=a,b=b,m=m,sh=sh: t.eraseRegion(a,b,m,sh)
        for m in ('replace','error'):
            def f(t,a=a,b=b,m=m):
                n=t.new(); n.insertEntry((a,b,'n'),m,'silence'); return n
            yield ('insE',a,b,m), f
    for i in range(len(t.entries)):
        def g(t,i=i):
            n=t.new(); n.deleteEntry(n.entries[i]); return n
        yield ('del',i), g
    for off in (-1.0,1.0): yield ('edit',off), lambda t,off=off: t.editTimestamps(off,'silence')
    yield ('diff',), lambda t: t.difference(ref)
    for s in V:
        if lo<=s<=hi: yield ('ins',s), lambda t,s=s: t.insertSpace(s,1.0,'split')
init=[IT('t',[(0,1,'a'),(1,2,'b')],0,3), IT('t',[],0,2)]
seen={canon(t):0 for t in init}; frontier=list(init); trans=0; pruned=0; bad=collections.Counter(); ex={}
t0=time.time(); depth=0
while frontier:
    nxt=[]
    for t in frontier:
        for name,f in ops(t):
            trans+=1
            try:
                with contextlib.redirect_stdout(io.StringIO()): r=f(t)
            except PE: continue
            except Exception as e_: bad[('exc',type(e_).__name__,name[0])]+=1; ex.setdefault(('exc',type(e_).__name__,name[0]),(canon(t),name)); continue
            w=wf(r)
            if w: bad[(w,name[0])]+=1; ex.setdefault((w,name[0]),(canon(t),name,canon(r))); continue
            if r.maxTimestamp>CAPMAX or r.minTimestamp<0: pruned+=1; continue
            c=canon(r)
            if c not in seen: seen[c]=depth+1; nxt.append(r)
    frontier=nxt; depth+=1
    print('depth',depth,'states',len(seen),'trans',trans,'pruned',pruned,'new',len(nxt),'%.0fs'%(time.time()-t0),flush=True)
    if time.time()-t0>600: print('time cap'); break
for k,v in sorted(bad.items(),key=str): print(k,v,ex[k])
